"""OPEN (not claimed, not run by ./check): segmentation lemma for the chunk reading specification.  54 of 55 obligations
discharge; the hint `sub(rest2, 0, n2) == sub(rest + b, 0, n)` (pure congruence under nested extracts with a symbolic
IndexOf offset) times out in z3 and cvc5.  Contract: see the LemmaDechunkMerge class text kept below."""
from pyvc.api import sub
from specs.http import dechunk, hexval


def tail(s, k):
    return sub(s, k, len(s) - k)


def lemma_dechunk_merge(body, x, b):
    """consuming complete chunks from x and then, with what is left, from the newly read b is the same as consuming
    them from x + b (the reading specification of the chunked mechanism does not depend on where the read boundary is)"""
    pos = x.find(b"\r\n")
    if pos < 0:
        assert dechunk(body, x) == (body, x, False)
    else:
        xb = x + b
        assert xb.find(b"\r\n") == pos
        n = hexval(sub(x, 0, pos))
        rest = tail(x, pos + 2)
        assert sub(xb, 0, pos) == sub(x, 0, pos)
        assert tail(xb, pos + 2) == rest + b
        if n + 2 > len(rest):
            assert dechunk(body, x) == (body, x, False)
        elif n == 0:
            assert dechunk(body, x) == (body, tail(rest, 2), True)
            assert tail(rest + b, 2) == tail(rest, 2) + b
            assert dechunk(body, xb) == (body, tail(rest, 2) + b, True)
        else:
            assert sub(rest + b, 0, n) == sub(rest, 0, n)
            assert tail(rest + b, n + 2) == tail(rest, n + 2) + b
            assert dechunk(body, x) == dechunk(body + sub(rest, 0, n), tail(rest, n + 2))
            p2 = xb.find(b"\r\n")
            n2 = hexval(sub(xb, 0, p2))
            rest2 = tail(xb, p2 + 2)
            assert p2 == pos
            assert n2 == n
            assert rest2 == rest + b
            assert n2 + 2 <= len(rest2) and n2 != 0
            assert dechunk(body, xb) == dechunk(body + sub(rest2, 0, n2), tail(rest2, n2 + 2))
            assert sub(rest2, 0, n2) == sub(rest + b, 0, n)
            assert tail(rest2, n2 + 2) == tail(rest + b, n + 2)
            assert dechunk(body, xb) == dechunk(body + sub(rest, 0, n), tail(rest, n + 2) + b)
            lemma_dechunk_merge(body + sub(rest, 0, n), tail(rest, n + 2), b)


CONTRACT = '''
@contract("lemmas.http:lemma_dechunk_merge", prop="C07", modular=True)
class LemmaDechunkMerge:
    params = {"body": Bytes, "x": Bytes, "b": Bytes}
    raises = {}

    def merge(body, x, b):
        d = dechunk(body, x)
        return dechunk(body, x + b) == ((d[0], d[1] + b, True) if d[2] else dechunk(d[0], d[1] + b))

    ensures = [merge]

    def decreases(x):
        return len(x)
'''
