"""C02: SRP-6a client values equal those of a spec-conformant accessory (RFC 5054, HomeKit parameters)."""
import z3

from pyvc.api import contract, Int, Bool, Bytes, ByteArray, Str, implies
from pyvc.values import SObj, SInt, SBytes
from pyvc.interp import StubObj
from pyvc import ops
from pyvc.stubs_builtin import F_os2ip_be
from pyvc.stubs_srp import F_minbytes
from specs.srp import modexp, sha512, os2ip, minbytes, zeros, PAD, L

from aiohomekit.crypto import srp as S
from aiohomekit.crypto.srp import SrpClient

# the group and the constants are taken from an INDEPENDENT statement of RFC 5054 (harness/hap_accessory.py: appendix A
# prime, g = 5) - the module's own constants are compared against them by the ground checks at the end of this file
from harness.hap_accessory import N as RFC_N, G as RFC_G

def configure(env):
    """C02 is the property that verifies aiohomekit.crypto.srp itself: the model that other properties use for
    srp.to_byte_array is removed, its real body is executed (over the models of int.bit_length / math.ceil /
    int.to_bytes, which speak of the minimal big-endian encoding `minbytes` and of zero padding)"""
    env.stubs.pop(id(S.to_byte_array), None)


LAWS = "laws of big-endian positional notation on the conversion symbols (ground instances): len(minbytes(n)) <= L iff n < 256^L; PAD(os2ip(s), len(s)) = s; os2ip injective on strings of equal length"
TRUSTED = [LAWS, "int.bit_length / int.to_bytes modelled over `minbytes` (minimal big-endian encoding): x.to_bytes(L) = zeros(L - len(minbytes(x))) + minbytes(x), ceil(x.bit_length() / 8) = len(minbytes(x)); ground-checked natively on random and boundary values"]


def law_fits(it, n, length):
    """len(minbytes(n)) <= length  iff  0 <= n < 256^length"""
    t = ops.int_term(n)
    it.ctx.assume((z3.Length(F_minbytes(t)) <= length) == z3.And(t >= 0, t < 256 ** length))
    it.env.assumptions_used.add(LAWS)


def law_roundtrip(it, s):
    """re-padding the minimal encoding of the value of a byte string to its length gives the byte string back"""
    from pyvc.stubs_crypto import F_zeros

    st = ops.bytes_term(s)
    v = it.call(int.from_bytes, [SBytes(st, False), "big"], {})  # (the value as the model of int.from_bytes writes it)
    m = F_minbytes(ops.int_term(v))
    it.ctx.assume(z3.Length(m) <= z3.Length(st))
    it.ctx.assume(z3.Concat(F_zeros(z3.Length(st) - z3.Length(m)), m) == st)
    # the same law in the digit vocabulary that the model of int.to_bytes uses for lengths up to 16
    n = z3.simplify(z3.Length(st))
    if z3.is_int_value(n) or it.ctx.pinned_int(z3.Length(st)) is not None:
        k = n.as_long() if z3.is_int_value(n) else it.ctx.pinned_int(z3.Length(st))
        if k <= 16:
            vt = ops.int_term(v)
            digits = [z3.Unit((vt / z3.IntVal(256 ** j)) % 256) for j in range(k)]
            digits.reverse()
            it.ctx.assume((z3.Concat(*digits) if k > 1 else digits[0]) == st)
    it.env.assumptions_used.add(LAWS)


def law_injective(it, a, b):
    at, bt_ = ops.bytes_term(a), ops.bytes_term(b)
    it.ctx.assume(z3.Implies(z3.And(z3.Length(at) == z3.Length(bt_), F_os2ip_be(at) == F_os2ip_be(bt_)), at == bt_))
    it.env.assumptions_used.add(LAWS)


class _GenKey(StubObj):
    def __init__(self, a):
        self.a = a

    def sym_call(self, it):
        return self.a


def _secret(it):
    a = it.fresh(Int, "a")
    it.ctx.assume(z3.And(a.term >= 0, a.term < 2 ** 128))
    return a


def _user_pin(it):
    return "Pair-Setup", it.fresh(Str, "pin")


# ------------------------------------------------------------------------------------------------- construction


def _init_setup(it):
    a = _secret(it)
    user, pin = _user_pin(it)
    o = SObj(SrpClient, {"generate_private_key": _GenKey(a)}, label="client")
    it.ctx.ghost.update(a=a, pin=pin)
    # A = g^a mod N is below N < 256^384: its minimal encoding fits into 384 bytes
    A = ops.mk_int(__import__("pyvc.stubs_crypto", fromlist=["F_modexp"]).F_modexp(z3.IntVal(RFC_G), a.term, z3.IntVal(RFC_N)))
    law_fits(it, A, L)
    return {"self": o, "username": user, "password": pin}


@contract("aiohomekit.crypto.srp:SrpClient.__init__", prop="C02")
class ClientInit:
    """A = g^a mod N in the RFC 5054 3072-bit group, sent as PAD(A) (384 bytes, leading zeros kept)"""

    setup = _init_setup
    trusted = TRUSTED
    raises = {}

    def public_value(self, a, pin):
        A = modexp(RFC_G, a, RFC_N)
        return (
            self.a == a
            and self.A == A
            and self.A_b == PAD(A)
            and len(self.A_b) == L
            and self.n == RFC_N
            and self.g == RFC_G
            and self.k == K_CONST
            and self.hGroup == H_GROUP
            and self.hu == sha512("Pair-Setup".encode())
            and self.password == pin
            and self._session_key is None
        )

    ensures = [public_value]


def _client(it, with_salt=True, with_B=True, with_key=False):
    """a client after __init__ (fields as ClientInit proves them), optionally after set_salt / set_server_public_key"""
    from pyvc.stubs_crypto import F_modexp, F_sha512

    a = _secret(it)
    user, pin = _user_pin(it)
    A = F_modexp(z3.IntVal(RFC_G), a.term, z3.IntVal(RFC_N))
    it.ctx.assume(z3.And(A >= 0, A < RFC_N))
    law_fits(it, ops.mk_int(A), L)
    from pyvc.verify import eval_clause

    A_b = eval_clause(it, _pad, {"n": ops.mk_int(A)})
    o = SObj(SrpClient, label="client")
    hu = eval_clause(it, _hu, {})
    o.fields.update(g=S.GENERATOR_VALUE, n=S.MODULUS_VALUE, hGroup=S.H_GROUP, h=__import__("hashlib").sha512, A=ops.mk_int(A), B=None, salt=None, salt_b=None,
                    A_b=A_b, B_b=None, username=user, password=pin, hu=hu, _session_key=None, a=a, k=S.CLIENT_K_VALUE)
    g = {"a": a, "pin": pin, "A_b": A_b}
    if with_salt:
        s = it.fresh(Bytes, "salt")
        it.ctx.assume(z3.Length(s.term) == 16)
        x = eval_clause(it, _x, {"s": s, "pin": pin})
        o.fields.update(salt=ops.mk_int(F_os2ip_be(s.term)), salt_b=s, x=x)
        g.update(s=s, x=x)
    if with_B:
        B_b = it.fresh(Bytes, "B_b")
        it.ctx.assume(z3.Length(B_b.term) == L)
        o.fields.update(B_b=B_b, B=ops.mk_int(F_os2ip_be(B_b.term)))
        it.ctx.assume(F_os2ip_be(B_b.term) >= 0)
        g.update(B_b=B_b)
    it.ctx.ghost.update(g)
    return o


def _pad(n):
    return PAD(n)


def _hu():
    return sha512("Pair-Setup".encode())


def _x(s, pin):
    return os2ip(sha512(s + sha512(("Pair-Setup" + ":" + pin).encode())))


def _u(A_b, B_b):
    return os2ip(sha512(A_b + B_b))


def _S(a, x, A_b, B_b):
    """S = (B - k g^x)^(a + u x) mod N with k = H(PAD(N) | PAD(g)) (checked against the module constant below)"""
    return modexp(os2ip(B_b) - K_CONST * modexp(RFC_G, x, RFC_N), a + _u(A_b, B_b) * x, RFC_N)


def _K(a, x, A_b, B_b):
    return sha512(PAD(_S(a, x, A_b, B_b)))


def _M1(a, x, s, A_b, B_b):
    return sha512(H_GROUP + _hu() + s + A_b + B_b + _K(a, x, A_b, B_b))


def _M2(a, x, s, A_b, B_b):
    return sha512(A_b + _M1(a, x, s, A_b, B_b) + _K(a, x, A_b, B_b))


import hashlib as _hl

from harness.hap_accessory import PAD as _RPAD, minbytes as _rmin

K_CONST = int.from_bytes(_hl.sha512(_RPAD(RFC_N) + _RPAD(RFC_G)).digest(), "big")  # k = H(PAD(N) | PAD(g)), RFC 5054 2.6
H_GROUP = bytes(p ^ q for p, q in zip(_hl.sha512(_rmin(RFC_N)).digest(), _hl.sha512(_rmin(RFC_G)).digest()))


# ------------------------------------------------------------------------------------------------- salt, server key


def _salt_setup(it):
    o = _client(it, with_salt=False, with_B=False)
    s = it.fresh(ByteArray, "salt")
    it.ctx.assume(z3.Length(s.term) == 16)
    law_roundtrip(it, s)
    it.ctx.ghost["s"] = SBytes(s.term, False)
    return {"self": o, "salt": s}


@contract("aiohomekit.crypto.srp:SrpClient.set_salt", prop="C02")
class SetSalt:
    """every 16-byte salt, all-zero and leading-zero ones included, is used byte for byte: x = H(s | H(I ":" P))"""

    setup = _salt_setup
    trusted = TRUSTED
    raises = {}

    def salt_kept_and_x(self, s, pin):
        return self.salt_b == s and len(self.salt_b) == 16 and self.x == _x(s, pin)

    ensures = [salt_kept_and_x]


def _spk_setup(it):
    o = _client(it, with_salt=True, with_B=False)
    B_b = it.fresh(Bytes, "B_b")
    it.ctx.ghost["B_b"] = B_b
    return {"self": o, "B_b": B_b}


@contract("aiohomekit.crypto.srp:SrpClient.set_server_public_key", prop="C02")
class SetServerKey:
    """the accessory's public value is kept as the bytes received (no integer round trip that would drop zeros)"""

    setup = _spk_setup
    raises = {}

    def kept(self, B_b):
        return self.B_b == B_b and self.B == os2ip(B_b)

    ensures = [kept]


# ------------------------------------------------------------------------------------------------- S, K, M1, M2


def _full(it):
    o = _client(it)
    return {"self": o}


@contract("aiohomekit.crypto.srp:SrpClient.get_shared_secret", prop="C02")
class SharedSecret:
    setup = _full
    trusted = TRUSTED
    raises = {}

    def premaster(self, a, x, A_b, B_b, result):
        return result == _S(a, x, A_b, B_b) and 0 <= result < RFC_N

    ensures = [premaster]


def _key_setup(it):
    from pyvc.verify import eval_clause

    o = _client(it)
    g = it.ctx.ghost
    Sv = eval_clause(it, _S, {"a": g["a"], "x": g["x"], "A_b": g["A_b"], "B_b": g["B_b"]})
    it.ctx.assume(z3.And(ops.int_term(Sv) >= 0, ops.int_term(Sv) < RFC_N))
    law_fits(it, Sv, L)
    return {"self": o}


@contract("aiohomekit.crypto.srp:SrpClient.get_session_key_bytes", prop="C02")
class SessionKey:
    """K = H(PAD(S)): the premaster secret is hashed as 384 bytes, leading zeros included"""

    setup = _key_setup
    trusted = TRUSTED
    raises = {}

    def key(self, a, x, A_b, B_b, result):
        return result == _K(a, x, A_b, B_b) and self._session_key == result and len(result) == 64

    ensures = [key]


@contract("aiohomekit.crypto.srp:SrpClient.get_proof_bytes", prop="C02")
class Proof:
    """M1 = H(H(N) xor H(g) | H(I) | s | PAD(A) | PAD(B) | K)"""

    setup = _key_setup
    trusted = TRUSTED
    raises = {}

    def proof(self, a, x, s, A_b, B_b, result):
        return result == _M1(a, x, s, A_b, B_b) and len(result) == 64

    ensures = [proof]


def _verify_setup(it):
    r = _key_setup(it)
    M = it.fresh(Bytes, "M2_received")
    it.ctx.ghost["M"] = M
    from pyvc.verify import eval_clause

    g = it.ctx.ghost
    want = eval_clause(it, _M2, {"a": g["a"], "x": g["x"], "s": g["s"], "A_b": g["A_b"], "B_b": g["B_b"]})
    law_injective(it, M, want)
    r["M_b"] = M
    return r


@contract("aiohomekit.crypto.srp:SrpClient.verify_servers_proof_bytes", prop="C02")
class VerifyServerProof:
    """the accessory's proof is accepted iff its value is M2 = H(PAD(A) | M1 | K); for a 64-byte proof: iff it IS M2"""

    setup = _verify_setup
    trusted = TRUSTED
    raises = {}

    def accepts_exactly_m2(a, x, s, A_b, B_b, M, result):
        want = _M2(a, x, s, A_b, B_b)
        return result == (os2ip(M) == os2ip(want)) and (len(M) != 64 or result == (M == want))

    ensures = [accepts_exactly_m2]


# ------------------------------------------------------------------------------------------------- bounded stand-in / replay


def _native(tier, seed):
    from harness import srp_interop

    return srp_interop.run(tier, seed, "C02/aiohomekit.crypto.srp:SrpClient#native")


def _native_replay(env, con, obs):
    r = _native("quick", 0)
    if r["failures"]:
        f = dict(r["failures"][0])
        f.update({"confirmed": True, "source": "native-harness", "key": f["clause"]})
        return f
    return {"confirmed": False, "inputs_tried": r["cases"]}


ClientInit.bounded_run = staticmethod(_native)
ClientInit.bound_note = (
    "interoperability with REAL arithmetic and hashing (the proofs treat modexp, SHA-512 and the byte conversions as function "
    "symbols), rejection of a wrong setup code by the accessory, and the model of to_byte_array are decided only by this "
    "bounded stand-in: the real SrpClient against an independent RFC 5054 accessory, with directed search for leading-zero "
    "A, B, S, K, M1, M2 and zero / leading-zero salts, all single-bit corruptions of M2"
)
for _k in list(globals().values()):
    if isinstance(_k, type) and getattr(_k, "prop", None) == "C02":
        _k.replay = staticmethod(_native_replay)
