from pyvc.api import contract, LoopInv, Int, Bytes, ByteArray, ListOf, TupleOf, implies
from specs.tlv import rest_frags, frags, enc_upto, Items


@contract("aiohomekit.protocol.tlv:TLV.encode_list", prop="C15")
class EncodeList:
    params = {"d": Items}
    raises = {ValueError: True}

    def post(d, result):
        return result == enc_upto(d, len(d))

    ensures = [post]

    def outer(d, i, result):
        return result == enc_upto(d, i)

    def inner(key, value, result, result__entry, value__entry):
        return result + rest_frags(key, value) == result__entry + rest_frags(key, value__entry)

    def copy(result, result__entry, seq, i):
        return result == result__entry + seq[:i]

    loops = {
        0: LoopInv(outer),
        1: LoopInv(inner),
        2: LoopInv(copy),
        3: LoopInv(copy),
    }
