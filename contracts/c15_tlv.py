import itertools
import random

from pyvc.api import contract, LoopInv, Int, Bytes, ByteArray, Str, ListOf, TupleOf, implies, exists, forall
from specs.tlv import rest_frags, frags, enc_upto, enc, Items

LENS = [0, 1, 2, 254, 255, 256, 257, 509, 510, 511, 765, 766]


def _val(n, seed=0):
    return bytes((seed + 7 * i) % 256 for i in range(n))


def item_lists():
    for n in LENS:
        for k in (0, 1, 6, 12, 13, 254, 255):
            if k == 255 and n:
                continue
            yield [(k, _val(n, k))]
    for a, b in itertools.product([0, 1, 255, 256, 510], repeat=2):
        yield [(1, _val(a, 1)), (2, _val(b, 2))]
        yield [(1, _val(a, 1)), (255, b""), (1, _val(b, 3))]
    yield []
    yield [(6, b"\x01"), (3, _val(384)), (2, _val(16))]
    rnd = random.Random(15)
    for _ in range(60):
        out = []
        for _ in range(rnd.randint(1, 5)):
            k = rnd.choice([0, 1, 2, 3, 12, 13, 255, rnd.randint(0, 255)])
            v = b"" if k == 255 else _val(rnd.choice(LENS + [rnd.randint(0, 2000)]), rnd.randint(0, 255))
            if out and out[-1][0] == k:
                out.append((255, b""))
            out.append((k, v))
        yield out


@contract("aiohomekit.protocol.tlv:TLV.encode_list", prop="C15", modular=True)
class EncodeList:
    params = {"d": Items}
    returns = ByteArray
    raises_exact = True

    def invalid_item(d):
        """ValueError only for a type outside 0..255 or a separator carrying data"""
        return exists(0, len(d), lambda j: d[j][0] < 0 or d[j][0] > 255 or (d[j][0] == 255 and len(d[j][1]) > 0))

    raises = {ValueError: invalid_item}

    def corpus():
        for items in item_lists():
            yield {"d": items}
        yield {"d": [(256, b"x")]}
        yield {"d": [(1, b"x"), (255, b"x")]}
        yield {"d": [(-1, b"")]}

    def post(d, result):
        return result == enc_upto(d, len(d))

    ensures = [post]

    def outer(d, i, result):
        return result == enc_upto(d, i)

    def inner(key, value, result, result__entry, value__entry):
        return result + rest_frags(key, value) == result__entry + rest_frags(key, value__entry)

    def copy(result, result__entry, seq, i):
        return result == result__entry + seq[:i]

    loops = {
        0: LoopInv(outer),
        1: LoopInv(inner),
        2: LoopInv(copy),
        3: LoopInv(copy),
    }


from aiohomekit.protocol.tlv import TlvParseException
from specs.tlv import dec_ok, dec_from, DItems, Ints


def _expected(it):
    """`expected` is None or a list of ints (any length)"""
    if it.ctx.choose(["none", "list"]) == "none":
        return None
    return it.fresh(Ints, "arg_expected")


@contract("aiohomekit.protocol.tlv:TLV.decode_bytearray", prop="C15", modular=True)
class DecodeBytearray:
    params = {"ba": ByteArray, "expected": _expected}
    returns = DItems
    raises_exact = True

    def malformed(ba, expected):
        return not dec_ok(ba, [] if expected is None else expected)

    raises = {TlvParseException: malformed}

    def total(ba, expected):
        return dec_ok(ba, [] if expected is None else expected)

    def value(ba, expected, result):
        return result == dec_from([], ba, [] if expected is None else expected)

    def frame(ba, ba__post):
        return ba__post == ba

    ensures = [total, value, frame]

    def remaining(ba, expected, result, tail):
        return dec_from(result, tail, [] if expected is None else expected) == dec_from([], ba, [] if expected is None else expected)

    def ok(ba, expected, tail):
        return dec_ok(tail, [] if expected is None else expected) == dec_ok(ba, [] if expected is None else expected)

    loops = {0: LoopInv([remaining, ok], vars={"result": DItems})}

    def corpus():
        from specs.tlv import enc

        streams = []
        for items in item_lists():
            streams.append(bytes(enc(items)))
        rnd = random.Random(16)
        for s_ in list(streams):
            if len(s_) > 2:
                streams.append(s_[: rnd.randint(1, len(s_) - 1)])
                streams.append(s_[:1])
                streams.append(s_[:2])
                streams.append(s_ + s_[:1])
        for n in range(0, 5):
            for bs in itertools.product([0, 1, 2, 255], repeat=n):
                streams.append(bytes(bs))
        for s_ in streams:
            yield {"ba": bytearray(s_), "expected": None}
            yield {"ba": bytearray(s_), "expected": [1, 2]}
            yield {"ba": bytearray(s_), "expected": []}


def _bs(it):
    """bytes or bytearray argument"""
    return it.fresh(Bytes if it.ctx.choose(["bytes", "bytearray"]) == "bytes" else ByteArray, "arg_bs")


@contract("aiohomekit.protocol.tlv:TLV.decode_bytes", prop="C15", modular=True)
class DecodeBytes:
    """the bytes-or-bytearray front door; call sites in other functions under contract use this
    contract (not the body)"""

    params = {"bs": _bs, "expected": _expected}
    returns = DItems
    raises_exact = True

    def malformed(bs, expected):
        return not dec_ok(bytearray(bs), [] if expected is None else expected)

    raises = {TlvParseException: malformed}

    def total(bs, expected):
        return dec_ok(bytearray(bs), [] if expected is None else expected)

    def value(bs, expected, result):
        return result == dec_from([], bytearray(bs), [] if expected is None else expected)

    ensures = [total, value]

    def corpus():
        for a in DecodeBytearray.corpus():
            yield {"bs": bytes(a["ba"]), "expected": a["expected"]}


# ------------------------------------------------------------------------------------------------- debug rendering


def _ts_setup(it):
    kind = it.ctx.choose(["items-bytes", "items-bytearray"])
    from specs.tlv import DItems as _DI, Items as _I

    return {"d": it.fresh(_I if kind == "items-bytes" else _DI, "d")}


@contract("aiohomekit.protocol.tlv:TLV.to_string", prop="C15", modular=True)
class ToString:
    """TLV.to_string is evaluated on EVERY encode and decode (it is the argument of a debug log call): it must be total -
    for every item list, Error items with empty values included, it returns a string and raises nothing"""

    setup = _ts_setup
    returns = Str
    raises = {}

    def a_string(result):
        return isinstance(result, str)

    ensures = [a_string]
    loops = {1: LoopInv(lambda res: isinstance(res, str), vars={"res": Str})}
