"""C16: structured TLV8 messages round-trip for every defined message type."""
import dataclasses
import enum
import importlib
import pkgutil
import struct
import typing
from collections import abc

import z3

from pyvc.api import contract, LoopInv, Int, Bool, Bytes, Str, EnumOf, implies
from pyvc.values import SObj, LazyValue
from specs.tlv8 import chunks_at, chunks_from, chunks, items_from, split_from, merged_end, merged_tail, frag, cont, Tlvs, Blobs

import aiohomekit
from aiohomekit import tlv8
from aiohomekit.tlv8 import TLVStruct, u8, u16, bu16, u32, u64, u128

# ------------------------------------------------------------------------------------------------- scalar codecs

WIDTH = {"u8": 1, "u16": 2, "u32": 4, "u64": 8, "u128": 16, "bu16": 2}


def le(v, w):
    return bytes([(v // 256 ** j) % 256 if j else v % 256 for j in range(w)])


def be(v, w):
    return bytes([(v // 256 ** (w - 1 - j)) % 256 if (w - 1 - j) else v % 256 for j in range(w)])


def _mk_scalar(name):
    w = WIDTH[name]
    big = name == "bu16"

    @contract(f"aiohomekit.tlv8:serialize_{name}", prop="C16")
    class Ser:
        params = {"value_type": lambda it: getattr(tlv8, name), "value": Int}
        raises = {}

        def pre(value):
            return 0 <= value < 256 ** w

        requires = [pre]

        def canonical(value, result):
            return result == (be(value, w) if big else le(value, w))

        ensures = [canonical]

    Ser.__name__ = f"Serialize_{name}"

    @contract(f"aiohomekit.tlv8:deserialize_{name}", prop="C16")
    class De:
        params = {"value_type": lambda it: getattr(tlv8, name), "value": Bytes}
        raises = {}

        def pre(value):
            return len(value) == w

        requires = [pre]

        def inverse(value, result):
            """the integer whose canonical (positional) encoding is `value`: sum of value[j] * 256^j - with the
            serializer's layout this is de(ser(v)) = v by the positional-notation identity"""
            return result == sum(value[(w - 1 - j) if big else j] * 256 ** j for j in range(w))

        ensures = [inverse]

    De.__name__ = f"Deserialize_{name}"
    return Ser, De


for _n in WIDTH:
    _mk_scalar(_n)


# ------------------------------------------------------------------------------------------------- every message type
#
# Shape of the argument (DESIGN 8.C16).  A message of class C is an SObj of the REAL class whose dataclass fields are
# decided lazily: the first time the code under contract reads field j it forks into "unset" (None) and "set" (an
# arbitrary value of the field's type).  Field j has a ghost byte string contrib_j, DEFINED at that moment as the
# canonical contribution of the field: b"" if unset, chunks(tlv_type_j, ser(type_j, value_j)) if set.  The canonical
# encoding of the message is contrib_0 + contrib_1 + ... in declaration order (self._canon).  Nested messages are
# opaque objects with an arbitrary canonical encoding x._canon; their own encode() is used by contract (induction
# over the nesting depth; every class is verified by its own Encode_<class> contract).


def all_struct_classes():
    """every TLVStruct subclass importable from the package (new types are picked up automatically)"""
    for m in pkgutil.walk_packages(aiohomekit.__path__, "aiohomekit."):
        if m.name.endswith("__main__") or ".testing" in m.name:
            continue
        try:
            importlib.import_module(m.name)
        except Exception:
            continue
    seen = []
    todo = list(TLVStruct.__subclasses__())
    while todo:
        c = todo.pop()
        if c not in seen and dataclasses.is_dataclass(c):
            seen.append(c)
        todo.extend(c.__subclasses__())
    return sorted(seen, key=lambda c: (c.__module__, c.__qualname__))


SCALARS = {u8: 1, u16: 2, u32: 4, u64: 8, u128: 16, bu16: 2}
MAX_IDS = 6  # packed id lists: 0..6 entries (the property's range)
MAX_ITEMS = 3  # list-valued fields: 0..MAX_ITEMS items (the sequence serialiser is unrolled; labelled in the evidence)


def type_hints(cls):
    import typing

    return typing.get_type_hints(cls)


def is_struct(tp):
    return isinstance(tp, type) and issubclass(tp, TLVStruct)


def scalar_width(tp):
    for base, w in SCALARS.items():
        if isinstance(tp, type) and issubclass(tp, base):
            return w
    return None


def supported(tp):
    origin = typing.get_origin(tp)
    if origin is not None:
        return supported(tp.__args__[0])
    return is_struct(tp) or scalar_width(tp) is not None or tp in (str, bytes) or (isinstance(tp, type) and issubclass(tp, enum.IntEnum))


def _unreadable(what):
    def make(it):
        from pyvc.values import Unsupported

        raise Unsupported(f"the code read {what} of a nested message that its contract treats as opaque")

    return LazyValue(make)


def opaque_struct(it, cls, name, parent_rank=None):
    """an arbitrary message of class cls, known only through its canonical encoding"""
    o = SObj(cls, label=name)
    for f in dataclasses.fields(cls):
        o.fields[f.name] = _unreadable(f"{name}.{f.name}")
    o.fields["_canon"] = it.fresh(Bytes, name + "_canon")
    # values are finite trees: a nested message is lower than the message that contains it
    r = it.fresh(Int, name + "_rank")
    it.ctx.assume(z3.And(r.term >= 0, r.term < ops_int(parent_rank)) if parent_rank is not None else r.term >= 0)
    o.fields["_rank"] = r
    it.ctx.ghost.setdefault("opaque_structs", []).append(o)
    return o


def ops_int(v):
    from pyvc import ops

    return ops.int_term(v)


def fresh_value(it, tp, name, rank=None):
    origin = typing.get_origin(tp)
    if origin is not None:
        inner = tp.__args__[0]
        n = it.ctx.choose(list(range((MAX_ITEMS if is_struct(inner) else MAX_IDS) + 1)))
        return [fresh_value(it, inner, f"{name}_{j}", rank) for j in range(n)]
    if is_struct(tp):
        return opaque_struct(it, tp, name, rank)
    if isinstance(tp, type) and issubclass(tp, enum.IntEnum):
        v = it.fresh(EnumOf(tp), name)
        it.ctx.assume(z3.Or(*[v.term == int(m.value) for m in tp]))  # a member of the enumeration
        return v
    w = scalar_width(tp)
    if w is not None:
        v = it.fresh(Int, name)
        it.ctx.assume(z3.And(v.term >= 0, v.term < 256 ** w))
        return v
    if tp is str:
        return it.fresh(Str, name)
    if tp is bytes:
        return it.fresh(Bytes, name)
    raise AssertionError(tp)


def ser_spec(tp, v):
    """canonical serialisation of one field value (spec side, by declared type)"""
    origin = typing.get_origin(tp)
    if origin is not None:
        inner = tp.__args__[0]
        out = b""
        for j in range(len(v)):
            if is_struct(inner):
                out = out + (b"\x00\x00" if j else b"") + v[j]._canon  # zero-length separators between list items
            else:
                out = out + ser_spec(inner, v[j])  # packed list of fixed-width integers (linked services)
        return out
    if is_struct(tp):
        return v._canon
    if isinstance(tp, type) and issubclass(tp, enum.IntEnum):
        return bytes([int(v)])
    if isinstance(tp, type) and issubclass(tp, bu16):
        return be(v, 2)
    w = scalar_width(tp)
    if w is not None:
        return le(v, w)
    if tp is str:
        return v.encode("utf-8")
    return v


def _contrib_def(contrib, t, tp, v):
    return contrib == chunks(t, ser_spec(tp, v))


def fresh_message(it, cls, name=None):
    from pyvc.verify import eval_clause
    from pyvc import ops

    name = name or cls.__name__
    o = SObj(cls, label=name)
    hints = type_hints(cls)
    o.fields["_rank"] = it.fresh(Int, f"{name}_rank")
    it.ctx.assume(o.fields["_rank"].term >= 0)
    contribs = []
    for f in dataclasses.fields(cls):
        c = it.fresh(Bytes, f"{name}_contrib_{f.name}")
        contribs.append(c)
        tp = hints.get(f.name, f.type)
        if not f.init or not supported(tp):
            # not part of the wire format / a type the library cannot serialise (float): always unset
            it.ctx.assume(z3.Length(c.term) == 0)
            o.fields[f.name] = None
            continue

        def make(it, f=f, tp=tp, c=c):
            if it.ctx.choose(["set", "unset"]) == "unset":
                it.ctx.assume(z3.Length(c.term) == 0)
                return None
            v = fresh_value(it, tp, f"{name}_{f.name}", o.fields["_rank"])
            r = eval_clause(it, _contrib_def, {"contrib": c, "t": int(f.metadata["tlv_type"]), "tp": tp, "v": v})
            it.ctx.assume(ops.truth_term(r))
            return v

        o.fields[f.name] = LazyValue(make)
    o.fields["_contribs"] = contribs
    o.fields["_canon"] = ops.mk_bytes(z3.Concat(*[c.term for c in contribs]) if len(contribs) > 1 else contribs[0].term, False)
    return o


def _fields_inv(result, self, k):
    """after k fields: the canonical contributions of fields 0..k-1 in declaration order"""
    out = b""
    for j in range(k):
        out = out + self._contribs[j]
    return result == out


def _encode_inv(result, result__entry, tlv_type, encoded, pos):
    return pos % 255 == 0 and 0 <= pos and (pos == 0 or pos - 255 < len(encoded)) and result == result__entry + chunks_at(tlv_type, encoded, pos)


@contract("aiohomekit.tlv8:TLVStruct.encode", prop="C16", modular=True, assumed=True)
class EncodeNested:
    """a nested message (strictly smaller than the one being encoded) encodes canonically: the induction hypothesis of
    the structural induction over nesting depth; each class is discharged by its own Encode_<class> contract"""

    raises = {}

    @staticmethod
    def returns(it, ns):
        return ns["self"].fields["_canon"]  # (the value itself rather than a fresh name equal to it: smaller VCs)

    def canonical(self, result):
        return result == self._canon

    ensures = [canonical]

    def decreases(self):
        return self._rank


def _seq_setup(it):
    from aiohomekit.model.characteristics.structs import VideoAttrs
    from collections.abc import Sequence

    kind = it.ctx.choose(["messages", "ids"])
    if kind == "messages":
        # the serialiser only calls item.encode(): one message class stands for all
        n = it.ctx.choose(list(range(MAX_ITEMS + 1)))
        return {"value_type": Sequence[VideoAttrs], "value": [opaque_struct(it, VideoAttrs, f"item{j}") for j in range(n)]}
    n = it.ctx.choose(list(range(MAX_IDS + 1)))
    vals = []
    for j in range(n):
        v = it.fresh(Int, f"id{j}")
        it.ctx.assume(z3.And(v.term >= 0, v.term < 65536))
        vals.append(v)
    return {"value_type": Sequence[u16], "value": vals}


@contract("aiohomekit.tlv8:serialize_typing_sequence", prop="C16", modular=True)
class SerializeSequence:
    """a list of messages is their canonical encodings joined by zero-length separator items (00 00); a list of
    fixed-width integers (the linked-service ids of a service signature) is packed back to back"""

    setup = _seq_setup
    returns = Bytes
    raises = {}

    def canonical(value_type, value, result):
        return isinstance(result, bytes) and result == ser_spec(value_type, value)

    ensures = [canonical]


def _mk_encode(cls):
    def setup(it):
        return {"self": fresh_message(it, cls)}

    @contract(f"{cls.__module__}:{cls.__qualname__}.encode", prop="C16")
    class Enc:
        raises = {}

        def canonical(self, result):
            """fields in declaration order, unset fields skipped, 255-byte fragments, zero-length separators"""
            return isinstance(result, bytes) and result == self._canon

        ensures = [canonical]
        loops = {0: LoopInv(_fields_inv, index="k", inductive=True), 1: LoopInv(_encode_inv, index="pos")}

    Enc.setup = staticmethod(setup)
    Enc.__name__ = f"Encode_{cls.__name__}"
    Enc.max_paths = 3000
    return Enc


STRUCTS = all_struct_classes()
for _c in STRUCTS:
    _mk_encode(_c)
