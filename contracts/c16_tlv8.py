"""C16: structured TLV8 messages round-trip for every defined message type."""
import dataclasses
import enum
import importlib
import pkgutil
import struct
import typing
from collections import abc

import z3

from pyvc.api import contract, LoopInv, Int, Bool, Bytes, Str, EnumOf, implies, sub
from pyvc.values import SObj, LazyValue
from specs.tlv8 import chunks_at, chunks_from, chunks, chain_ok, headers_ok, items_from, split_from, merged_end, merged_tail, frag, cont, Tlvs, Blobs

import aiohomekit
from aiohomekit import tlv8
from aiohomekit.tlv8 import TLVStruct, u8, u16, bu16, u32, u64, u128

# ------------------------------------------------------------------------------------------------- scalar codecs

WIDTH = {"u8": 1, "u16": 2, "u32": 4, "u64": 8, "u128": 16, "bu16": 2}


def le(v, w):
    return bytes([(v // 256 ** j) % 256 if j else v % 256 for j in range(w)])


def be(v, w):
    return bytes([(v // 256 ** (w - 1 - j)) % 256 if (w - 1 - j) else v % 256 for j in range(w)])


def _mk_scalar(name):
    w = WIDTH[name]
    big = name == "bu16"

    @contract(f"aiohomekit.tlv8:serialize_{name}", prop="C16")
    class Ser:
        params = {"value_type": lambda it: getattr(tlv8, name), "value": Int}
        raises = {}

        def pre(value):
            return 0 <= value < 256 ** w

        requires = [pre]

        def canonical(value, result):
            return result == (be(value, w) if big else le(value, w))

        ensures = [canonical]

    Ser.__name__ = f"Serialize_{name}"

    @contract(f"aiohomekit.tlv8:deserialize_{name}", prop="C16")
    class De:
        params = {"value_type": lambda it: getattr(tlv8, name), "value": Bytes}
        raises = {}

        def pre(value):
            return len(value) == w

        requires = [pre]

        def inverse(value, result):
            """the integer whose canonical (positional) encoding is `value`: sum of value[j] * 256^j - with the
            serializer's layout this is de(ser(v)) = v by the positional-notation identity"""
            return result == sum(value[(w - 1 - j) if big else j] * 256 ** j for j in range(w))

        ensures = [inverse]

    De.__name__ = f"Deserialize_{name}"
    return Ser, De


for _n in WIDTH:
    _mk_scalar(_n)


# ------------------------------------------------------------------------------------------------- every message type
#
# Shape of the argument (DESIGN 8.C16).  A message of class C is an SObj of the REAL class whose dataclass fields are
# decided lazily: the first time the code under contract reads field j it forks into "unset" (None) and "set" (an
# arbitrary value of the field's type).  Field j has a ghost byte string contrib_j, DEFINED at that moment as the
# canonical contribution of the field: b"" if unset, chunks(tlv_type_j, ser(type_j, value_j)) if set.  The canonical
# encoding of the message is contrib_0 + contrib_1 + ... in declaration order (self._canon).  Nested messages are
# opaque objects with an arbitrary canonical encoding x._canon; their own encode() is used by contract (induction
# over the nesting depth; every class is verified by its own Encode_<class> contract).


def all_struct_classes():
    """every TLVStruct subclass importable from the package (new types are picked up automatically)"""
    for m in pkgutil.walk_packages(aiohomekit.__path__, "aiohomekit."):
        if m.name.endswith("__main__") or ".testing" in m.name:
            continue
        try:
            importlib.import_module(m.name)
        except Exception:
            continue
    seen = []
    todo = list(TLVStruct.__subclasses__())
    while todo:
        c = todo.pop()
        if c not in seen and dataclasses.is_dataclass(c):
            seen.append(c)
        todo.extend(c.__subclasses__())
    return sorted(seen, key=lambda c: (c.__module__, c.__qualname__))


SCALARS = {u8: 1, u16: 2, u32: 4, u64: 8, u128: 16, bu16: 2}
MAX_IDS = 6  # packed id lists: 0..6 entries (the property's range)
MAX_ITEMS = 3  # list-valued fields: 0..MAX_ITEMS items (the sequence serialiser is unrolled; labelled in the evidence)


def type_hints(cls):
    import typing

    return typing.get_type_hints(cls)


def is_struct(tp):
    return isinstance(tp, type) and issubclass(tp, TLVStruct)


def scalar_width(tp):
    for base, w in SCALARS.items():
        if isinstance(tp, type) and issubclass(tp, base):
            return w
    return None


def supported(tp):
    origin = typing.get_origin(tp)
    if origin is not None:
        return supported(tp.__args__[0])
    return is_struct(tp) or scalar_width(tp) is not None or tp in (str, bytes) or (isinstance(tp, type) and issubclass(tp, enum.IntEnum))


def _unreadable(what):
    def make(it):
        from pyvc.values import Unsupported

        raise Unsupported(f"the code read {what} of a nested message that its contract treats as opaque")

    return LazyValue(make)


def opaque_struct(it, cls, name, parent_rank=None):
    """an arbitrary message of class cls, known only through its canonical encoding"""
    o = SObj(cls, label=name)
    for f in dataclasses.fields(cls):
        o.fields[f.name] = _unreadable(f"{name}.{f.name}")
    o.fields["_canon"] = it.fresh(Bytes, name + "_canon")
    # values are finite trees: a nested message is lower than the message that contains it
    r = it.fresh(Int, name + "_rank")
    it.ctx.assume(z3.And(r.term >= 0, r.term < ops_int(parent_rank)) if parent_rank is not None else r.term >= 0)
    o.fields["_rank"] = r
    it.ctx.ghost.setdefault("opaque_structs", []).append(o)
    return o


def ops_int(v):
    from pyvc import ops

    return ops.int_term(v)


def fresh_value(it, tp, name, rank=None):
    origin = typing.get_origin(tp)
    if origin is not None:
        inner = tp.__args__[0]
        n = it.ctx.choose(list(range((MAX_ITEMS if is_struct(inner) else MAX_IDS) + 1)))
        return [fresh_value(it, inner, f"{name}_{j}", rank) for j in range(n)]
    if is_struct(tp):
        return opaque_struct(it, tp, name, rank)
    if isinstance(tp, type) and issubclass(tp, enum.IntEnum):
        v = it.fresh(EnumOf(tp), name)
        it.ctx.assume(z3.Or(*[v.term == int(m.value) for m in tp]))  # a member of the enumeration
        return v
    w = scalar_width(tp)
    if w is not None:
        v = it.fresh(Int, name)
        it.ctx.assume(z3.And(v.term >= 0, v.term < 256 ** w))
        return v
    if tp is str:
        return it.fresh(Str, name)
    if tp is bytes:
        return it.fresh(Bytes, name)
    raise AssertionError(tp)


def ser_spec(tp, v):
    """canonical serialisation of one field value (spec side, by declared type)"""
    origin = typing.get_origin(tp)
    if origin is not None:
        inner = tp.__args__[0]
        out = b""
        for j in range(len(v)):
            if is_struct(inner):
                out = out + (b"\x00\x00" if j else b"") + v[j]._canon  # zero-length separators between list items
            else:
                out = out + ser_spec(inner, v[j])  # packed list of fixed-width integers (linked services)
        return out
    if is_struct(tp):
        return v._canon
    if isinstance(tp, type) and issubclass(tp, enum.IntEnum):
        return bytes([int(v)])
    if isinstance(tp, type) and issubclass(tp, bu16):
        return be(v, 2)
    w = scalar_width(tp)
    if w is not None:
        return le(v, w)
    if tp is str:
        return v.encode("utf-8")
    return v


def _contrib_def(contrib, t, tp, v):
    return contrib == chunks(t, ser_spec(tp, v))


def fresh_message(it, cls, name=None):
    from pyvc.verify import eval_clause
    from pyvc import ops

    name = name or cls.__name__
    o = SObj(cls, label=name)
    hints = type_hints(cls)
    o.fields["_rank"] = it.fresh(Int, f"{name}_rank")
    it.ctx.assume(o.fields["_rank"].term >= 0)
    contribs = []
    for f in dataclasses.fields(cls):
        c = it.fresh(Bytes, f"{name}_contrib_{f.name}")
        contribs.append(c)
        tp = hints.get(f.name, f.type)
        if not f.init or not supported(tp):
            # not part of the wire format / a type the library cannot serialise (float): always unset
            it.ctx.assume(z3.Length(c.term) == 0)
            o.fields[f.name] = None
            continue

        def make(it, f=f, tp=tp, c=c):
            if it.ctx.choose(["set", "unset"]) == "unset":
                it.ctx.assume(z3.Length(c.term) == 0)
                return None
            v = fresh_value(it, tp, f"{name}_{f.name}", o.fields["_rank"])
            r = eval_clause(it, _contrib_def, {"contrib": c, "t": int(f.metadata["tlv_type"]), "tp": tp, "v": v})
            it.ctx.assume(ops.truth_term(r))
            return v

        o.fields[f.name] = LazyValue(make)
    o.fields["_contribs"] = contribs
    o.fields["_canon"] = ops.mk_bytes(z3.Concat(*[c.term for c in contribs]) if len(contribs) > 1 else contribs[0].term, False)
    return o


def _fields_inv(result, self, k):
    """after k fields: the canonical contributions of fields 0..k-1 in declaration order"""
    out = b""
    for j in range(k):
        out = out + self._contribs[j]
    return result == out


def _encode_inv(result, result__entry, tlv_type, encoded, pos):
    return pos % 255 == 0 and 0 <= pos and (pos == 0 or pos - 255 < len(encoded)) and result == result__entry + chunks_at(tlv_type, encoded, pos)


@contract("aiohomekit.tlv8:TLVStruct.encode", prop="C16", modular=True, assumed=True)
class EncodeNested:
    """a nested message (strictly smaller than the one being encoded) encodes canonically: the induction hypothesis of
    the structural induction over nesting depth; each class is discharged by its own Encode_<class> contract"""

    raises = {}

    @staticmethod
    def returns(it, ns):
        return ns["self"].fields["_canon"]  # (the value itself rather than a fresh name equal to it: smaller VCs)

    def canonical(self, result):
        return result == self._canon

    ensures = [canonical]

    def decreases(self):
        return self._rank


def _seq_setup(it):
    from aiohomekit.model.characteristics.structs import VideoAttrs
    from collections.abc import Sequence

    kind = it.ctx.choose(["messages", "ids"])
    if kind == "messages":
        # the serialiser only calls item.encode(): one message class stands for all
        n = it.ctx.choose(list(range(MAX_ITEMS + 1)))
        return {"value_type": Sequence[VideoAttrs], "value": [opaque_struct(it, VideoAttrs, f"item{j}") for j in range(n)]}
    n = it.ctx.choose(list(range(MAX_IDS + 1)))
    vals = []
    for j in range(n):
        v = it.fresh(Int, f"id{j}")
        it.ctx.assume(z3.And(v.term >= 0, v.term < 65536))
        vals.append(v)
    return {"value_type": Sequence[u16], "value": vals}


@contract("aiohomekit.tlv8:serialize_typing_sequence", prop="C16", modular=True)
class SerializeSequence:
    """a list of messages is their canonical encodings joined by zero-length separator items (00 00); a list of
    fixed-width integers (the linked-service ids of a service signature) is packed back to back"""

    setup = _seq_setup
    returns = Bytes
    raises = {}

    def canonical(value_type, value, result):
        return isinstance(result, bytes) and result == ser_spec(value_type, value)

    ensures = [canonical]


def _mk_encode(cls):
    def setup(it):
        return {"self": fresh_message(it, cls)}

    @contract(f"{cls.__module__}:{cls.__qualname__}.encode", prop="C16")
    class Enc:
        raises = {}

        def canonical(self, result):
            """fields in declaration order, unset fields skipped, 255-byte fragments, zero-length separators"""
            return isinstance(result, bytes) and result == self._canon

        ensures = [canonical]
        loops = {0: LoopInv(_fields_inv, index="k", inductive=True), 1: LoopInv(_encode_inv, index="pos")}

    Enc.setup = staticmethod(setup)
    Enc.__name__ = f"Encode_{cls.__name__}"
    Enc.max_paths = 3000
    return Enc


STRUCTS = all_struct_classes()
for _c in STRUCTS:
    _mk_encode(_c)


# ------------------------------------------------------------------------------------------------- reading


def _iter_outer(encoded_struct, offset, yielded):
    """what was yielded so far, followed by what the specification reads from `offset` on, is what it reads from 0"""
    return 0 <= offset and headers_ok(encoded_struct, offset) and yielded + items_from(encoded_struct, offset) == items_from(encoded_struct, 0)


def _iter_inner(encoded_struct, offset, offset__entry, type, length, value):
    b = encoded_struct
    return (
        0 <= offset__entry <= offset
        and offset + 1 < len(b)
        and type == b[offset__entry]
        and b[offset] == type
        and length == b[offset + 1]
        and merged_end(b, offset) == merged_end(b, offset__entry)
        and chain_ok(b, offset)
        and value + merged_tail(b, offset) == frag(b, offset__entry) + merged_tail(b, offset__entry)
    )


def _iter_h1(encoded_struct, offset__head, offset, length):
    """the item that was just yielded ends where the specification says"""
    return merged_end(encoded_struct, offset__head) == offset - 2 - length


def _iter_h2(encoded_struct, offset__head, value):
    return value == frag(encoded_struct, offset__head) + merged_tail(encoded_struct, offset__head)


def _iter_h3(encoded_struct, offset__head, offset, type, length):
    return type == encoded_struct[offset__head] and length == encoded_struct[offset - 2 - length + 1] and 0 <= offset__head


def _iter_h4(encoded_struct, offset__head, offset, type, length, value):
    return items_from(encoded_struct, offset__head) == [(offset - 2 - length, type, length, value)] + items_from(encoded_struct, offset)


@contract("aiohomekit.tlv8:tlv_iterator", prop="C16", modular=True)
class TlvIterator:
    """for EVERY byte string: the items read are those of the reading specification (fragments of exactly 255 bytes
    are joined with a following fragment of the same type; the look-ahead stops at the end of the input) and nothing
    is raised, provided every item header is complete (headers_ok: what a conformant sender produces)"""

    params = {"encoded_struct": Bytes}
    yielded_sort = Tlvs
    returns = Tlvs
    raises = {}

    def complete_headers(encoded_struct):
        return headers_ok(encoded_struct, 0)

    requires = [complete_headers]

    def reads_the_specified_items(encoded_struct, yielded):
        return yielded == items_from(encoded_struct, 0)

    ensures = [reads_the_specified_items]
    loops = {0: LoopInv(_iter_outer, hints=[_iter_h1, _iter_h2, _iter_h3, _iter_h4]), 1: LoopInv(_iter_inner)}


def _array_inv(encoded_array, separator, seq, i, start, yielded):
    """the list items cut so far, followed by what the specification cuts from item i on (with the current start),
    are what it cuts from the beginning"""
    return yielded + split_from(encoded_array, seq, i, start, separator) == split_from(encoded_array, seq, 0, 0, separator)


def _array_h1(encoded_array, separator, seq, i, start, start__head):
    return split_from(encoded_array, seq, i - 1, start__head, separator) == (
        [encoded_array[start__head:seq[i - 1][0]]] + split_from(encoded_array, seq, i, start, separator)
        if seq[i - 1][1] == separator
        else split_from(encoded_array, seq, i, start, separator)
    )


@contract("aiohomekit.tlv8:tlv_array", prop="C16", modular=True)
class TlvArray:
    """for EVERY byte string: the list is cut at every top-level item of the separator type; a non-empty remainder is
    the last list item"""

    params = {"encoded_array": Bytes, "separator": Int}
    yielded_sort = Blobs
    returns = Blobs
    raises = {}

    def pre(encoded_array, separator):
        return 0 <= separator <= 255 and headers_ok(encoded_array, 0)

    requires = [pre]

    def cut_at_separators(encoded_array, separator, yielded):
        return yielded == split_from(encoded_array, items_from(encoded_array, 0), 0, 0, separator)

    ensures = [cut_at_separators]
    loops = {0: LoopInv(_array_inv, index="i")}


# ------------------------------------------------------------------------------------------------- lemmas (specification level)


@contract("lemmas.tlv8:lemma_chunks_eq", prop="C16", modular=True)
class LemmaChunksEq:
    params = {"t": Int, "e": Bytes, "p": Int}
    raises = {}

    def pre(t, e, p):
        return 0 <= t <= 255 and p % 255 == 0 and 0 <= p and (p == 0 or p - 255 < len(e))

    requires = [pre]

    def same_fragments(t, e, p):
        return chunks_at(t, e, p) + chunks_from(t, e, p) == chunks_from(t, e, 0)

    ensures = [same_fragments]

    def decreases(p):
        return p


def last_len(e):
    """length of the last fragment of a non-empty value"""
    return len(e) - 255 * ((len(e) - 1) // 255)


@contract("lemmas.tlv8:lemma_read_chunks", prop="C16", modular=True)
class LemmaReadChunks:
    params = {"b": Bytes, "pre": Bytes, "t": Int, "e": Bytes, "pos": Int, "rest": Bytes}
    raises = {}

    def pre_(b, pre, t, e, pos, rest):
        return (
            0 <= t <= 255
            and pos % 255 == 0
            and 0 <= pos < len(e)
            and (len(rest) == 0 or rest[0] != t or len(e) % 255 != 0)
            and b == pre + chunks_from(t, e, pos) + rest
        )

    requires = [pre_]

    def one_item(b, pre, t, e, pos, rest):
        off = len(pre)
        end = merged_end(b, off)
        return (
            b[off] == t
            and end == len(b) - len(rest) - 2 - last_len(e)
            and b[end + 1] == last_len(e)
            and frag(b, off) + merged_tail(b, off) == sub(e, pos, len(e) - pos)
            and chain_ok(b, off)
            and off + 1 < len(b)
        )

    ensures = [one_item]

    def decreases(e, pos):
        return len(e) - pos


@contract("lemmas.tlv8:lemma_read_item", prop="C16", modular=True)
class LemmaReadItem:
    params = {"b": Bytes, "pre": Bytes, "t": Int, "e": Bytes, "rest": Bytes}
    raises = {}

    def pre_(b, pre, t, e, rest):
        return (
            0 <= t <= 255
            and len(e) >= 1
            and (len(rest) == 0 or rest[0] != t or len(e) % 255 != 0)
            and b == pre + chunks_from(t, e, 0) + rest
        )

    requires = [pre_]

    def the_item(b, pre, t, e, rest):
        off = len(pre)
        nxt = len(b) - len(rest)
        return (
            items_from(b, off) == [(nxt - 2 - last_len(e), t, last_len(e), e)] + items_from(b, nxt)
            and headers_ok(b, off) == headers_ok(b, nxt)
        )

    ensures = [the_item]


@contract("lemmas.tlv8:lemma_chunks_canon", prop="C16", modular=True)
class LemmaChunksCanon:
    params = {"t": Int, "e": Bytes}
    raises = {}

    def pre(t):
        return 0 <= t <= 255

    requires = [pre]

    def same(t, e):
        return chunks(t, e) == chunks_from(t, e, 0)

    ensures = [same]


def _digits_setup(it):
    w = [1, 2, 4, 8, 16][it.ctx.choose(list(range(5)))]
    return {"v": it.fresh(Int, "v"), "w": w}


@contract("lemmas.tlv8:lemma_le_digits", prop="C16", modular=True)
class LemmaLeDigits:
    setup = _digits_setup
    raises = {}

    def pre(v, w):
        return 0 <= v < 256 ** w

    requires = [pre]

    def digits_add_up(v, w):
        return sum(((v // 256 ** j) % 256) * 256 ** j for j in range(w)) == v

    ensures = [digits_add_up]


@contract("lemmas.tlv8:lemma_chunks_len", prop="C16", modular=True)
class LemmaChunksLen:
    params = {"t": Int, "e": Bytes, "pos": Int}
    raises = {}

    def pre(t, e, pos):
        return 0 <= t <= 255 and pos % 255 == 0 and 0 <= pos <= len(e)

    requires = [pre]

    def length(t, e, pos):
        return len(chunks_from(t, e, pos)) == (len(e) - pos) + 2 * ((len(e) - pos + 254) // 255)

    ensures = [length]

    def decreases(e, pos):
        return len(e) - pos


# ------------------------------------------------------------------------------------------------- decode, per class
#
# The argument is the canonical encoding of a message of the class with a chosen set of fields set (shapes: all, none,
# every second one, each field alone): b = chunks(t1, ser(v1)) + chunks(t2, ser(v2)) + ...   Reading it goes through
# tlv_iterator BY CONTRACT (items_from(b, 0)); the lemmas turn that into the list of the fields that were written
# (obligations `read.*` of the class's contract), and the real decode body is then executed on that list.


def decodable(tp):
    return supported(tp) and typing.get_origin(tp) is None


MAX_SHAPE = 5  # classes with more fields: every window of three consecutive fields instead of "all set"


def decode_shapes(cls):
    """which fields are set in the message whose canonical encoding is decoded.  Reading a field depends only on the
    field itself and on the first byte of what follows it, and the body of decode treats every item independently, so:
    none, each field alone, every second field, and all fields (classes of up to MAX_SHAPE fields) or every window of
    three consecutive fields (larger classes; the proof per shape is complete, the list of shapes is a stated limit)"""
    hints = type_hints(cls)
    names = [f.name for f in dataclasses.fields(cls) if f.init and decodable(hints.get(f.name, f.type))]
    import os

    thorough = os.environ.get("PYVC_TIER") == "thorough"
    shapes = [()]
    if len(names) <= MAX_SHAPE:
        shapes += [(n,) for n in names] + [tuple(names), tuple(names[0::2]), tuple(names[1::2])]
    elif thorough or len(names) <= 12:
        shapes += [(n,) for n in names] + [tuple(names[i:i + 3]) for i in range(len(names) - 2)]
    else:
        # quick tier, very large classes (the Thread dataset, 40 fields): windows that together cover every field and
        # every neighbourhood once (stride 2), fields with a duplicated type alone as well
        types = [int(f.metadata["tlv_type"]) for f in dataclasses.fields(cls) if f.name in names]
        shapes += [(n,) for n, t in zip(names, types) if types.count(t) > 1]
        shapes += [tuple(names[i:i + 3]) for i in range(0, len(names) - 2, 2)]
        if len(names) % 2 == 0:
            shapes.append(tuple(names[-3:]))
    out = []
    for s in shapes:
        if s not in out:
            out.append(s)
    return out


def cat(parts):
    out = b""
    for p in parts:
        out = out + p
    return out


def _chunk_def(c, t, e):
    return c == chunks_from(t, e, 0)


def _chunk_canon(c, t, e):
    return c == chunks(t, e)


def _item_fact(b, pre, c, t, e):
    off = len(pre)
    nxt = off + len(c)
    return items_from(b, off) == [(nxt - 2 - last_len(e), t, last_len(e), e)] + items_from(b, nxt)


def _item_tuple(pre, c, t, e):
    return (len(pre) + len(c) - 2 - last_len(e), t, last_len(e), e)


def _end_fact(b):
    return items_from(b, len(b)) == []


def _all_items(result, literal):
    return result == literal


def _hdr_fact(b, pre, c):
    off = len(pre)
    return headers_ok(b, off) == headers_ok(b, off + len(c))


def _hdr_end(b):
    return headers_ok(b, len(b))


def _before_iter(it, ns):
    """b is the concatenation of the fragment strings c_j = chunks_from(t_j, e_j, 0) of the fields in ghost `wire` (equal
    to the canonical chunks(t_j, e_j) by lemma_chunks_canon, obligation read.canonical): apply the reading lemma field
    by field and state, as obligations of the contract under proof, what reading b yields"""
    from pyvc.verify import eval_clause, contract_tag
    from pyvc import ops
    from lemmas import tlv8 as L

    ctx = it.ctx
    wire = ctx.ghost["wire"]
    b = ns["encoded_struct"]
    tag = contract_tag(it.top_contract)
    literal = []
    prev_mark = getattr(ctx, "pc_mark", None)
    cs = [w[4] for w in wire]
    for j, (t, e, _, _, c) in enumerate(wire):
        # (the facts about field j follow from what is established in this segment alone: tried first)
        ctx.pc_mark = len(ctx.pc)
        ctx.assume(ops.truth_term(eval_clause(it, _chunk_def, {"c": c, "t": t, "e": e})))  # (setup's definition, repeated)
        it.call_function(L.lemma_chunks_canon, [t, e], {})
        ctx.oblige(f"{tag}/read.canonical", ops.truth_term(eval_clause(it, _chunk_canon, {"c": c, "t": t, "e": e})))
        ctx.pc_mark = len(ctx.pc)
        for t2, e2, _, _, c2 in wire[j:j + 2]:
            ctx.assume(ops.truth_term(eval_clause(it, _chunk_def, {"c": c2, "t": t2, "e": e2})))
            ctx.assume(z3.Length(ops.bytes_term(e2)) >= 1)
        it.call_function(L.lemma_chunks_len, [t, e, 0], {})
        pre = eval_clause(it, cat, {"parts": cs[:j]})
        rest = eval_clause(it, cat, {"parts": cs[j + 1:]})
        it.call_function(L.lemma_read_item, [b, pre, t, e, rest], {})
        ctx.oblige(f"{tag}/read.field", ops.truth_term(eval_clause(it, _item_fact, {"b": b, "pre": pre, "c": c, "t": t, "e": e})))
        ctx.oblige(f"{tag}/read.headers", ops.truth_term(eval_clause(it, _hdr_fact, {"b": b, "pre": pre, "c": c})))
        literal.append(eval_clause(it, _item_tuple, {"pre": pre, "c": c, "t": t, "e": e}))
    ctx.pc_mark = prev_mark
    ctx.oblige(f"{tag}/read.end", ops.truth_term(eval_clause(it, _end_fact, {"b": b})))
    ctx.oblige(f"{tag}/read.headers_end", ops.truth_term(eval_clause(it, _hdr_end, {"b": b})))
    ctx.ghost["wire_items"] = literal


def _after_iter(it, result, ns):
    from pyvc.verify import eval_clause, contract_tag
    from pyvc import ops

    literal = it.ctx.ghost["wire_items"]
    it.ctx.oblige(f"{contract_tag(it.top_contract)}/read.all", ops.truth_term(eval_clause(it, _all_items, {"result": result, "literal": literal})))
    return literal


def _is_msg(v):
    return isinstance(v, TLVStruct)


def _mk_decode(cls):
    shapes = decode_shapes(cls)
    hints = type_hints(cls)
    flds = {f.name: f for f in dataclasses.fields(cls)}
    all_names = [f.name for f in dataclasses.fields(cls) if f.init]

    def setup(it):
        from pyvc.verify import eval_clause
        from pyvc import ops

        shape = shapes[it.ctx.choose(list(range(len(shapes))))]
        rank = it.fresh(Int, "rank")
        it.ctx.assume(rank.term >= 0)
        wire = []
        for name in shape:
            tp = hints.get(name, flds[name].type)
            v = fresh_value(it, tp, f"{cls.__name__}_{name}", rank)
            e = eval_clause(it, ser_spec, {"tp": tp, "v": v})
            if scalar_width(tp) is not None and scalar_width(tp) > 2:
                from lemmas import tlv8 as L

                it.call_function(L.lemma_le_digits, [v, scalar_width(tp)], {})  # (positional notation, by lemma)
            t = int(flds[name].metadata["tlv_type"])
            it.ctx.assume(z3.Length(ops.bytes_term(e)) >= 1)  # (zero-length values are outside the property's range)
            c = it.fresh(Bytes, f"{cls.__name__}_{name}_wire")
            it.ctx.assume(ops.truth_term(eval_clause(it, _chunk_def, {"c": c, "t": t, "e": e})))
            wire.append((t, e, name, v, c))
        it.ctx.ghost["wire"] = wire
        it.ctx.ghost["unset_names"] = [n for n in all_names if n not in shape]
        b = eval_clause(it, cat, {"parts": [w[4] for w in wire]})
        return {"cls": cls, "encoded_struct": b}

    @contract(f"{cls.__module__}:{cls.__qualname__}.decode", prop="C16")
    class Dec:
        raises = {}

        def exact_fields(result, wire, unset_names):
            """decoding the canonical encoding returns exactly the field values that were encoded; the rest unset"""
            ok = True
            for t, e, name, v, c in wire:
                got = getattr(result, name)
                ok = ok and ((got is v) if _is_msg(v) else (got == v))
            for name in unset_names:
                ok = ok and getattr(result, name) is None
            return ok

        def right_class(cls, result):
            return isinstance(result, cls)

        ensures = [right_class, exact_fields]
        before_calls = {"aiohomekit.tlv8:tlv_iterator": _before_iter}
        after_calls = {"aiohomekit.tlv8:tlv_iterator": _after_iter}

    Dec.setup = staticmethod(setup)
    Dec.__name__ = f"Decode_{cls.__name__}"
    Dec.max_paths = 3000
    return Dec


@contract("aiohomekit.tlv8:TLVStruct.decode", prop="C16", modular=True, assumed=True)
class DecodeNested:
    """a nested message (strictly shorter input) decodes to the message it is the canonical encoding of: the induction
    hypothesis of the induction over input length; each class is discharged by its own Decode_<class> contract"""

    raises = {}

    @staticmethod
    def returns(it, ns):
        from pyvc import ops
        from pyvc.verify import contract_tag

        val = ns["encoded_struct"]
        cands = [o for o in it.ctx.ghost.get("opaque_structs", []) if o.cls is ns["cls"]]
        for o in cands:
            if ops.bytes_term(o.fields["_canon"]).eq(ops.bytes_term(val)):
                return o
        from pyvc.values import Unsupported

        raise Unsupported("decode of bytes that are not syntactically the canonical encoding of a known nested message")

    def decreases(encoded_struct):
        return len(encoded_struct)


for _c in STRUCTS:
    _mk_decode(_c)


# ------------------------------------------------------------------------------------------------- packed id lists


def _ids_setup(it):
    from collections.abc import Sequence

    n = it.ctx.choose([0, 1, 2, 3])
    ids = []
    for j in range(n):
        v = it.fresh(Int, f"id{j}")
        it.ctx.assume(z3.And(v.term >= 0, v.term < 65536))
        ids.append(v)
    from pyvc.verify import eval_clause

    it.ctx.ghost["ids"] = ids
    return {"value_type": Sequence[u16], "value": eval_clause(it, ser_spec, {"tp": Sequence[u16], "v": ids})}


@contract("aiohomekit.tlv8:deserialize_typing_sequence", prop="C16")
class DeserializeIdList:
    """the linked services of a service signature: 16-bit little-endian instance ids packed back to back.  Decoding
    returns exactly the ids that were encoded (0..3 ids here, the body of the real reader is executed, not its
    contract; the bounded native stand-in covers 0..6 ids)"""

    setup = _ids_setup
    raises = {}
    inline = ["aiohomekit.tlv8:tlv_array", "aiohomekit.tlv8:tlv_iterator"]

    def the_ids_that_were_encoded(result, ids):
        return len(result) == len(ids) and all(result[j] == ids[j] for j in range(len(ids)))

    ensures = [the_ids_that_were_encoded]


# ------------------------------------------------------------------------------------------------- bounded stand-in / replay


def _native(tier, seed):
    from harness import tlv8_structs

    return tlv8_structs.run(tier, seed, "C16/aiohomekit.tlv8:TLVStruct#native")


def _native_replay(env, con, obs):
    r = _native("quick", 0)
    want = {
        "DeserializeIdList": ".linked-ids",
        "SerializeSequence": ".linked-ids-encode",
    }.get(con.__name__)
    for f in r["failures"]:
        if want is None or f["clause"].endswith(want):
            f = dict(f)
            f.update({"confirmed": True, "source": "native-harness", "key": f["clause"]})
            return f
    return {"confirmed": False, "inputs_tried": r["cases"]}


TlvArray.bounded_run = staticmethod(_native)
TlvArray.bound_note = (
    "decoding LISTS of messages (split on separators, then per-item decode) and whole accessory databases is decided only "
    "by this bounded stand-in: every class by reflection against an independent reference codec, sizes 1..511, 1..3 items"
)
for _k in (DeserializeIdList, SerializeSequence):
    _k.replay = staticmethod(_native_replay)
