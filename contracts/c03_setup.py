"""C03: pair-setup returns pairing data only after a fully authenticated exchange."""
from pyvc.api import contract, Int, Bool, Bytes, ByteArray, Str, ListOf, TupleOf, implies
from pyvc.stubs_srp import F_srp_A, F_srp_M1, F_srp_K
from specs.crypto import hkdf, ed_pub, ed_sign, seal, hexstr, utf8, utf8dec

from aiohomekit.exceptions import (
    AuthenticationError, BackoffError, BusyError, InvalidError, MaxPeersError, MaxTriesError, UnavailableError,
    IllegalData, InvalidSignatureError,
)
from aiohomekit.protocol.tlv import TLV, TlvParseException
from contracts.c15_tlv import DecodeBytes, DecodeBytearray, EncodeList  # noqa: F401
from contracts.c04_errors import Reply

N0 = bytes(4)
PROTOCOL = [AuthenticationError, BackoffError, BusyError, InvalidError, MaxPeersError, MaxTriesError, UnavailableError]


@contract("aiohomekit.protocol:perform_pair_setup_part1", prop="C03")
class SetupPart1:
    params = {"with_auth": Bool}
    recv = Reply
    raises = dict.fromkeys(PROTOCOL, True)

    def m1(with_auth, yielded):
        return len(yielded) == 1 and yielded[0][0] == [(6, b"\x01"), (0, b"\x01" if with_auth else b"\x00")] and all(
            k in yielded[0][1] for k in (6, 7, 3, 2)
        )

    def returns_salt_and_key(received, result):
        """returns only when the reply carries both the salt and the public key, and returns exactly those"""
        r = dict(received[0])
        return 2 in r and 3 in r and result == (r[2], r[3])

    ensures = [m1, returns_salt_and_key]


@contract("aiohomekit.protocol:perform_pair_setup_part2", prop="C03")
class SetupPart2:
    params = {"pin": Str, "ios_pairing_id": Str, "salt": ByteArray, "server_public_key": ByteArray}
    recv = Reply
    raises = dict.fromkeys(
        PROTOCOL
        + [
            IllegalData, InvalidSignatureError,
            ValueError,  # salt longer than 16 bytes / wrong-length accessory key rejected by the crypto library
            UnicodeDecodeError,  # accessory identifier that is not UTF-8
            TlvParseException,  # authentic but malformed sub-TLV
        ],
        True,
    )
    trusted = [
        "symbolic crypto model (DESIGN 3.3)",
        "assumed contract of SrpClient (verified under C02): A, M1, K, and proof verification are the RFC 5054 values",
    ]

    def m3(pin, salt, server_public_key, yielded, ghost):
        """M3 carries the SRP public value and proof as bytes, unchanged"""
        a = ghost["srp"].a
        return yielded[0][0] == [
            (6, b"\x03"),
            (3, srpA(a)),
            (4, srpM1(a, pin, salt, server_public_key)),
        ] and all(k in yielded[0][1] for k in (6, 7, 4))

    def past_m4_only_with_valid_proof(received, trace):
        """the exchange continues past M4 only if the accessory's proof is present and verified"""
        vs = [e for e in trace if e[0] == "srp_verify"]
        return len(received) < 2 or (
            4 in dict(received[0]) and len(vs) == 1 and vs[0][1] == dict(received[0])[4] and vs[0][2]
        )

    def m5(pin, ios_pairing_id, salt, server_public_key, yielded, received, ghost):
        """M5 = seal(HKDF(K, Encrypt), PS-Msg05, tlv[(Identifier, iosID), (PublicKey, ltpk), (Signature,
        sign(ltsk, HKDF(K, Controller-Sign) | iosID | ltpk))]) with a fresh long-term key"""
        a = ghost["srp"].a
        K = srpK(a, pin, salt, server_public_key)
        ltsk = ghost["ed_sk"][0] if len(received) >= 2 else b""
        ltpk = ed_pub(ltsk)
        ios_id = utf8(ios_pairing_id)
        enc_key = hkdf(K, b"Pair-Setup-Encrypt-Salt", b"Pair-Setup-Encrypt-Info", 32)
        ios_x = hkdf(K, b"Pair-Setup-Controller-Sign-Salt", b"Pair-Setup-Controller-Sign-Info", 32)
        calls = [e for e in ghost["trace"] if e[0] == "call" and e[1].endswith("encode_list")]
        seals = [e for e in ghost["trace"] if e[0] == "seal"]
        return len(received) < 2 or (
            len(yielded) == 2
            and len(yielded[1][0]) == 2
            and yielded[1][0][0] == (6, b"\x05")
            and yielded[1][0][1][0] == 5
            and all(k in yielded[1][1] for k in (6, 7, 5))
            and len(calls) == 1
            and calls[0][2]["d"] == [(1, ios_id), (3, ltpk), (10, ed_sign(ltsk, ios_x + ios_id + ltpk))]
            and len(seals) == 1
            and seals[0][1] == enc_key
            and seals[0][2] == N0 + b"PS-Msg05"
            and seals[0][3] == b""
            and seals[0][4] == calls[0][3]
            and yielded[1][0][1][1] == seal(enc_key, N0 + b"PS-Msg05", b"", seals[0][4])
        )

    def m6_authenticated(pin, salt, server_public_key, received, trace, ghost):
        """returns only if M6's encrypted data opens under the exchange key with PS-Msg06, carries identifier,
        key and signature, and the signature verifies under the presented key over accX | id | key"""
        a = ghost["srp"].a
        K = srpK(a, pin, salt, server_public_key)
        enc_key = hkdf(K, b"Pair-Setup-Encrypt-Salt", b"Pair-Setup-Encrypt-Info", 32)
        acc_x = hkdf(K, b"Pair-Setup-Accessory-Sign-Salt", b"Pair-Setup-Accessory-Sign-Info", 32)
        m6 = dict(received[1])
        opens = [e for e in trace if e[0] == "open_ok"]
        decs = [e for e in trace if e[0] == "call" and e[1].endswith("decode_bytearray")]
        vers = [e for e in trace if e[0] == "ed_verify_ok"]
        pt = dict(decs[0][3])
        return (
            5 in m6
            and len(opens) == 1
            and len(decs) == 1
            and len(vers) == 1
            and opens[0][1] == enc_key
            and opens[0][2] == N0 + b"PS-Msg06"
            and opens[0][3] == b""
            and opens[0][4] == m6[5]
            and decs[0][2]["ba"] == opens[0][5]
            and 1 in pt
            and 3 in pt
            and 10 in pt
            and vers[0][1] == pt[3]
            and vers[0][2] == pt[10]
            and vers[0][3] == acc_x + pt[1] + pt[3]
        )

    def record(ios_pairing_id, trace, ghost, result):
        """the returned record is self-consistent and names exactly the authenticated accessory"""
        ltsk = ghost["ed_sk"][0]
        decs = [e for e in trace if e[0] == "call" and e[1].endswith("decode_bytearray")]
        pt = dict(decs[0][3])
        return (
            result["iOSDeviceLTSK"] == hexstr(ltsk)
            and result["iOSDeviceLTPK"] == hexstr(ed_pub(ltsk))
            and result["iOSPairingId"] == ios_pairing_id
            and result["AccessoryPairingID"] == utf8dec(pt[1])
            and result["AccessoryLTPK"] == hexstr(pt[3])
        )

    ensures = [m3, past_m4_only_with_valid_proof, m5, m6_authenticated, record]

    def m3_x(pin, salt, server_public_key, yielded, ghost):
        a = ghost["srp"].a
        return len(yielded) == 0 or yielded[0][0] == [(6, b"\x03"), (3, srpA(a)), (4, srpM1(a, pin, salt, server_public_key))]

    exsures = [m3_x, past_m4_only_with_valid_proof, m5]

    bound_note = "scenario table: honest + every adversarial variant of harness.hap_accessory (pair-setup), fresh random keys per run"

    def bounded_run(tier, seed):
        return setup_scenarios(2 if tier == "thorough" else 1)

    def replay(env, con, obs):
        r = setup_scenarios(1)
        if r["failures"]:
            f = r["failures"][0]
            f.update({"confirmed": True, "source": "scenario-table", "key": f["clause"]})
            return f
        # directed search: honest runs until a leading-zero SRP value (1 in 256 per value) has been hit
        from harness import hap_accessory as h
        from aiohomekit.protocol import perform_pair_setup_part1 as p1, perform_pair_setup_part2 as p2

        d = h.run_setup_leading_zero_search(p1, p2, 1200)
        if d["failure"]:
            return {"confirmed": True, "source": "directed-honest-search", "clause": "C03/aiohomekit.protocol:perform_pair_setup_part2#SetupPart2/scenario.honest", "key": "honest", "scenario": d["failure"], "runs": d["runs"]}
        return {"confirmed": False, "inputs_tried": r["cases"] + d["runs"], "note": "no scenario of the table fails on the real code"}


def srpA(a):
    raise NotImplementedError("symbolic only")


def srpM1(a, pin, salt, B):
    raise NotImplementedError("symbolic only")


def srpK(a, pin, salt, B):
    raise NotImplementedError("symbolic only")


def setup_scenarios(rounds):
    from harness import hap_accessory as h
    from aiohomekit.protocol import perform_pair_setup_part1 as p1, perform_pair_setup_part2 as p2

    tag = "C03/aiohomekit.protocol:perform_pair_setup_part2#SetupPart2/scenario"
    cases = 0
    failures = []
    for _ in range(rounds):
        r = h.run_setup(p1, p2)
        cases += 1
        if not (r["outcome"] == "paired" and r.get("record_ok") and r.get("m3_proof_ok") and r.get("m5_accepted")):
            failures.append({"clause": f"{tag}.honest", "scenario": r})
        for v in h.SETUP_BAD_M2 + h.SETUP_BAD_M4 + h.SETUP_BAD_M6:
            r = h.run_setup(p1, p2, v)
            cases += 1
            if r["outcome"] != "raised":
                failures.append({"clause": f"{tag}.{v}", "scenario": r, "expected": "an exception and no pairing data"})
    return {"cases": cases, "distinct": 1 + len(h.SETUP_BAD_M2 + h.SETUP_BAD_M4 + h.SETUP_BAD_M6), "failures": failures, "bound": SetupPart2.bound_note}
