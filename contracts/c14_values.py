"""C14: values prepared for writing respect format, range and step."""
import decimal
import z3

from pyvc.api import contract, Int, Bool, Real, Bytes, Str, implies
from pyvc.values import SObj, SInt
from pyvc.interp import StubObj

from aiohomekit.exceptions import FormatError
from aiohomekit.model.characteristics.characteristic import Characteristic, check_convert_value, strtobool
from aiohomekit.model.characteristics.characteristic_formats import CharacteristicFormats as F

INT_FORMATS = [F.uint8, F.uint16, F.uint32, F.uint64, F.int]


class _Acc(StubObj):
    def m_get_next_id(self, it):
        return 7


class _Svc(StubObj):
    f_accessory = _Acc()


def _char(it, fmt, with_min, with_max, with_step):
    """built by the REAL constructor (a vendor characteristic type without defaults), then given the declared
    range the way a BLE signature read or a later update does: by assigning the attributes"""
    n0 = len(it.ctx.trace)
    c = it.instantiate(Characteristic, [_Svc(), "F0000001-0000-1000-8000-0026BB765291"], {"format": fmt, "perms": ["pw"]})
    del it.ctx.trace[n0:]
    c.label = "char"
    c.fields.update(
        format=fmt,
        minValue=it.fresh(Int, "minValue") if with_min else None,
        maxValue=it.fresh(Int, "maxValue") if with_max else None,
        minStep=it.fresh(Int, "minStep") if with_step else None,
    )
    it.env.assumptions_used.add("object fields not named in the contract are at their constructor values")
    return c


def _int_setup(it):
    fmt = INT_FORMATS[it.ctx.choose(list(range(len(INT_FORMATS))))]
    import os

    dbg = os.environ.get("C14_COMBO")
    if dbg:
        wm, wx, ws = [bool(int(ch)) for ch in dbg]
    else:
        wm, wx, ws = bool(it.ctx.choose([1, 0])), bool(it.ctx.choose([1, 0])), bool(it.ctx.choose([1, 0]))
    it.ctx.ghost.update(wm=wm, wx=wx, ws=ws)
    return {"val": it.fresh(Int, "arg_val"), "char": _char(it, fmt, wm, wx, ws)}


B = 2 ** 64


def clamp(v, lo, hi):
    c = v if lo is None or v >= lo else lo
    return c if hi is None or c <= hi else hi


def half_up_int(x):
    """nearest integer to the real x, ties away from zero (executable form for replay)"""
    from fractions import Fraction
    import math

    x = Fraction(x)
    return math.floor(x + Fraction(1, 2)) if x >= 0 else -math.floor(-x + Fraction(1, 2))


def nearest_on_grid(c, o, s):
    """the grid point o + s*k nearest to c, ties upward in |k|: k = half_up((c - o) / s) over the rationals"""
    return o + s * half_up_int((c - o) / s)


@contract("aiohomekit.model.characteristics.characteristic:check_convert_value", prop="C14")
class IntegerFormats:
    """integer formats, integer inputs of ANY magnitude up to 2^64, every combination of present/absent
    minValue, maxValue, minStep"""

    setup = _int_setup
    raises = {FormatError: True}
    trusted = ["decimal model (pyvc.stubs_decimal): exact rationals, two assumed facts about context rounding"]

    def pre(val, char):
        return (
            -B <= val <= B
            and (char.minValue is None or -B <= char.minValue <= B)
            and (char.maxValue is None or -B <= char.maxValue <= B)
            and (char.minStep is None or 1 <= char.minStep <= B)
            and (char.minValue is None or char.maxValue is None or char.minValue <= char.maxValue)
        )

    requires = [pre]

    def exact_grid_point(val, char, result):
        """the result is the Python int on the step grid (counted from minValue, or 0) nearest to the clamped
        input - exactly, whatever the magnitude"""
        c = clamp(val, char.minValue, char.maxValue)
        o = 0 if char.minValue is None else char.minValue
        return isinstance(result, int) and result == (c if char.minStep is None else nearest_on_grid(c, o, char.minStep))

    ensures = [exact_grid_point]


def _garbage_setup(it):
    fmts = INT_FORMATS + [F.float]
    fmt = fmts[it.ctx.choose(list(range(len(fmts))))]
    return {"val": it.fresh(Str, "arg_val"), "char": _char(it, fmt, bool(it.ctx.choose([1, 0])), False, False)}


@contract("aiohomekit.model.characteristics.characteristic:check_convert_value", prop="C14")
class UnconvertibleInput:
    """a caller-supplied STRING of any content for a numeric format"""

    setup = _garbage_setup
    raises = {FormatError: True}  # an input that cannot be converted fails with the library's format error, no other

    def pre(char):
        return char.minValue is None or -B <= char.minValue <= B

    requires = [pre]

    def a_number(result):
        return isinstance(result, (int, float))

    ensures = [a_number]


def _bool_setup(it):
    vals = [True, False, 0, 1, "true", "False", "YES", "off", "On", "2", "", "maybe", 1.0]
    c = _char(it, F.bool, False, False, False)
    return {"val": vals[it.ctx.choose(list(range(len(vals))))], "char": c}


@contract("aiohomekit.model.characteristics.characteristic:check_convert_value", prop="C14")
class BoolFormat:
    setup = _bool_setup
    raises = {FormatError: True}

    def zero_or_one(val, result):
        return result in (0, 1) and isinstance(result, int) and result == (1 if str(val).lower() in ("y", "yes", "t", "true", "on", "1") else 0)

    def only_truth_words(val, exc):
        return str(val).lower() not in ("y", "yes", "t", "true", "on", "1", "n", "no", "f", "false", "off", "0")

    ensures = [zero_or_one]
    exsures = [only_truth_words]


def _native(tier, seed):
    from harness import values

    return values.run(tier, seed, "C14/aiohomekit.model.characteristics.characteristic:check_convert_value#native")


def _native_replay(env, con, obs):
    r = _native("quick", 0)
    if r["failures"]:
        f = r["failures"][0]
        f.update({"confirmed": True, "source": "native-harness", "key": f["clause"]})
        return f
    return {"confirmed": False, "inputs_tried": r["cases"]}


IntegerFormats.bounded_run = staticmethod(_native)
IntegerFormats.bound_note = "float format and string inputs are only covered by this bounded stand-in"
for _c in (IntegerFormats, UnconvertibleInput, BoolFormat):
    _c.replay = staticmethod(_native_replay)
