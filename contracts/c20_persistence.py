"""C20: saved pairings and the accessory cache survive restart and interrupted saves.

Ghost file system: a map path -> content, driven by the effect trace of the stubs below.  open(p, 'w')
truncates p IMMEDIATELY; write appends - and a crash may leave any prefix of the written text; os.replace is
atomic; a crash may happen between any two events."""
import builtins
import os
import pathlib

import z3

from pyvc.api import contract, Int, Bool, Bytes, Str, Opaque, implies
from pyvc.values import SObj, SStr, SV
from pyvc.interp import StubObj, Coro
from pyvc.ctx import RaiseEx

from aiohomekit import hkjson
from aiohomekit.controller.controller import Controller
from aiohomekit.characteristic_cache import CharacteristicCacheFile
from aiohomekit.exceptions import ConfigLoadingError, ConfigSavingError, TransportNotSupportedError


class FileStub(StubObj):
    def __init__(self, it, path, mode):
        self.path, self.mode = path, mode

    def cm_enter(self, it, is_async):
        return self

    def cm_exit(self, it, exc, is_async):
        it.ctx.trace.append(("close", self.path))
        return False

    def m_write(self, it, text):
        it.ctx.trace.append(("write", self.path, text))

    def m_read(self, it):
        it.ctx.trace.append(("read", self.path))
        return it.ctx.ghost["file_text"]

    def m_close(self, it):
        it.ctx.trace.append(("close", self.path))

    def m_flush(self, it):
        pass

    def m_fileno(self, it):
        return 3


class PathStub(StubObj):
    def __init__(self, p):
        self.p = p

    @property
    def f_parent(self):
        return PathStub(("parent", self.p))

    @property
    def f_name(self):
        return "pairings.json"

    def m_exists(self, it):
        return bool(it.ctx.choose([1, 0]))

    def m_mkdir(self, it, **kw):
        it.ctx.trace.append(("mkdir", self.p))

    def m_with_name(self, it, name):
        return PathStub(("sibling", self.p, name))

    def m_with_suffix(self, it, suffix):
        return PathStub(("suffixed", self.p, suffix))

    def sym_truth(self, it):
        return True


def install_fs(it, open_outcomes=("ok",)):
    env = it.env

    def _open(it, path, mode="r", encoding=None, **kw):
        k = open_outcomes[it.ctx.choose(list(range(len(open_outcomes))))] if len(open_outcomes) > 1 else open_outcomes[0]
        it.ctx.ghost["open_outcome"] = k
        if k != "ok":
            it.raise_exc({"PermissionError": PermissionError, "FileNotFoundError": FileNotFoundError}[k], "open failed")
        it.ctx.trace.append(("open", path, mode))
        return FileStub(it, path, mode)

    env.stub(builtins.open, _open)
    env.stub(os.replace, lambda it, a, b: it.ctx.trace.append(("replace", a, b)))
    env.stub(os.fsync, lambda it, fd: None)
    env.stub(pathlib.Path, lambda it, p: PathStub(p))
    import tempfile

    def _named_tmp(it, mode="w", dir=None, delete=True, **kw):
        p = ("tmpfile", dir)
        it.ctx.trace.append(("open", p, mode))
        f = FileStub(it, p, mode)
        f.f_name = p
        return f

    env.stub(tempfile.NamedTemporaryFile, _named_tmp)


def same_path(a, b):
    return a is b or (not isinstance(a, SV) and not isinstance(b, SV) and a == b)


def crash_safe(trace, filename, old, new):
    """at every crash point (after any event, and in the middle of any write) the file under `filename` holds
    either its old content or the complete new text"""
    files = [(filename, "old")]
    ok = True
    for e in trace:
        if e[0] == "open" and "w" in e[2]:
            files = [(p, c) for p, c in files if not same_path(p, e[1])] + [(e[1], "empty")]
        elif e[0] == "write":
            cur = [c for p, c in files if same_path(p, e[1])]
            if same_path(e[1], filename):
                ok = False  # a crash in the middle of this write leaves a partial file under the real name
            files = [(p, c) for p, c in files if not same_path(p, e[1])] + [(e[1], "new" if (cur == ["empty"] and e[2] is new) else "other")]
        elif e[0] == "replace":
            src = [c for p, c in files if same_path(p, e[1])]
            files = [(p, c) for p, c in files if not same_path(p, e[1]) and not same_path(p, e[2])] + [(e[2], src[0] if src else "missing")]
        here = [c for p, c in files if same_path(p, filename)]
        ok = ok and here in (["old"], ["new"])
    return ok


class _PairingObj(StubObj):
    def __init__(self, pd):
        self.f_pairing_data = pd


def _save_setup(it):
    install_fs(it, ("ok", "PermissionError", "FileNotFoundError"))
    new_text = it.fresh(Str, "json_text")
    it.env.stub(hkjson.dumps_indented, lambda it, data: (it.ctx.ghost.__setitem__("dumped", data), new_text)[1])
    c = SObj(Controller, label="controller")
    n = it.ctx.choose([0, 1, 2])
    pds = [SObj(dict, label=f"pairing_data{i}") for i in range(n)]
    c.fields["aliases"] = {f"alias{i}": _PairingObj(pds[i]) for i in range(n)}
    it.ctx.ghost.update(new_text=new_text, pds=pds)
    return {"self": c, "filename": it.fresh(Str, "arg_filename")}


@contract("aiohomekit.controller.controller:Controller.save_data", prop="C20")
class SaveData:
    setup = _save_setup
    raises = {ConfigSavingError: True}

    def never_destroys_saved_data(filename, trace, new_text):
        return crash_safe(trace, filename, "old", new_text)

    def saves_every_pairing(self, filename, trace, ghost, new_text):
        """what is written is the JSON text of {alias: pairing_data} for every alias, and afterwards the file
        holds exactly that text"""
        d = ghost["dumped"]
        files_end = final_content(trace, filename, new_text)
        return (
            list(d.keys()) == list(self.aliases.keys())
            and all(d[a] is self.aliases[a].pairing_data for a in d)
            and files_end == "new"
        )

    ensures = [never_destroys_saved_data, saves_every_pairing]
    exsures = [never_destroys_saved_data]


def final_content(trace, filename, new):
    files = [(filename, "old")]
    for e in trace:
        if e[0] == "open" and "w" in e[2]:
            files = [(p, c) for p, c in files if not same_path(p, e[1])] + [(e[1], "empty")]
        elif e[0] == "write":
            cur = [c for p, c in files if same_path(p, e[1])]
            files = [(p, c) for p, c in files if not same_path(p, e[1])] + [(e[1], "new" if (cur == ["empty"] and e[2] is new) else "other")]
        elif e[0] == "replace":
            src = [c for p, c in files if same_path(p, e[1])]
            files = [(p, c) for p, c in files if not same_path(p, e[1]) and not same_path(p, e[2])] + [(e[2], src[0] if src else "missing")]
    here = [c for p, c in files if same_path(p, filename)]
    return here[0] if len(here) == 1 else "missing"


# ------------------------------------------------------------------------------------------------- load_data


class _LoadPairing(StubObj):
    def sym_call(self, it, alias, pd):
        it.ctx.trace.append(("load_pairing", alias, pd))
        if it.ctx.choose(["loaded", "unsupported-transport"]) == "unsupported-transport":
            it.raise_exc(TransportNotSupportedError, "X")
        return SObj(object, label="pairing")


def _load_setup(it):
    install_fs(it, ("ok", "PermissionError", "FileNotFoundError"))
    text = it.fresh(Str, "file_text")
    it.ctx.ghost["file_text"] = text
    n = it.ctx.choose([0, 1, 2])
    data = {f"alias{i}": SObj(dict, label=f"pd{i}") for i in range(n)}

    def loads(it, s):
        """assumed contract of hkjson.loads: the saved mapping, or one of JSON_DECODE_EXCEPTIONS for text that
        is not JSON (e.g. a truncated file)"""
        if it.ctx.choose(["json", "not-json"]) == "not-json":
            it.ctx.ghost["not_json"] = True
            it.raise_exc(hkjson.JSON_DECODE_EXCEPTIONS[0], "bad json")
        it.ctx.ghost["loads_arg"] = s
        return data

    it.env.stub(hkjson.loads, loads)
    c = SObj(Controller, label="controller")
    c.fields["load_pairing"] = _LoadPairing()
    it.ctx.ghost.update(data=data, not_json=False)
    return {"self": c, "filename": it.fresh(Str, "arg_filename")}


@contract("aiohomekit.controller.controller:Controller.load_data", prop="C20")
class LoadData:
    setup = _load_setup
    raises = {ConfigLoadingError: True}  # the only exception that escapes (a missing file is an empty config)

    def every_saved_pairing_is_loaded_unchanged(filename, trace, ghost):
        """the text of THIS file is parsed and every saved pairing is handed to load_pairing with exactly the saved
        dictionary, also after another one was skipped for an unsupported transport"""
        lp = [e for e in trace if e[0] == "load_pairing"]
        data = ghost["data"]
        opened = [e for e in trace if e[0] == "open"]
        return ghost["open_outcome"] != "ok" or (
            len(opened) == 1
            and opened[0][1] is filename
            and "w" not in opened[0][2]
            and ghost["loads_arg"] is ghost["file_text"]
            and [e[1] for e in lp] == list(data.keys())
            and all(e[2] is data[e[1]] for e in lp)
        )

    ensures = [every_saved_pairing_is_loaded_unchanged]

    def only_for_unreadable_or_unparsable(ghost, exc):
        return isinstance(exc, ConfigLoadingError) and (ghost["open_outcome"] == "PermissionError" or ghost["not_json"])

    exsures = [only_for_unreadable_or_unparsable]


# ------------------------------------------------------------------------------------------------- cache file


def _cache_setup(it):
    install_fs(it)
    text = it.fresh(Str, "file_text")
    it.ctx.ghost["file_text"] = text
    stored = SObj(dict, label="stored-pairings")

    def loads(it, s):
        if it.ctx.choose(["json", "not-json"]) == "not-json":
            it.ctx.ghost["not_json"] = True
            it.raise_exc(hkjson.JSON_DECODE_EXCEPTIONS[it.ctx.choose(list(range(len(hkjson.JSON_DECODE_EXCEPTIONS))))], "bad json")
        return {"pairings": stored}

    it.env.stub(hkjson.loads, loads)
    it.ctx.ghost.update(stored=stored, not_json=False)
    loc = PathStub("cache.json")
    return {"self": SObj(CharacteristicCacheFile, label="cache"), "location": loc}


@contract("aiohomekit.characteristic_cache:CharacteristicCacheFile.__init__", prop="C20")
class CacheFileInit:
    setup = _cache_setup
    raises = {}  # a truncated or unparsable cache never fails start-up

    def cold_cache_on_corruption(self, ghost, trace):
        """readable JSON: the stored pairings are used; unparsable text (any of the JSON decode exception
        classes): the cache starts empty; a missing file: empty"""
        read = any(e[0] == "read" for e in trace)
        return (read and not ghost["not_json"] and self.storage_data is ghost["stored"]) or (
            (not read or ghost["not_json"]) and self.storage_data == {}
        )

    ensures = [cold_cache_on_corruption]


# ------------------------------------------------------------------------------------------------- native stand-in


def _native(tier, seed):
    from harness import persistence

    return persistence.run(tier, seed, "C20/aiohomekit#native")


def _native_replay(env, con, obs):
    r = _native("quick", 0)
    if r["failures"]:
        f = r["failures"][0]
        f.update({"confirmed": True, "source": "native-harness", "key": f["clause"]})
        return f
    return {"confirmed": False, "inputs_tried": r["cases"]}


SaveData.bounded_run = staticmethod(_native)
SaveData.replay = staticmethod(_native_replay)
