"""C20: saved pairings and the accessory cache survive restart and interrupted saves.

Ghost file system: a map path -> content, driven by the effect trace of the stubs below.  open(p, 'w')
truncates p IMMEDIATELY; write appends to a BUFFER - the text is on disk in full only after flush()/close() of that
file returned, until then (and after a crash) the file holds any prefix of it; os.replace is atomic; a crash may
happen between any two events, and flush/close may fail."""
import builtins
import os
import pathlib

import z3

from pyvc.api import contract, Int, Bool, Bytes, Str, Opaque, implies
from pyvc.values import SObj, SStr, SV
from pyvc.interp import StubObj, Coro
from pyvc.ctx import RaiseEx

from aiohomekit import hkjson
from aiohomekit.controller.controller import Controller
from aiohomekit.characteristic_cache import CharacteristicCacheFile
from aiohomekit.exceptions import ConfigLoadingError, ConfigSavingError, TransportNotSupportedError


class FileStub(StubObj):
    def __init__(self, it, path, mode):
        self.path, self.mode = path, mode

    def cm_enter(self, it, is_async):
        return self

    def cm_exit(self, it, exc, is_async):
        it.ctx.trace.append(("close", self.path))
        return False

    def m_write(self, it, text):
        it.ctx.trace.append(("write", self.path, text))

    def m_read(self, it):
        it.ctx.trace.append(("read", self.path))
        return it.ctx.ghost["file_text"]

    def m_close(self, it):
        it.ctx.trace.append(("close", self.path))

    def m_flush(self, it):
        it.ctx.trace.append(("flush", self.path))

    def m_fileno(self, it):
        return 3


class PathStub(StubObj):
    def __init__(self, p):
        self.p = p

    @property
    def f_parent(self):
        return PathStub(("parent", self.p))

    @property
    def f_name(self):
        return "pairings.json"

    def m_exists(self, it):
        return bool(it.ctx.choose([1, 0]))

    def m_mkdir(self, it, **kw):
        it.ctx.trace.append(("mkdir", self.p))

    def m_with_name(self, it, name):
        return PathStub(("sibling", self.p, name))

    def m_with_suffix(self, it, suffix):
        return PathStub(("suffixed", self.p, suffix))

    def sym_truth(self, it):
        return True


def install_fs(it, open_outcomes=("ok",)):
    env = it.env

    def _open(it, path, mode="r", encoding=None, **kw):
        k = open_outcomes[it.ctx.choose(list(range(len(open_outcomes))))] if len(open_outcomes) > 1 else open_outcomes[0]
        it.ctx.ghost["open_outcome"] = k
        if k != "ok":
            it.raise_exc({"PermissionError": PermissionError, "FileNotFoundError": FileNotFoundError}[k], "open failed")
        it.ctx.trace.append(("open", path, mode))
        return FileStub(it, path, mode)

    env.stub(builtins.open, _open)
    env.stub(os.replace, lambda it, a, b: it.ctx.trace.append(("replace", a, b)))
    env.stub(os.fsync, lambda it, fd: None)
    env.stub(pathlib.Path, lambda it, p: PathStub(p))
    import tempfile

    def _named_tmp(it, mode="w", dir=None, delete=True, **kw):
        p = ("tmpfile", dir)
        it.ctx.trace.append(("open", p, mode))
        f = FileStub(it, p, mode)
        f.f_name = p
        return f

    env.stub(tempfile.NamedTemporaryFile, _named_tmp)


def same_path(a, b):
    return a is b or (not isinstance(a, SV) and not isinstance(b, SV) and a == b)


def crash_safe(trace, filename, old, new):
    """at every crash point (after any event, and in the middle of any write) the file under `filename` holds
    either its old content or the complete new text"""
    files = [(filename, "old")]
    ok = True
    for e in trace:
        if e[0] == "open" and "w" in e[2]:
            files = [(p, c) for p, c in files if not same_path(p, e[1])] + [(e[1], "empty")]
        elif e[0] == "write":
            cur = [c for p, c in files if same_path(p, e[1])]
            if same_path(e[1], filename):
                ok = False  # a crash in the middle of this write leaves a partial file under the real name
            files = [(p, c) for p, c in files if not same_path(p, e[1])] + [(e[1], "buffered-new" if (cur == ["empty"] and e[2] is new) else "other")]
        elif e[0] in ("close", "flush"):
            # text files are buffered: what write() was given is on disk in full only after flush()/close() returned;
            # until then the file holds an arbitrary prefix of it (and close/flush may fail, e.g. ENOSPC)
            files = [(p, "new" if (c == "buffered-new" and same_path(p, e[1])) else c) for p, c in files]
        elif e[0] == "replace":
            src = [c for p, c in files if same_path(p, e[1])]
            files = [(p, c) for p, c in files if not same_path(p, e[1]) and not same_path(p, e[2])] + [(e[2], src[0] if src else "missing")]
        here = [c for p, c in files if same_path(p, filename)]
        ok = ok and here in (["old"], ["new"])
    return ok


class _PairingObj(StubObj):
    def __init__(self, pd):
        self.f_pairing_data = pd


def _save_setup(it):
    install_fs(it, ("ok", "PermissionError", "FileNotFoundError"))
    new_text = it.fresh(Str, "json_text")
    it.env.stub(hkjson.dumps_indented, lambda it, data: (it.ctx.ghost.__setitem__("dumped", data), new_text)[1])
    c = SObj(Controller, label="controller")
    n = it.ctx.choose([0, 1, 2])
    pds = [SObj(dict, label=f"pairing_data{i}") for i in range(n)]
    c.fields["aliases"] = {f"alias{i}": _PairingObj(pds[i]) for i in range(n)}
    it.ctx.ghost.update(new_text=new_text, pds=pds)
    return {"self": c, "filename": it.fresh(Str, "arg_filename")}


@contract("aiohomekit.controller.controller:Controller.save_data", prop="C20")
class SaveData:
    setup = _save_setup
    raises = {ConfigSavingError: True}

    def never_destroys_saved_data(filename, trace, new_text):
        return crash_safe(trace, filename, "old", new_text)

    def saves_every_pairing(self, filename, trace, ghost, new_text):
        """what is written is the JSON text of {alias: pairing_data} for every alias, and afterwards the file
        holds exactly that text"""
        d = ghost["dumped"]
        files_end = final_content(trace, filename, new_text)
        return (
            list(d.keys()) == list(self.aliases.keys())
            and all(d[a] is self.aliases[a].pairing_data for a in d)
            and files_end == "new"
        )

    ensures = [never_destroys_saved_data, saves_every_pairing]
    exsures = [never_destroys_saved_data]


def final_content(trace, filename, new):
    files = [(filename, "old")]
    moves = []
    for e in trace:
        if e[0] == "open" and "w" in e[2]:
            files = [(p, c) for p, c in files if not same_path(p, e[1])] + [(e[1], "empty")]
        elif e[0] == "write":
            cur = [c for p, c in files if same_path(p, e[1])]
            files = [(p, c) for p, c in files if not same_path(p, e[1])] + [(e[1], "buffered-new" if (cur == ["empty"] and e[2] is new) else "other")]
        elif e[0] in ("close", "flush"):
            # an open file follows its inode: after os.replace(src, dst) a close of the file opened as src completes dst
            names = [e[1]] + [dst for src_, dst in moves if same_path(src_, e[1])]
            files = [(p, "new" if (c == "buffered-new" and any(same_path(p, n) for n in names)) else c) for p, c in files]
        elif e[0] == "replace":
            src = [c for p, c in files if same_path(p, e[1])]
            files = [(p, c) for p, c in files if not same_path(p, e[1]) and not same_path(p, e[2])] + [(e[2], src[0] if src else "missing")]
            moves.append((e[1], e[2]))
    here = [c for p, c in files if same_path(p, filename)]
    return here[0] if len(here) == 1 else "missing"


# ------------------------------------------------------------------------------------------------- load_data


class _LoadPairing(StubObj):
    def sym_call(self, it, alias, pd):
        it.ctx.trace.append(("load_pairing", alias, pd))
        if it.ctx.choose(["loaded", "unsupported-transport"]) == "unsupported-transport":
            it.raise_exc(TransportNotSupportedError, "X")
        return SObj(object, label="pairing")


def _load_setup(it):
    install_fs(it, ("ok", "PermissionError", "FileNotFoundError"))
    text = it.fresh(Str, "file_text")
    it.ctx.ghost["file_text"] = text
    n = it.ctx.choose([0, 1, 2])
    data = {f"alias{i}": SObj(dict, label=f"pd{i}") for i in range(n)}

    def loads(it, s):
        """assumed contract of hkjson.loads: the saved mapping, or one of JSON_DECODE_EXCEPTIONS for text that
        is not JSON (e.g. a truncated file)"""
        if it.ctx.choose(["json", "not-json"]) == "not-json":
            it.ctx.ghost["not_json"] = True
            it.raise_exc(hkjson.JSON_DECODE_EXCEPTIONS[0], "bad json")
        it.ctx.ghost["loads_arg"] = s
        return data

    it.env.stub(hkjson.loads, loads)
    c = SObj(Controller, label="controller")
    c.fields["load_pairing"] = _LoadPairing()
    it.ctx.ghost.update(data=data, not_json=False)
    return {"self": c, "filename": it.fresh(Str, "arg_filename")}


@contract("aiohomekit.controller.controller:Controller.load_data", prop="C20")
class LoadData:
    setup = _load_setup
    raises = {ConfigLoadingError: True}  # the only exception that escapes (a missing file is an empty config)

    def every_saved_pairing_is_loaded_unchanged(filename, trace, ghost):
        """the text of THIS file is parsed and every saved pairing is handed to load_pairing with exactly the saved
        dictionary, also after another one was skipped for an unsupported transport"""
        lp = [e for e in trace if e[0] == "load_pairing"]
        data = ghost["data"]
        opened = [e for e in trace if e[0] == "open"]
        return ghost["open_outcome"] != "ok" or (
            len(opened) == 1
            and opened[0][1] is filename
            and "w" not in opened[0][2]
            and ghost["loads_arg"] is ghost["file_text"]
            and [e[1] for e in lp] == list(data.keys())
            and all(e[2] is data[e[1]] for e in lp)
        )

    ensures = [every_saved_pairing_is_loaded_unchanged]

    def only_for_unreadable_or_unparsable(ghost, exc):
        return isinstance(exc, ConfigLoadingError) and (ghost["open_outcome"] == "PermissionError" or ghost["not_json"])

    exsures = [only_for_unreadable_or_unparsable]


# ------------------------------------------------------------------------------------------------- cache file


def _cache_setup(it):
    install_fs(it)
    text = it.fresh(Str, "file_text")
    it.ctx.ghost["file_text"] = text
    stored = SObj(dict, label="stored-pairings")

    def loads(it, s):
        if it.ctx.choose(["json", "not-json"]) == "not-json":
            it.ctx.ghost["not_json"] = True
            it.raise_exc(hkjson.JSON_DECODE_EXCEPTIONS[it.ctx.choose(list(range(len(hkjson.JSON_DECODE_EXCEPTIONS))))], "bad json")
        return {"pairings": stored}

    it.env.stub(hkjson.loads, loads)
    it.ctx.ghost.update(stored=stored, not_json=False)
    loc = PathStub("cache.json")
    return {"self": SObj(CharacteristicCacheFile, label="cache"), "location": loc}


@contract("aiohomekit.characteristic_cache:CharacteristicCacheFile.__init__", prop="C20")
class CacheFileInit:
    setup = _cache_setup
    raises = {}  # a truncated or unparsable cache never fails start-up

    def cold_cache_on_corruption(self, ghost, trace):
        """readable JSON: the stored pairings are used; unparsable text (any of the JSON decode exception
        classes): the cache starts empty; a missing file: empty"""
        read = any(e[0] == "read" for e in trace)
        return (read and not ghost["not_json"] and self.storage_data is ghost["stored"]) or (
            (not read or ghost["not_json"]) and self.storage_data == {}
        )

    ensures = [cold_cache_on_corruption]


# ------------------------------------------------------------------------------------------------- entity map


class _EmAcc(StubObj):
    def m_get_next_id(self, it):
        return 7


class _EmSvc(StubObj):
    f_accessory = _EmAcc()


OPTIONAL_NUMERIC = ("minValue", "maxValue", "minStep", "handle")
OPTIONAL_FLAG = ("disconnected_events", "broadcast_events")
KEY_OF = {"valid_values": "valid-values"}


def _char_setup(it):
    """a characteristic built by the REAL constructor (vendor type, no defaults), then given arbitrary declared
    metadata the way create_from_dict / a BLE signature read does.  Which optional fields are present is a
    three-way choice for ALL of them at once (all absent / all present / arbitrary integers and booleans incl. 0
    and False): the branches of the function are independent, so one arbitrary value per field decides each."""
    from aiohomekit.model.characteristics.characteristic import Characteristic
    from aiohomekit.model.characteristics.characteristic_formats import CharacteristicFormats as F

    n0 = len(it.ctx.trace)
    readable = bool(it.ctx.choose([1, 0]))
    perms = ["pr", "pw", "ev"] if readable else ["pw"]
    c = it.instantiate(Characteristic, [_EmSvc(), "F0000001-0000-1000-8000-0026BB765291"], {"format": F.int, "perms": perms})
    del it.ctx.trace[n0:]
    c.label = "char"
    present = bool(it.ctx.choose([1, 0]))
    upd = {"iid": it.fresh(Int, "iid"), "_value": it.fresh(Int, "value")}
    for f in OPTIONAL_NUMERIC:
        upd[f] = it.fresh(Int, f) if present else None
    for f in OPTIONAL_FLAG:
        upd[f] = it.fresh(Bool, f) if present else None
    upd["valid_values"] = SObj(list, label="valid-values") if present else None
    c.fields.update(upd)
    it.ctx.ghost.update(readable=readable, present=present, perms=perms)
    it.env.assumptions_used.add("object fields not named in the contract are at their constructor values")
    return {"self": c}


@contract("aiohomekit.model.characteristics.characteristic:Characteristic.to_accessory_and_service_list", prop="C20")
class CharacteristicToDict:
    """what is written for one characteristic names every field the controller needs, for every value of the
    field - in particular a range bound, step or handle of 0 and a flag that is False are data, not absence"""

    setup = _char_setup
    raises = {}

    def identity_fields(self, result):
        return (
            result["type"] == self.type
            and result["iid"] == self.iid
            and result["perms"] is self.perms
            and result["format"] == self.format
        )

    def value_iff_readable(self, result, ghost):
        return ("value" in result) == ghost["readable"] and (not ghost["readable"] or result["value"] == self._value)

    def optional_fields_exactly_when_declared(self, result, ghost):
        ok = True
        for f in OPTIONAL_NUMERIC + OPTIONAL_FLAG:
            ok = ok and (f in result) == ghost["present"]
            if ghost["present"]:
                ok = ok and f in result and result[f] == getattr(self, f)
        ok = ok and ("valid-values" in result) == ghost["present"]
        if ghost["present"]:
            ok = ok and "valid-values" in result and result["valid-values"] is self.valid_values
        return ok

    ensures = [identity_fields, value_iff_readable, optional_fields_exactly_when_declared]


def _char_replay(env, con, obs):
    """boundary corpus on the REAL class: every combination of readable / declared, with the declared values taken
    from {0, 1, -1} and {False, True}; the executable clauses above are evaluated on the real object and result"""
    import itertools
    from aiohomekit.model import Accessory
    from aiohomekit.model.characteristics.characteristic_formats import CharacteristicFormats as F

    tried = 0
    for readable, present, num, flag in itertools.product((True, False), (True, False), (0, 1, -1), (False, True)):
        acc = Accessory(1)
        svc = acc.add_service("F0000002-0000-1000-8000-0026BB765291", add_required=False)
        perms = ["pr", "pw", "ev"] if readable else ["pw"]
        ch = svc.add_char("F0000001-0000-1000-8000-0026BB765291", format=F.int, perms=perms)
        ch._value = num
        for f in OPTIONAL_NUMERIC:
            setattr(ch, f, num if present else None)
        for f in OPTIONAL_FLAG:
            setattr(ch, f, flag if present else None)
        ch.valid_values = [num] if present else None
        ghost = {"readable": readable, "present": present}
        tried += 1
        try:
            result = ch.to_accessory_and_service_list()
        except Exception as e:  # noqa: BLE001
            return {"confirmed": True, "source": "boundary-corpus", "clause": "CharacteristicToDict/no-raise." + type(e).__name__,
                    "key": "CharacteristicToDict/no-raise", "args": repr((readable, present, num, flag))}
        for cl in con.clause_list("ensures"):
            names = [n for n in cl.__code__.co_varnames[: cl.__code__.co_argcount]]
            ns = {"self": ch, "result": result, "ghost": ghost}
            try:
                ok = cl(*[ns[n] for n in names])
            except KeyError:
                ok = False
            if not ok:
                return {"confirmed": True, "source": "boundary-corpus", "clause": "CharacteristicToDict/ensures." + cl.__name__,
                        "key": "CharacteristicToDict/ensures." + cl.__name__,
                        "args": repr({"readable": readable, "declared": present, "numeric fields": num, "flags": flag}), "result": repr(result)[:800]}
    return {"confirmed": False, "inputs_tried": tried}


CharacteristicToDict.replay = staticmethod(_char_replay)


class _CharStub(StubObj):
    def __init__(self, d):
        self.d = d

    def m_to_accessory_and_service_list(self, it):
        it.ctx.trace.append(("char_to_dict", self))
        return self.d


class _LinkedStub(StubObj):
    def __init__(self, iid):
        self.f_iid = iid


def _service_setup(it):
    from aiohomekit.model.services.service import Service

    s = SObj(Service, label="service")
    nc = it.ctx.choose([0, 1, 2, 3])
    nl = it.ctx.choose([0, 1, 2])
    dicts = [SObj(dict, label=f"char_dict{i}") for i in range(nc)]
    linked = [_LinkedStub(it.fresh(Int, f"linked_iid{i}")) for i in range(nl)]
    s.fields.update(
        iid=it.fresh(Int, "iid"),
        type=it.fresh(Str, "type"),
        characteristics=[_CharStub(d) for d in dicts],
        linked=linked,
    )
    it.ctx.ghost.update(dicts=dicts, linked_stubs=linked)
    return {"self": s}


@contract("aiohomekit.model.services.service:Service.to_accessory_and_service_list", prop="C20")
class ServiceToDict:
    """the service entry holds the serialised form of EVERY characteristic, in order, its own iid and type, and the
    iid of every linked service (also an iid the solver picks as 0 - `linked` is dropped only when there is none).
    Up to 3 characteristics and 2 links (the loop over a concrete list is unrolled; the bodies are independent)."""

    setup = _service_setup
    raises = {}

    def every_characteristic_in_order(self, result, ghost):
        cl = result["characteristics"]
        return len(cl) == len(ghost["dicts"]) and all(a is b for a, b in zip(cl, ghost["dicts"]))

    def identity(self, result):
        return result["iid"] == self.iid and result["type"] == self.type

    def links(self, result, ghost):
        ls = ghost["linked_stubs"]
        if not ls:
            return "linked" not in result
        return "linked" in result and len(result["linked"]) == len(ls) and all(a == b.iid for a, b in zip(result["linked"], ls))

    ensures = [every_characteristic_in_order, identity, links]


# ------------------------------------------------------------------------------------------------- cache write-through


def _mem_setup(it):
    from aiohomekit.characteristic_cache import CharacteristicCacheMemory

    c = SObj(CharacteristicCacheMemory, label="cache")
    other = SObj(dict, label="other-entry")
    c.fields["storage_data"] = {"other-id": other}
    it.ctx.ghost.update(other=other)
    return {
        "self": c,
        "homekit_id": "this-id",
        "config_num": it.fresh(Int, "config_num"),
        "accessories": SObj(list, label="accessories"),
        "broadcast_key": it.fresh(Str, "broadcast_key") if it.ctx.choose([1, 0]) else None,
        "state_num": it.fresh(Int, "state_num") if it.ctx.choose([1, 0]) else None,
    }


@contract("aiohomekit.characteristic_cache:CharacteristicCacheMemory.async_create_or_update_map", prop="C20")
class CacheMemoryUpdate:
    """the stored entry carries the configuration number, accessory list, broadcast key and state number it was
    given - each under its own name - and the entries of other pairings are untouched (frame)"""

    setup = _mem_setup
    raises = {}

    def stores_every_field(self, homekit_id, config_num, accessories, broadcast_key, state_num, result):
        e = self.storage_data[homekit_id]
        return (
            e is result
            and e["config_num"] == config_num
            and e["accessories"] is accessories
            and (e["broadcast_key"] is None if broadcast_key is None else e["broadcast_key"] == broadcast_key)
            and (e["state_num"] is None if state_num is None else e["state_num"] == state_num)
        )

    def frame(self, ghost):
        return list(self.storage_data.keys()) == ["other-id", "this-id"] and self.storage_data["other-id"] is ghost["other"]

    ensures = [stores_every_field, frame]


def _file_update_setup(it):
    install_fs(it)
    text = it.fresh(Str, "json_text")
    it.env.stub(hkjson.dumps, lambda it, data: (it.ctx.ghost.__setitem__("dumped", data), text)[1])
    c = SObj(CharacteristicCacheFile, label="cache")
    other = SObj(dict, label="other-entry")
    c.fields["storage_data"] = {"other-id": other}
    c.fields["location"] = PathStub("cache.json")
    it.ctx.ghost.update(other=other, text=text)
    return {
        "self": c,
        "homekit_id": "this-id",
        "config_num": it.fresh(Int, "config_num"),
        "accessories": SObj(list, label="accessories"),
        "broadcast_key": it.fresh(Str, "broadcast_key") if it.ctx.choose([1, 0]) else None,
        "state_num": it.fresh(Int, "state_num") if it.ctx.choose([1, 0]) else None,
    }


@contract("aiohomekit.characteristic_cache:CharacteristicCacheFile.async_create_or_update_map", prop="C20")
class CacheFileUpdate(CacheMemoryUpdate):
    """write-through: after the update the cache FILE is rewritten with the JSON text of {"pairings": the whole
    store, including the new entry}.  (The write is in place - the property asks crash safety of the pairing file
    only, and a cut cache file is read as empty, CacheFileInit.)"""

    setup = _file_update_setup
    raises = {}

    def written_through(self, trace, ghost):
        opened = [e for e in trace if e[0] == "open"]
        written = [e for e in trace if e[0] == "write"]
        d = ghost["dumped"]
        return (
            len(opened) == 1
            and opened[0][1] is self.location
            and "w" in opened[0][2]
            and len(written) == 1
            and written[0][2] is ghost["text"]
            and list(d.keys()) == ["pairings"]
            and d["pairings"] is self.storage_data
        )

    ensures = [CacheMemoryUpdate.stores_every_field, CacheMemoryUpdate.frame, written_through]


# ------------------------------------------------------------------------------------------------- pairing <-> cache


class _CharCache(StubObj):
    def __init__(self, entry):
        self.entry = entry

    def m_get_map(self, it, homekit_id):
        it.ctx.trace.append(("get_map", homekit_id))
        return self.entry

    def m_async_create_or_update_map(self, it, *a, **k):
        it.ctx.trace.append(("update_map", a, k))
        return {}


class _Ctl(StubObj):
    def __init__(self, cache):
        self.f__char_cache = cache


def _stub_model(it):
    """assumed contracts (the reading side of the entity map is NOT under contract - bounded stand-in only):
    Accessories.from_list(l) is the model of the list l; Accessories.serialize() is the list of the model"""
    from aiohomekit.model import Accessories

    def from_list(it, cls, l):
        m = SObj(Accessories, label="model")
        it.ctx.ghost["model"], it.ctx.ghost["model_of"] = m, l
        return m

    it.env.stub(Accessories.from_list.__func__, from_list)


def _restore_setup(it):
    from aiohomekit.controller.abstract import AbstractPairing

    _stub_model(it)
    kind = it.ctx.choose(["no-entry", "full-entry", "entry-without-optional-fields"])
    entry = None
    if kind != "no-entry":
        entry = {"config_num": it.fresh(Int, "config_num"), "accessories": SObj(list, label="cached-accessories")}
        if kind == "full-entry":
            entry["state_num"] = it.fresh(Int, "state_num")
            # what serialize_broadcast_key stored: key.hex() of some key (ground instances of the hex round-trip law)
            from pyvc.stubs_builtin import F_hexenc, F_hexdec, P_hexok, F_lower

            key, hx = it.fresh(Bytes, "stored_key"), it.fresh(Str, "broadcast_key_hex")
            it.ctx.assume(z3.And(hx.term == F_hexenc(key.term), P_hexok(hx.term), F_hexdec(hx.term) == key.term, F_lower(hx.term) == hx.term))
            it.env.assumptions_used.add("hex round trip (ground instances): bytes.fromhex(k.hex()) == k, k.hex() is lower-case hexadecimal")
            entry["broadcast_key"] = hx
            it.ctx.ghost["key"] = key
    p = SObj(AbstractPairing, label="pairing")
    p.fields.update(id="aa:bb:cc:dd:ee:ff", controller=_Ctl(_CharCache(entry)), description=None, _accessories_state=None)
    it.ctx.ghost.update(kind=kind, entry=entry)
    return {"self": p}


@contract("aiohomekit.controller.abstract:AbstractPairing._load_accessories_from_cache", prop="C20")
class RestoreFromCache:
    """restart: the accessory state of a pairing is rebuilt from ITS cache entry with every stored field in its own
    place - configuration number, state number, broadcast key (hex decoded), accessory list - also for a number 0;
    no entry: no state, no failure"""

    setup = _restore_setup
    raises = {}
    trusted = ["hex round trip of bytes (assumed ground instances)", "Accessories.from_list (assumed: the model of the list it is given)"]

    def restores_every_field(self, ghost, trace):
        e = ghost["entry"]
        st = self._accessories_state
        asked = [t for t in trace if t[0] == "get_map"]
        if len(asked) != 1 or asked[0][1] != self.id:
            return False
        if e is None:
            return st is None
        return (
            st is not None
            and st.accessories is ghost["model"]
            and ghost["model_of"] is e["accessories"]
            and st.config_num == e["config_num"]
            and (st.state_num == e["state_num"] if "state_num" in e else st.state_num is None)
            and (st.broadcast_key == ghost["key"] if "broadcast_key" in e else st.broadcast_key is None)
        )

    ensures = [restores_every_field]


class _Model(StubObj):
    def __init__(self, ser):
        self.ser = ser

    def m_serialize(self, it):
        return self.ser

    def sym_truth(self, it):
        return True


def _write_through_setup(it):
    from aiohomekit.controller.abstract import AbstractPairing
    from aiohomekit.model import AccessoriesState

    ser = SObj(list, label="serialized-accessories")
    with_key = bool(it.ctx.choose([1, 0]))
    with_num = bool(it.ctx.choose([1, 0]))
    key = it.fresh(Bytes, "broadcast_key") if with_key else None
    st = it.instantiate(AccessoriesState, [_Model(ser), it.fresh(Int, "config_num"), key, it.fresh(Int, "state_num") if with_num else None], {})
    p = SObj(AbstractPairing, label="pairing")
    p.fields.update(id="aa:bb:cc:dd:ee:ff", controller=_Ctl(_CharCache(None)), description=None, _accessories_state=st)
    it.ctx.ghost.update(ser=ser, st=st)
    return {"self": p}


@contract("aiohomekit.controller.abstract:AbstractPairing._update_accessories_state_cache", prop="C20")
class WriteThrough:
    """the cache is handed this pairing's id, configuration number, serialised accessories, broadcast key as hex (or
    None) and state number - each in the parameter position async_create_or_update_map gives that meaning"""

    setup = _write_through_setup
    raises = {}

    def every_field_in_its_place(self, ghost, trace):
        up = [t for t in trace if t[0] == "update_map"]
        st = ghost["st"]
        if len(up) != 1:
            return False
        a, k = up[0][1], up[0][2]
        names = ["homekit_id", "config_num", "accessories", "broadcast_key", "state_num"]
        got = {n: v for n, v in zip(names, a)}
        for n in k:
            got[n] = k[n]
        return (
            len(got) == 5
            and got["homekit_id"] == self.id
            and got["config_num"] == st.config_num
            and got["accessories"] is ghost["ser"]
            and (got["broadcast_key"] is None if st.broadcast_key is None else got["broadcast_key"] == st.broadcast_key.hex())
            and (got["state_num"] is None if st.state_num is None else got["state_num"] == st.state_num)
        )

    ensures = [every_field_in_its_place]


def _delete_setup(it):
    install_fs(it)
    text = it.fresh(Str, "json_text")
    it.env.stub(hkjson.dumps, lambda it, data: (it.ctx.ghost.__setitem__("dumped", data), text)[1])
    c = SObj(CharacteristicCacheFile, label="cache")
    other, mine = SObj(dict, label="other-entry"), SObj(dict, label="this-entry")
    has = bool(it.ctx.choose([1, 0]))
    c.fields["storage_data"] = {"other-id": other, **({"this-id": mine} if has else {})}
    c.fields["location"] = PathStub("cache.json")
    it.ctx.ghost.update(other=other, text=text, has=has)
    return {"self": c, "homekit_id": "this-id"}


@contract("aiohomekit.characteristic_cache:CharacteristicCacheFile.async_delete_map", prop="C20")
class CacheFileDelete:
    """removing one pairing's entry leaves every other pairing's entry in the store and in the rewritten file (frame)"""

    setup = _delete_setup
    raises = {}

    def only_this_entry_goes(self, ghost, trace):
        written = [e for e in trace if e[0] == "write"]
        return (
            list(self.storage_data.keys()) == ["other-id"]
            and self.storage_data["other-id"] is ghost["other"]
            and len(written) == 1
            and written[0][2] is ghost["text"]
            and ghost["dumped"]["pairings"] is self.storage_data
        )

    ensures = [only_this_entry_goes]


def _restore_state_setup(it):
    from aiohomekit.controller.abstract import AbstractPairing

    _stub_model(it)
    p = SObj(AbstractPairing, label="pairing")
    upd = []
    p.fields.update(id="aa:bb:cc:dd:ee:ff", controller=_Ctl(_CharCache(None)), description=None, _accessories_state=None)
    p.fields["_update_accessories_state_cache"] = _Recorder("write_through")
    lst = SObj(list, label="accessories-list")
    it.ctx.ghost.update(lst=lst)
    return {
        "self": p,
        "accessories": lst,
        "config_num": it.fresh(Int, "config_num"),
        "broadcast_key": it.fresh(Bytes, "broadcast_key") if it.ctx.choose([1, 0]) else None,
        "state_num": it.fresh(Int, "state_num") if it.ctx.choose([1, 0]) else None,
    }


class _Recorder(StubObj):
    def __init__(self, tag):
        self.tag = tag

    def sym_call(self, it, *a, **k):
        it.ctx.trace.append((self.tag, a, k))


@contract("aiohomekit.controller.abstract:AbstractPairing.restore_accessories_state", prop="C20")
class RestoreState:
    """state handed over by the application at start-up: each of the four fields lands in its own place, then the cache
    is written through (after the state is in place)"""

    setup = _restore_state_setup
    raises = {}

    def every_field_in_its_place(self, config_num, broadcast_key, state_num, ghost, trace):
        st = self._accessories_state
        return (
            st is not None
            and st.accessories is ghost["model"]
            and ghost["model_of"] is ghost["lst"]
            and st.config_num == config_num
            and (st.broadcast_key is None if broadcast_key is None else st.broadcast_key == broadcast_key)
            and (st.state_num is None if state_num is None else st.state_num == state_num)
            and len([e for e in trace if e[0] == "write_through"]) == 1
        )

    ensures = [every_field_in_its_place]


# ------------------------------------------------------------------------------------------------- entity map, reading side

VENDOR_CHAR = "F0000001-0000-1000-8000-0026BB765291"
VENDOR_SVC = "F0000002-0000-1000-8000-0026BB765291"


def _from_dict_setup(it):
    """one accessory entry as the cache holds it: two vendor services (the second linked to the first, or not), the first
    with one vendor characteristic (no per-type defaults) whose optional metadata is all absent or all present with
    ARBITRARY integer / boolean values (incl. 0 and False); the stored value absent, or an arbitrary integer.  Instance ids
    are concrete (10, 20, 11): the model indexes its dictionaries by them, and the interpreter does not store symbolic
    keys into concrete dictionaries"""
    from aiohomekit.model import Accessory

    present = bool(it.ctx.choose([1, 0]))
    with_value = bool(it.ctx.choose([1, 0]))
    linked = bool(it.ctx.choose([1, 0]))
    ch = {"type": VENDOR_CHAR, "iid": 11, "perms": ["pr", "pw", "ev"], "format": "int"}
    if present:
        ch.update({
            "minValue": it.fresh(Int, "minValue"), "maxValue": it.fresh(Int, "maxValue"), "minStep": it.fresh(Int, "minStep"),
            "handle": it.fresh(Int, "handle"), "broadcast_events": it.fresh(Bool, "broadcast_events"),
            "disconnected_events": it.fresh(Bool, "disconnected_events"), "valid-values": [it.fresh(Int, "valid0"), it.fresh(Int, "valid1")],
        })
    if with_value:
        ch["value"] = it.fresh(Int, "value")
    s1 = {"type": VENDOR_SVC, "iid": 10, "characteristics": [ch]}
    s2 = {"type": VENDOR_SVC, "iid": 20, "characteristics": []}
    if linked:
        s2["linked"] = [10]
    data = {"aid": it.fresh(Int, "aid"), "services": [s1, s2]}
    it.ctx.ghost.update(ch=ch, present=present, with_value=with_value, linked=linked)
    return {"cls": Accessory, "data": data}


@contract("aiohomekit.model:Accessory.create_from_dict", prop="C20")
class AccessoryFromDict:
    """restart, reading side: the model built from a cached entry has every field the entry holds - ids, type, perms,
    format, range, step, handle, event flags, valid values, value, links - for every integer / boolean value.
    REAL constructors throughout (Accessory, Service, Characteristic, set_value)."""

    setup = _from_dict_setup
    raises = {}

    def every_field_restored(data, ghost, result):
        ch = ghost["ch"]
        svcs = result.services._services
        if result.aid != data["aid"] or len(svcs) != 2 or svcs[0].iid != 10 or svcs[1].iid != 20:
            return False
        chars = svcs[0].characteristics._characteristics
        if len(chars) != 1 or len(svcs[1].characteristics._characteristics) != 0:
            return False
        c = chars[0]
        ok = c.iid == ch["iid"] and c.perms is ch["perms"] and c.format == "int" and c.service is svcs[0]
        if ghost["present"]:
            ok = (
                ok
                and c.minValue == ch["minValue"]
                and c.maxValue == ch["maxValue"]
                and c.minStep == ch["minStep"]
                and c.handle == ch["handle"]
                and c.broadcast_events == ch["broadcast_events"]
                and c.disconnected_events == ch["disconnected_events"]
                and c.valid_values is ch["valid-values"]
            )
        else:
            ok = ok and c.minValue is None and c.maxValue is None and c.minStep is None and c.handle is None and c.valid_values is None
        if ghost["with_value"]:
            ok = ok and c._value == ch["value"]
        return ok

    def links_restored(ghost, result):
        svcs = result.services._services
        l2 = svcs[1].linked
        return len(svcs[0].linked) == 0 and ((ghost["linked"] and len(l2) == 1 and l2[0] is svcs[0]) or (not ghost["linked"] and len(l2) == 0))

    ensures = [every_field_restored, links_restored]


def _eval_clauses_natively(con, tag, ns, what):
    for cl in con.clause_list("ensures"):
        names = cl.__code__.co_varnames[: cl.__code__.co_argcount]
        try:
            ok = cl(*[ns[n] for n in names])
        except (KeyError, IndexError, AttributeError):
            ok = False
        if not ok:
            return {"confirmed": True, "source": "boundary-corpus", "clause": f"{tag}/ensures.{cl.__name__}", "key": f"{tag}/ensures.{cl.__name__}", "args": repr(what)[:1500]}
    return None


def _from_dict_replay(env, con, obs):
    """boundary corpus on the REAL classes: declared metadata from {0, 1, -1} x {False, True}, with/without value, link"""
    import itertools
    from aiohomekit.model import Accessory

    tried = 0
    for present, with_value, linked, num, flag in itertools.product((True, False), (True, False), (True, False), (0, 1, -1), (False, True)):
        ch = {"type": VENDOR_CHAR, "iid": 11, "perms": ["pr", "pw", "ev"], "format": "int"}
        if present:
            ch.update({"minValue": num, "maxValue": num, "minStep": num, "handle": num, "broadcast_events": flag, "disconnected_events": flag, "valid-values": [num, num + 1]})
        if with_value:
            ch["value"] = num
        s1 = {"type": VENDOR_SVC, "iid": 10, "characteristics": [ch]}
        s2 = {"type": VENDOR_SVC, "iid": 20, "characteristics": []}
        if linked:
            s2["linked"] = [10]
        data = {"aid": 1 + abs(num), "services": [s1, s2]}
        tried += 1
        try:
            result = Accessory.create_from_dict(data)
        except Exception as e:  # noqa: BLE001
            return {"confirmed": True, "source": "boundary-corpus", "clause": "AccessoryFromDict/no-raise." + type(e).__name__, "key": "AccessoryFromDict/no-raise", "args": repr(data)[:1500]}
        v = _eval_clauses_natively(con, "AccessoryFromDict", {"data": data, "result": result, "ghost": {"ch": ch, "present": present, "with_value": with_value, "linked": linked}}, data)
        if v is not None:
            return v
    return {"confirmed": False, "inputs_tried": tried}


AccessoryFromDict.replay = staticmethod(_from_dict_replay)


# ------------------------------------------------------------------------------------------------- native stand-in


def _native(tier, seed):
    from harness import persistence

    return persistence.run(tier, seed, "C20/aiohomekit#native")


def _native_replay(env, con, obs):
    r = _native("quick", 0)
    if r["failures"]:
        f = r["failures"][0]
        f.update({"confirmed": True, "source": "native-harness", "key": f["clause"]})
        return f
    return {"confirmed": False, "inputs_tried": r["cases"]}


SaveData.bounded_run = staticmethod(_native)
SaveData.replay = staticmethod(_native_replay)
