import itertools
import random
import struct

from pyvc.api import contract, LoopInv, Int, Bool, Bytes, ByteArray, ListOf, TupleOf, EnumOf, implies, exists, forall
from specs.pdu import reasm, conts_ok, sizes_ok, Frags, le16

from aiohomekit.pdu import OpCode, PDUStatus


def _opt_bytes(name):
    def mk(it):
        if it.ctx.choose(["none", "bytes"]) == "none":
            return None
        return it.fresh(Bytes, "arg_" + name)

    return mk


@contract("aiohomekit.pdu:encode_pdu", prop="C17")
class EncodePdu:
    params = {"opcode": EnumOf(OpCode), "tid": Int, "iid": Int, "data": _opt_bytes("data"), "fragment_size": Int}
    yielded_sort = Frags

    def pre(opcode, tid, iid, data, fragment_size):
        return (
            1 <= opcode.value <= 8 and 0 <= tid <= 255 and 0 <= iid <= 65535 and fragment_size >= 8
            and (data is None or len(data) <= 65535)
        )

    requires = [pre]

    def nobody(opcode, tid, iid, data, fragment_size, yielded):
        """no body: exactly one 5-byte fragment control=0, opcode, tid, iid (LE)"""
        return implies(
            data is None or len(data) == 0,
            len(yielded) == 1 and yielded[0] == bytes([0, opcode.value, tid, iid % 256, iid // 256]),
        )

    def header(opcode, tid, iid, data, fragment_size, yielded):
        """with a body: first fragment = 7-byte header (incl. total body length) + first size-7 bytes"""
        return (
            data is None
            or len(data) == 0
            or (
                len(yielded) >= 1
                and yielded[0]
                == bytes([0, opcode.value, tid, iid % 256, iid // 256, len(data) % 256, len(data) // 256])
                + data[: fragment_size - 7]
            )
        )

    def continuations(tid, data, fragment_size, yielded):
        """every later fragment starts with control 0x80 and the same tid"""
        return conts_ok(yielded, tid)

    def sizes(fragment_size, yielded):
        return sizes_ok(yielded, fragment_size)

    def reassembles(data, yielded):
        """a conformant accessory concatenating the fragment payloads gets exactly the body"""
        return data is None or len(data) == 0 or reasm(yielded) == data

    ensures = [nobody, header, continuations, sizes, reassembles]

    def inv_reasm(data__old, data, fragment_size, yielded, pos):
        """pos = the range position: the bytes before it (plus the first fragment's) are out"""
        return (
            len(yielded) >= 1
            and reasm(yielded) == data__old[: (fragment_size - 7) + pos]
            and data == data__old[fragment_size - 7:]
        )

    def inv_first(opcode, tid, iid, data__old, fragment_size, yielded):
        return (
            yielded[0]
            == bytes([0, opcode.value, tid, iid % 256, iid // 256, len(data__old) % 256, len(data__old) // 256])
            + data__old[: fragment_size - 7]
        )

    def inv_conts(tid, fragment_size, yielded):
        return conts_ok(yielded, tid) and sizes_ok(yielded, fragment_size)

    loops = {0: LoopInv([inv_reasm, inv_first, inv_conts], index="pos")}

    def native_call(fn, a):
        return list(fn(**a))

    def corpus():
        for fs in (8, 9, 20, 64, 155, 244, 496, 512):
            for n in (0, 1, fs - 8, fs - 7, fs - 6, 2 * fs - 9, 2 * fs - 8, 3 * fs, 5000):
                if n < 0:
                    continue
                yield {"opcode": OpCode.CHAR_WRITE, "tid": 7, "iid": 0x1234, "data": bytes(i % 251 for i in range(n)), "fragment_size": fs}
        yield {"opcode": OpCode.CHAR_READ, "tid": 255, "iid": 65535, "data": None, "fragment_size": 512}


@contract("aiohomekit.pdu:decode_pdu", prop="C17")
class DecodePdu:
    params = {"expected_tid": Int, "data": Bytes}

    def pre(expected_tid, data):
        return 0 <= expected_tid <= 255

    requires = [pre]

    def short(data):
        """a fragment too short to carry control, tid and status cannot be unpacked"""
        return len(data) < 3

    def bad(expected_tid, data):
        """rejected iff the transaction id differs or the status byte is not a defined status"""
        return len(data) >= 3 and (data[1] != expected_tid or data[2] > 6)

    raises = {ValueError: bad, struct.error: short}

    def accepted(expected_tid, data, result):
        return len(data) >= 3 and data[1] == expected_tid and data[2] <= 6 and result[0].value == data[2]

    def short(data, result):
        return implies(len(data) < 5, result[1] == 0 and result[2] == b"")

    def body(data, result):
        return implies(len(data) >= 5, result[1] == data[3] + 256 * data[4] and result[2] == data[5:])

    ensures = [accepted, short, body]

    def corpus():
        for tid in (0, 5, 255):
            for st in range(0, 9):
                for tail in (b"", b"\x01", b"\x03\x00abc", b"\xff\xff" + bytes(10)):
                    yield {"expected_tid": 5, "data": bytes([2, tid, st]) + tail}
        for d in (b"", b"\x02", b"\x02\x05"):
            yield {"expected_tid": 5, "data": d}


@contract("aiohomekit.pdu:decode_pdu_continuation", prop="C17")
class DecodePduContinuation:
    params = {"expected_tid": Int, "data": Bytes}

    def pre(expected_tid, data):
        return 0 <= expected_tid <= 255

    requires = [pre]

    def short(data):
        return len(data) < 2

    def bad(expected_tid, data):
        """rejected iff the continuation flag (0x80) is missing or the transaction id differs"""
        return len(data) >= 2 and (data[0] < 128 or data[1] != expected_tid)

    raises = {ValueError: bad, struct.error: short}

    def accepted(expected_tid, data, result):
        return len(data) >= 2 and data[0] >= 128 and data[1] == expected_tid and result == data[2:]

    ensures = [accepted]

    def corpus():
        for c in (0, 0x7F, 0x80, 0x81, 0xFF):
            for tid in (0, 5, 255):
                for tail in (b"", b"abc"):
                    yield {"expected_tid": 5, "data": bytes([c, tid]) + tail}
