"""C13: reads and writes report per-characteristic outcomes faithfully."""
import z3

from pyvc.api import contract, Int, Bool, Bytes, Str, Opaque, implies
from pyvc.values import SObj, SInt
from pyvc.interp import StubObj, Coro

from aiohomekit.controller.ip.pairing import IpPairing, format_characteristic_list
from aiohomekit.protocol.statuscodes import HapStatusCode, to_status_code

CODES = sorted(int(m.value) for m in HapStatusCode)


from pyvc.api import EnumOf


@contract("aiohomekit.protocol.statuscodes:to_status_code", prop="C13", modular=True)
class ToStatusCode:
    params = {"status_code": Int}
    returns = EnumOf(HapStatusCode)
    raises = {}

    def normalised(status_code, result):
        """HapStatusCode(-|s|) when that is a defined code, UNKNOWN otherwise - for EVERY integer"""
        n = -abs(status_code)
        return (n in CODES and result.value == n) or (n not in CODES and result.value == -1)

    ensures = [normalised]

    def corpus():
        for s in [0, 1, -1, 70401, -70401, -70412, 70412, 5, -70413, 2 ** 40]:
            yield {"status_code": s}


# ------------------------------------------------------------------------------------------------- read replies

IDS = [(1, 10), (2, 20)]


def _entry(it, j):
    """one entry of the reply's characteristics list: malformed in every listed way, or well-formed for one of
    the ids with value and/or status present (status ANY integer)"""
    kinds = ["bool", "no-aid", "no-iid", "ok-value", "ok-status", "ok-value+status", "ok-bare"] if j == 0 else ["ok-value", "ok-status", "ok-value+status"]
    k = kinds[it.ctx.choose(list(range(len(kinds))))]
    if k == "bool":
        return True, None
    aid, iid = IDS[it.ctx.choose([0, 1])]
    if k == "no-aid":
        return {"iid": iid, "value": 1}, None
    if k == "no-iid":
        return {"aid": aid, "status": 0}, None
    d = {"aid": aid, "iid": iid}
    if "value" in k:
        d["value"] = it.fresh(Int, f"value{j}")
    if "status" in k:
        d["status"] = it.fresh(Int, f"status{j}")
    return d, dict(d)


def _fcl_setup_mode(mode):
    def setup(it):
        data = {}
        wf = []
        if mode == "single":
            # 0 or 1 list entry of EVERY kind, with / without a request-wide status, three requested sets
            if it.ctx.choose(["no-global-status", "global-status"]) == "global-status":
                data["status"] = it.fresh(Int, "global_status")
            n = it.ctx.choose([-1, 0, 1])
            req = [None, {IDS[0]}, set(IDS)][it.ctx.choose([0, 1, 2])]
        else:
            # two well-formed entries (same id: the later one wins; or different ids), everything requested
            n = 2
            req = set(IDS)
        if n >= 0:
            lst = []
            for j in range(n):
                e, w = _entry(it, j if mode == "single" else 1)
                lst.append(e)
                if w is not None:
                    wf.append(w)
            data["characteristics"] = lst
        it.ctx.ghost.update(wf=wf, gstatus=data.get("status"))
        return {"data": data, "requested_characteristics": req}

    return setup


def expected_entry(w):
    """what the last well-formed entry for a key becomes: value kept, status 0 dropped, non-zero status kept"""
    return w


@contract("aiohomekit.controller.ip.pairing:format_characteristic_list", prop="C13")
class FormatCharacteristicList:
    """replies with 0..2 list entries of every kind, with/without a request-wide status, against requested sets
    of 0..3 ids; statuses and values are ARBITRARY integers"""

    setup = _fcl_setup_mode("single")
    max_paths = 9000
    raises = {}  # malformed entries are skipped, nothing raises

    def per_characteristic(requested_characteristics, wf, gstatus, result):
        """for every id: the LAST well-formed entry for it decides (its value kept; status 0 removed; a non-zero
        status kept); else a non-zero request-wide status is applied if the id was requested; else it is absent"""
        req = requested_characteristics or set()
        ok = True
        for key in IDS:
            mine = [w for w in wf if (w["aid"], w["iid"]) == key]
            if mine:
                w = mine[-1]
                ok = ok and key in result
                ok = ok and ("value" in w) == ("value" in result[key]) and ("value" not in w or result[key]["value"] == w["value"])
                ok = ok and ("status" not in w and "status" not in result[key] or "status" in w and (
                    (w["status"] == 0 and "status" not in result[key]) or (w["status"] != 0 and "status" in result[key] and result[key]["status"] == w["status"])
                ))
            elif gstatus is not None and key in req:
                ok = ok and ((gstatus == 0 and key not in result) or (gstatus != 0 and key in result and result[key]["status"] == gstatus))
            else:
                ok = ok and key not in result
        return ok and all(k in IDS for k in result)

    ensures = [per_characteristic]


@contract("aiohomekit.controller.ip.pairing:format_characteristic_list", prop="C13")
class FormatCharacteristicListDuplicates(FormatCharacteristicList):
    """two well-formed entries for the same or for different ids"""

    setup = _fcl_setup_mode("pair")
    ensures = [FormatCharacteristicList.per_characteristic]


# ------------------------------------------------------------------------------------------------- writes (IP)

from aiohomekit.model.characteristics import CharacteristicPermissions  # noqa: E402

WIDS = [(1, 10), (1, 11), (2, 20)]


class _CharModel(StubObj):
    def __init__(self, perms):
        self.f_perms = perms


class _AccModel(StubObj):
    """self.accessories.aid(a).characteristics.iid(i): the characteristic model (readable or write-only)"""

    def __init__(self, table):
        self.table = table

    def m_aid(self, it, aid):
        self.cur_aid = aid
        return self

    @property
    def f_characteristics(self):
        return self

    def m_iid(self, it, iid):
        return self.table[(self.cur_aid, iid)]

    def sym_truth(self, it):
        return True


class _Listeners(StubObj):
    def sym_call(self, it, update):
        it.ctx.trace.append(("listeners", dict(update)))


class _Noop(StubObj):
    def sym_call(self, it, *a, **k):
        from pyvc.interp import Coro as _C

        return _C(lambda: None, "noop")


def _ip_put_setup(it):
    n = 1 + it.ctx.choose([0, 1, 2])
    req = [(WIDS[j][0], WIDS[j][1], it.fresh(Int, f"value{j}")) for j in range(n)]
    table = {WIDS[j]: _CharModel(["pr", "pw"] if it.ctx.choose([1, 0]) else ["pw"]) for j in range(n)}
    reply_kind = it.ctx.choose(["204-empty", "207-list"])
    statuses = {}
    if reply_kind == "204-empty":
        reply = {}
    else:
        lst = []
        for j in range(n):
            k = it.ctx.choose(["listed", "not-listed"])
            if k == "listed":
                st = it.fresh(Int, f"status{j}")
                statuses[WIDS[j]] = st
                lst.append({"aid": WIDS[j][0], "iid": WIDS[j][1], "status": st})
        if it.ctx.choose([0, 1]):
            lst.insert(0, True)  # a malformed entry
        reply = {"characteristics": lst}

    class Conn(StubObj):
        def m_put_json(self, it, target, body):
            it.ctx.ghost["sent"] = body
            return Coro(lambda: reply, "put_json")

    p = SObj(IpPairing, label="pairing")
    p.fields.update(connection=Conn(), accessories=_AccModel(table), _ensure_connected=_Noop(), _callback_listeners=_Listeners(),
                    list_accessories_and_characteristics=_Noop())
    it.ctx.ghost.update(req=req, table=table, statuses=statuses)
    return {"self": p, "characteristics": req}


@contract("aiohomekit.controller.ip.pairing:IpPairing.put_characteristics", prop="C13")
class IpPutCharacteristics:
    """1..3 characteristics over two accessory ids, each readable or write-only; reply 204 (empty) or a 207 list
    in which each requested characteristic is listed with ANY integer status or not listed, optionally with a
    malformed entry"""

    setup = _ip_put_setup
    raises = {}

    def listeners_hear_exactly_the_accepted_readable_ones(req, table, statuses, trace):
        """notified with {id: {"value": v}} for exactly the requested characteristics that are readable and were
        not rejected (a listed status 0, or not listed at all, is accepted); no call when that set is empty"""
        want = {}
        calls = [e for e in trace if e[0] == "listeners"]
        ok = True
        for aid, iid, v in req:
            key = (aid, iid)
            readable = "pr" in table[key].perms
            if key in statuses:
                rejected = statuses[key] != 0
                ok = ok and (
                    (not readable and all(key not in c[1] for c in calls))
                    or (readable and ((rejected and all(key not in c[1] for c in calls)) or (not rejected and len(calls) == 1 and key in calls[0][1] and calls[0][1][key] == {"value": v})))
                )
            else:
                ok = ok and ((readable and len(calls) == 1 and key in calls[0][1] and calls[0][1][key] == {"value": v}) or (not readable and all(key not in c[1] for c in calls)))
        return ok and len(calls) <= 1 and all(len(c[1]) > 0 for c in calls)

    def statuses_reported_faithfully(statuses, result):
        """every listed characteristic is reported with the accessory's status; nothing else is reported"""
        return set(result.keys()) == set(statuses.keys()) and all(result[k]["status"] == statuses[k] for k in statuses)

    def payload(req, ghost):
        sent = ghost["sent"]
        return list(sent.keys()) == ["characteristics"] and sent["characteristics"] == [{"aid": a, "iid": i, "value": v} for a, i, v in req] and all(
            list(c.keys()) == ["aid", "iid", "value"] for c in sent["characteristics"]
        )

    ensures = [listeners_hear_exactly_the_accepted_readable_ones, statuses_reported_faithfully, payload]


def _ip_replay(env, con, obs):
    from harness import outcomes

    r = outcomes.ip_mixed_207()
    if r["heard"] != [{(1, 10): {"value": 5}}]:
        return {"confirmed": True, "source": "native-scenario", "clause": "C13/aiohomekit.controller.ip.pairing:IpPairing.put_characteristics#IpPutCharacteristics/ensures.listeners_hear_exactly_the_accepted_readable_ones", "key": "mixed-207",
                "scenario": {"write": "[(1,10,5),(1,11,6)] both readable", "reply": "207 [(1,10) status 0, (1,11) status -70402]", "listeners_heard": repr(r["heard"]), "expected": "[{(1,10): {'value': 5}}]"}}
    return {"confirmed": False, "inputs_tried": 1}


IpPutCharacteristics.replay = staticmethod(_ip_replay)


# ------------------------------------------------------------------------------------------------- CoAP

from aiohomekit.controller.coap.connection import CoAPHomeKitConnection  # noqa: E402
from aiohomekit.controller.coap.pairing import CoAPPairing  # noqa: E402
from aiohomekit.controller.coap.pdu import PDUStatus as CoapStatus  # noqa: E402

ERRS = [CoapStatus.INVALID_REQUEST, CoapStatus.TID_MISMATCH, CoapStatus.BAD_CONTROL, CoapStatus.INSUFFICIENT_AUTHORIZATION]


def _coap_results(it, n, allow_body=True):
    out = []
    for j in range(n):
        k = it.ctx.choose(["ok"] + [e.name for e in ERRS])
        out.append(b"" if k == "ok" else next(e for e in ERRS if e.name == k))
    return out


def _wexit_setup(it):
    n = 1 + it.ctx.choose([0, 1, 2])
    ids_values = [(WIDS[j][0], WIDS[j][1], it.fresh(Int, f"value{j}")) for j in range(n)]
    res = _coap_results(it, n)
    return {"self": SObj(CoAPHomeKitConnection, label="coap"), "ids_values": ids_values, "pdu_results": res}


@contract("aiohomekit.controller.coap.connection:CoAPHomeKitConnection._write_characteristics_exit", prop="C13")
class CoapWriteExit:
    """batches of 1..3 items, every combination of per-item outcome {ok, error status, wrong tid, wrong control}"""

    setup = _wexit_setup
    raises = {}

    def ith_result_belongs_to_ith_characteristic(ids_values, pdu_results, result):
        """results[ids[i]] is built from pdu_results[i] and nothing else: a status item becomes a NON-ZERO
        status for exactly that characteristic, a successful item reports nothing"""
        ok = True
        for j in range(len(ids_values)):
            key = (ids_values[j][0], ids_values[j][1])
            r = pdu_results[j]
            if isinstance(r, CoapStatus):
                ok = ok and key in result and result[key]["status"] == -r.value and result[key]["status"] != 0
            else:
                ok = ok and key not in result
        return ok and len(result) == len([r for r in pdu_results if isinstance(r, CoapStatus)])

    ensures = [ith_result_belongs_to_ith_characteristic]


class _CoapConn(StubObj):
    def __init__(self, status):
        self.status = status

    def m_write_characteristics(self, it, chars):
        it.ctx.ghost["written"] = chars
        return Coro(lambda: self.status, "write_characteristics")


def _coap_put_setup(it):
    n = 1 + it.ctx.choose([0, 1, 2])
    req = [(WIDS[j][0], WIDS[j][1], it.fresh(Int, f"value{j}")) for j in range(n)]
    table = {WIDS[j]: _CharModel(["pr", "pw"] if it.ctx.choose([1, 0]) else ["pw"]) for j in range(n)}
    status = {}
    for j in range(n):
        if it.ctx.choose(["accepted", "rejected"]) == "rejected":
            status[WIDS[j]] = {"descripton": "x", "status": -6}
    p = SObj(CoAPPairing, label="coap-pairing")
    p.fields.update(connection=_CoapConn(status), accessories=_AccModel(table), _ensure_connected=_Noop(), _callback_listeners=_Listeners())
    it.ctx.ghost.update(req=req, table=table, status=status)
    return {"self": p, "characteristics": req}


@contract("aiohomekit.controller.coap.pairing:CoAPPairing.put_characteristics", prop="C13")
class CoapPutCharacteristics:
    setup = _coap_put_setup
    raises = {}

    def listeners_hear_exactly_the_accepted_readable_ones(req, table, status, trace, result):
        calls = [e for e in trace if e[0] == "listeners"]
        want = {(a, i): {"value": v} for a, i, v in req if (a, i) not in status and "pr" in table[(a, i)].perms}
        return result is status and ((len(want) == 0 and calls == []) or (len(calls) == 1 and calls[0][1] == want))

    ensures = [listeners_hear_exactly_the_accepted_readable_ones]


# ------------------------------------------------------------------------------------------------- reads (IP)


def _ip_get_setup(it):
    """a bridge: accessory 1 answers reads with values, accessory 2 is unreachable (-70402).  A request that
    mentions accessory 1 gets a per-characteristic reply; a request for accessory 2 alone gets a request-wide
    status without a list"""
    vals = {k: it.fresh(Int, f"v_{k[0]}_{k[1]}") for k in WIDS}
    req = [{(1, 10)}, {(1, 10), (2, 20)}, {(1, 10), (1, 11), (2, 20)}, {(2, 20)}][it.ctx.choose([0, 1, 2, 3])]

    class Conn(StubObj):
        def m_get_json(self, it, url):
            ids = [tuple(int(x) for x in part.split(".")) for part in url.split("id=")[1].split(",")]
            it.ctx.trace.append(("get_json", url, ids))
            if all(a == 2 for a, i in ids):
                reply = {"status": -70402}
            else:
                reply = {"characteristics": [{"aid": a, "iid": i, "value": vals[(a, i)]} if a == 1 else {"aid": a, "iid": i, "status": -70402} for a, i in ids]}
            return Coro(lambda: reply, "get_json")

    p = SObj(IpPairing, label="pairing")
    p.fields.update(connection=Conn(), accessories=_AccModel({}), _ensure_connected=_Noop(), list_accessories_and_characteristics=_Noop())
    it.ctx.ghost.update(vals=vals, req=req)
    return {"self": p, "characteristics": set(req)}


@contract("aiohomekit.controller.ip.pairing:IpPairing.get_characteristics", prop="C13")
class IpGetCharacteristics:
    setup = _ip_get_setup
    raises = {}

    def value_or_status_for_every_requested(req, vals, trace, result):
        """every requested characteristic comes back with the accessory's value (accessory 1) or its error status
        (accessory 2) - a request-wide error never replaces a value the accessory returned; each id is asked
        for exactly once, rendered aid.iid"""
        asked = [k for e in trace if e[0] == "get_json" for k in e[2]]
        return (
            set(result.keys()) == set(req)
            and all(("value" in result[k] and result[k]["value"] == vals[k] and "status" not in result[k]) if k[0] == 1 else result[k]["status"] == -70402 for k in req)
            and sorted(asked) == sorted(req)
            and all(e[1].startswith("/characteristics?id=") for e in trace if e[0] == "get_json")
        )

    ensures = [value_or_status_for_every_requested]


# ------------------------------------------------------------------------------------------------- writes (BLE)

from aiohomekit.controller.ble.pairing import BlePairing  # noqa: E402
from aiohomekit.controller.ble.client import PDUStatusError  # noqa: E402
from aiohomekit.pdu import OpCode as BleOp  # noqa: E402
from contracts.c15_tlv import EncodeList  # noqa: E402,F401

BIDS = [(1, 10), (1, 11), (1, 12)]


class _BleChar(StubObj):
    def __init__(self, perms):
        self.f_perms = perms
        self.f_format = "uint8"
        self.f_iid = 0


def _ble_put_setup(it):
    from aiohomekit.controller.ble import pairing as _bp

    n = 1 + it.ctx.choose([0, 1, 2])
    perms_opts = [["pr", "pw"], ["pw"], ["pr", "tw"], ["pr"]]
    table = {BIDS[j]: _BleChar(perms_opts[it.ctx.choose([0, 1, 2, 3])]) for j in range(n)}
    req = [(BIDS[j][0], BIDS[j][1], it.fresh(Int, f"value{j}")) for j in range(n)]
    rejected_at = it.ctx.choose(["none"] + [str(j) for j in range(n)])
    it.env.stub(_bp.to_bytes, lambda it, char, value: b"\x01")
    writes = []

    class Req(StubObj):
        def sym_call(self, it, opcode, char, payload=None):
            key = next(k for k, c in table.items() if c is char)
            writes.append((key, opcode))
            it.ctx.trace.append(("ble_request", key, opcode))

            def run():
                if rejected_at != "none" and BIDS[int(rejected_at)] == key:
                    it.raise_exc(PDUStatusError, 6, "rejected")
                return b""

            return Coro(run, "_async_request_under_lock")

    p = SObj(BlePairing, label="ble-pairing")
    from pyvc import stubs_asyncio as aio

    p.fields.update(name="ble", rssi=-50, accessories=_AccModel({(1, k[1]): c for k, c in table.items()}), _ble_request_lock=aio.LockStub(),
                    _async_request_under_lock=Req(), _callback_listeners=_Listeners())
    it.ctx.ghost.update(req=req, table=table, rejected_at=rejected_at)
    return {"self": p, "characteristics": req}


@contract("aiohomekit.controller.ble.pairing:BlePairing.put_characteristics", prop="C13")
class BlePutCharacteristics:
    """1..3 characteristics (readable+writable / write-only / timed-write / read-only), the accessory rejecting the
    write of none or of one of them (a rejected BLE write raises; the decorators are not part of this contract)"""

    setup = _ble_put_setup
    raises = {PDUStatusError: True}

    def outcome_per_characteristic(req, table, rejected_at, trace, result):
        return _ble_clause(req, table, rejected_at, trace, result)

    def outcome_per_characteristic_x(req, table, rejected_at, trace):
        return rejected_at != "none" and _ble_clause(req, table, rejected_at, trace, None)

    ensures = [outcome_per_characteristic]
    exsures = [outcome_per_characteristic_x]


def _ble_clause(req, table, rejected_at, trace, result):
    """listeners hear the new value of exactly the readable characteristics whose write request(s) came back
    without error BEFORE the call ended - also when a later one is rejected; a characteristic that is neither
    pw nor tw is never written and is reported with a non-zero read-only status; no accepted one is reported"""
    calls = [e for e in trace if e[0] == "listeners"]
    ok = True
    stop = False
    for j in range(len(req)):
        key = (req[j][0], req[j][1])
        perms = table[key].perms
        writable = "pw" in perms or "tw" in perms
        wrote = [e for e in trace if e[0] == "ble_request" and e[1] == key]
        heard = [c for c in calls if key in c[1]]
        if stop:
            ok = ok and wrote == [] and heard == []
        elif not writable:
            ok = ok and wrote == [] and heard == [] and (result is None or (key in result and result[key]["status"] != 0))
        elif rejected_at == str(j):
            ok = ok and heard == [] and len(wrote) >= 1
            stop = True
        else:
            ok = ok and len(wrote) == (2 if "tw" in perms else 1)
            ok = ok and (len(heard) == (1 if "pr" in perms else 0)) and all(c[1] == {key: {"value": req[j][2]}} for c in heard)
            ok = ok and (result is None or key not in result)
    return ok


# ------------------------------------------------------------------------------------------------- bounded stand-in (IP)


def _native(tier, seed):
    from harness import outcomes

    return outcomes.run(tier, seed, "C13/aiohomekit.controller.ip.pairing:IpPairing#native")


IpGetCharacteristics.bounded_run = staticmethod(_native)
IpGetCharacteristics.bound_note = "real IpPairing reads and writes with scripted replies against a reference model of the property (random request sets and reply shapes); IP transport only"
