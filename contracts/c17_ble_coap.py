"""C17 (continued): BLE PDU write/read on top of the codec, and the CoAP batch codecs."""
import struct

import z3

from pyvc.api import contract, LoopInv, Int, Bool, Bytes, ByteArray, Str, ListOf, TupleOf, EnumOf, implies, forall
from pyvc.values import SObj, SSeq, SBytes, SInt, SEnum, Unsupported
from pyvc.interp import StubObj, Coro
from pyvc.stubs_crypto import AEADObj
from specs.pdu import reasm, conts_ok, sizes_ok, rbody, enc_seq, Frags, dec_all_from, ResList, ResItem, coap_item_len, coap_item_kind
from specs.crypto import seal, open_ok, open_pt
from specs.framing import nonce
from contracts.c17_pdu import EncodePdu, DecodePdu, DecodePduContinuation

from aiohomekit.pdu import OpCode, PDUStatus
from aiohomekit.controller.ble.key import EncryptionKey, DecryptionKey
from aiohomekit.crypto.chacha20poly1305 import ChaCha20Poly1305Encryptor, ChaCha20Poly1305Decryptor
from aiohomekit.exceptions import EncryptionError

# the BLE codec functions are used by contract at these call sites
EncodePdu.modular = True
EncodePdu.returns = Frags
DecodePdu.modular = True
DecodePdu.raises_exact = True
DecodePdu.returns = staticmethod(lambda it, ns: (it.fresh(EnumOf(PDUStatus), "st"), it.fresh(Int, "explen"), it.fresh(Bytes, "first_body")))
DecodePduContinuation.modular = True
DecodePduContinuation.raises_exact = True
DecodePduContinuation.returns = Bytes


class HandleStub(StubObj):
    def __init__(self, it):
        self.f_properties = ["write-without-response"] if it.ctx.choose(["wwr", "with-response"]) == "wwr" else ["write"]


class BleClientStub(StubObj):
    """assumed: read_gatt_char returns whatever the accessory sends next (adversarial bytes); write_gatt_char
    transmits what it is given; determine_fragment_size returns some size >= 8 (HAP minimum MTU 23 - 3 ...)"""

    def __init__(self, it, keyed):
        self.keyed = keyed
        self.f_address = "AA:BB"

    def m_read_gatt_char(self, it, handle):
        r = it.fresh(ByteArray, "gatt_read")
        g = it.ctx.ghost
        g["reads"].term = z3.simplify(z3.Concat(g["reads"].term, z3.Unit(r.term)))
        if not self.keyed:
            g["plain"].term = z3.simplify(z3.Concat(g["plain"].term, z3.Unit(r.term)))
        return Coro(lambda: r, "read_gatt_char")

    def m_write_gatt_char(self, it, handle, data, response):
        g = it.ctx.ghost
        from pyvc import ops

        g["written"].term = z3.simplify(z3.Concat(g["written"].term, z3.Unit(ops.bytes_term(data))))
        g.setdefault("write_flags", []).append(response)
        return Coro(lambda: None, "write_gatt_char")

    def m_determine_fragment_size(self, it, overhead, handle):
        fs = it.fresh(Int, "fragment_size")
        it.ctx.assume(fs.term >= 8)
        it.ctx.ghost["fs"] = fs
        it.ctx.ghost["overhead"] = overhead
        return fs


class DecKeyStub(StubObj):
    """assumed contract of DecryptionKey.decrypt (proved under C06): opens under nonce(counter), then counter+1"""

    def __init__(self, it):
        from pyvc.api import Bytes as B

        self.key = it.fresh(B, "dec_key")
        self.counter = it.fresh(Int, "dec_counter")
        it.ctx.assume(self.counter.term >= 0)
        it.ctx.ghost["dec_ctr0"] = self.counter

    def m_decrypt(self, it, data):
        from pyvc import ops
        from pyvc.stubs_crypto import open_terms
        from cryptography.exceptions import InvalidTag

        n = it.call_function(nonce, [self.counter], {})
        ok, pt = open_terms(it, self.key, n, b"", data)
        if not it.ctx.branch(ok):
            it.raise_exc(InvalidTag)
        self.counter = ops.mk_int(ops.int_term(self.counter) + 1)
        g = it.ctx.ghost
        g["plain"].term = z3.simplify(z3.Concat(g["plain"].term, z3.Unit(pt)))
        g["n_decrypts"] = g.get("n_decrypts", 0) + 1
        return ops.mk_bytes(pt)

    def sym_truth(self, it):
        return True


def _read_setup(it):
    keyed = it.ctx.choose(["plain", "encrypted"]) == "encrypted"
    g = it.ctx.ghost
    g["reads"] = SSeq(z3.Empty(Frags.z3sort()), Bytes, True)
    g["plain"] = SSeq(z3.Empty(Frags.z3sort()), Bytes, True)
    tid = it.fresh(Int, "arg_tid")
    it.ctx.assume(z3.And(tid.term >= 0, tid.term <= 255))
    return {"client": BleClientStub(it, keyed), "decryption_key": DecKeyStub(it) if keyed else None, "handle": HandleStub(it), "tid": tid}


@contract("aiohomekit.controller.ble.client:_read_pdu", prop="C17")
class ReadPdu:
    """for EVERY sequence of fragments the accessory sends (any sizes): the returned body is the first
    fragment's payload followed by the continuation payloads, reading stops exactly when the announced length
    is reached (no fragment left unread, none read too many), one decrypt per fragment"""

    setup = _read_setup
    # wrong tid / missing continuation flag / undefined status; bad tag; a fragment too short for its header
    raises = {ValueError: True, EncryptionError: True, struct.error: True}

    def reassembled(tid, plain, reads, result):
        return (
            len(plain) == len(reads)
            and len(plain) >= 1
            and len(plain[0]) >= 3
            and result[0].value == plain[0][2]
            and result[1] == rbody(plain)
        )

    def complete_and_minimal(plain, result):
        """enough data for the announced length, and not enough before the last fragment was read"""
        first = plain[0]
        return (
            len(first) < 5
            or (
                len(result[1]) >= first[3] + 256 * first[4]
                and (len(plain) == 1 or len(rbody(plain[:-1])) < first[3] + 256 * first[4])
            )
        )

    ensures = [reassembled, complete_and_minimal]

    def inv(tid, plain, reads, data, expected_length, status):
        return (
            len(plain) == len(reads)
            and len(plain) >= 1
            and len(plain[0]) >= 3
            and status.value == plain[0][2]
            and ((len(plain[0]) >= 5 and expected_length == plain[0][3] + 256 * plain[0][4]) or (len(plain[0]) < 5 and expected_length == 0))
            and data == rbody(plain)
            and (len(plain) == 1 or len(rbody(plain[:-1])) < expected_length)
        )

    loops = {0: LoopInv(inv, vars={"ghost.plain": None, "ghost.reads": None})}


class EncKeyStub(StubObj):
    """assumed contract of EncryptionKey.encrypt (proved under C06)"""

    def __init__(self, it):
        self.key = it.fresh(Bytes, "enc_key")
        self.counter = it.fresh(Int, "enc_counter")
        it.ctx.assume(self.counter.term >= 0)
        it.ctx.ghost["enc_ctr0"] = self.counter
        it.ctx.ghost["enc_ctr"] = self.counter
        it.ctx.ghost["enc_key"] = self.key

    def m_encrypt(self, it, data):
        from pyvc import ops
        from pyvc.stubs_crypto import seal_term

        ctr = it.ctx.ghost["enc_ctr"]  # the counter lives in ghost state so that loop havoc covers it
        n = it.call_function(nonce, [ctr], {})
        c = seal_term(it, self.key, n, b"", data)
        it.ctx.ghost["enc_ctr"] = ops.mk_int(ops.int_term(ctr) + 1)
        return ops.mk_bytes(c)

    def sym_truth(self, it):
        return True


def _write_setup(it):
    keyed = it.ctx.choose(["plain", "encrypted"]) == "encrypted"
    g = it.ctx.ghost
    g["written"] = SSeq(z3.Empty(Frags.z3sort()), Bytes, True)
    tid = it.fresh(Int, "arg_tid")
    iid = it.fresh(Int, "arg_iid")
    data = it.fresh(Bytes, "arg_data") if it.ctx.choose(["body", "nobody"]) == "body" else None
    it.ctx.assume(z3.And(tid.term >= 0, tid.term <= 255, iid.term >= 0, iid.term <= 65535))
    if data is not None:
        it.ctx.assume(z3.Length(data.term) <= 65535)
    op = it.fresh(EnumOf(OpCode), "arg_opcode")
    it.ctx.assume(z3.And(op.term >= 1, op.term <= 8))
    g["keyed"] = keyed
    return {
        "client": BleClientStub(it, keyed), "encryption_key": EncKeyStub(it) if keyed else None, "opcode": op,
        "handle": HandleStub(it), "iid": iid, "data": data, "tid": tid,
    }


@contract("aiohomekit.controller.ble.client:_write_pdu", prop="C17")
class WritePdu:
    """what goes on the air is, in order, each fragment of encode_pdu(opcode, tid, iid, data, fragment size for
    the (possibly encrypted) link), sealed one by one under consecutive nonces when a session key is set"""

    setup = _write_setup
    trace_loops_ok = True

    def fragment_size_accounts_for_tag(ghost):
        return ghost["overhead"] == (16 if ghost["keyed"] else 0)

    def on_air(opcode, tid, iid, data, written, ghost, trace):
        calls = [e for e in trace if e[0] == "call" and e[1].endswith("encode_pdu")]
        frs = calls[0][3]
        return (
            len(calls) == 1
            and calls[0][2]["opcode"] == opcode
            and calls[0][2]["tid"] == tid
            and calls[0][2]["iid"] == iid
            and calls[0][2]["data"] == data
            and calls[0][2]["fragment_size"] == ghost["fs"]
            and (written == enc_seq(ghost["enc_key"], ghost["enc_ctr0"], frs, len(frs)) if ghost["keyed"] else written == frs)
        )

    ensures = [fragment_size_accounts_for_tag, on_air]

    def inv_enc(writes, seq, i, ghost):
        return (writes == enc_seq(ghost["enc_key"], ghost["enc_ctr0"], seq, i) and ghost["enc_ctr"] == ghost["enc_ctr0"] + i) if ghost["keyed"] else writes == seq[:i]

    def inv_write(written, seq, i):
        return written == seq[:i]

    loops = {
        0: LoopInv(inv_enc, vars={"writes": Frags, "ghost.enc_ctr": None}),
        1: LoopInv(inv_write, vars={"ghost.written": None}),
    }


# ------------------------------------------------------------------------------------------------- CoAP codecs

from aiohomekit.controller.coap import pdu as cpdu
from pyvc.values import Sort


class _ResItemSort(Sort):
    """a per-item CoAP result as the code represents it: bytes (the body) or a PDUStatus member; boxed as
    (kind, body) with kind -1 for a body"""

    name = "CoapRes"

    def z3sort(self):
        return ResItem.z3sort()

    def box(self, v):
        from pyvc import ops

        if ops.is_byteslike(v):
            return ResItem.box((-1, v))
        if isinstance(v, SEnum):
            return ResItem.box((SInt(v.term), b""))
        if isinstance(v, cpdu.PDUStatus):
            return ResItem.box((int(v.value), b""))
        if isinstance(v, tuple):
            return ResItem.box(v)
        raise Unsupported(f"box CoapRes from {v!r}")

    def unbox(self, t):
        raise Unsupported("reading a symbolic CoAP result item")


CoapRes = _ResItemSort()
CoapResList = ListOf(CoapRes)


@contract("aiohomekit.controller.coap.pdu:encode_pdu", prop="C17")
class CoapEncodePdu:
    params = {"opcode": EnumOf(cpdu.OpCode), "tid": Int, "iid": Int, "data": Bytes}

    def pre(opcode, tid, iid, data):
        return 0 <= opcode.value <= 255 and 0 <= tid <= 255 and 0 <= iid <= 65535 and len(data) <= 65535

    requires = [pre]

    def layout(opcode, tid, iid, data, result):
        return result == bytes([0, opcode.value, tid, iid % 256, iid // 256, len(data) % 256, len(data) // 256]) + data

    ensures = [layout]


@contract("aiohomekit.controller.coap.pdu:decode_pdu", prop="C17", modular=True)
class CoapDecodePdu:
    params = {"expected_tid": Int, "data": Bytes}
    returns = staticmethod(lambda it, ns: (it.fresh(Int, "blen"), it.fresh(Bytes, "item_body") if it.ctx.choose(["ok", "err"]) == "ok" else it.fresh(EnumOf(cpdu.PDUStatus), "item_status")))

    def pre(expected_tid, data):
        """a response item carries at least its 5-byte header and a defined status byte"""
        return 0 <= expected_tid <= 255 and len(data) >= 5 and data[2] <= 6

    requires = [pre]

    def declared_length_always(data, result):
        """whatever the item's outcome, the declared body length is reported (the caller advances by it)"""
        return result[0] == coap_item_len(data)

    def outcome(expected_tid, data, result):
        kind = coap_item_kind(expected_tid, data)
        return (kind == -1 and result[1] == data[5: 5 + coap_item_len(data)]) if isinstance(result[1], bytes) else (
            kind != -1 and result[1].value == kind
        )

    ensures = [declared_length_always, outcome]


def _dec_all_setup(it):
    return {"starting_tid": it.fresh(Int, "arg_start"), "data": it.fresh(Bytes, "arg_data")}


@contract("aiohomekit.controller.coap.pdu:decode_all_pdus", prop="C17")
class CoapDecodeAll:
    """the i-th result is decided by the i-th item alone: its tid must be start+i, and the next item starts
    5 + declared length further on, whatever this item's outcome"""

    setup = _dec_all_setup
    raises = {}

    def pre(starting_tid, data):
        return 0 <= starting_tid and starting_tid + len(data) <= 255 and len(data) >= 5 and well_formed_batch(data)

    requires = [pre]

    def results(starting_tid, data, result):
        return result == dec_all_from(starting_tid, 0, data, 0)

    ensures = [results]

    def inv(starting_tid, data, idx, offset, res):
        return (
            idx >= starting_tid
            and 0 <= offset
            and offset + 5 <= len(data)
            and idx - starting_tid <= offset
            and items_ok_from(data, offset)
            and res + dec_all_from(starting_tid, idx - starting_tid, data, offset) == dec_all_from(starting_tid, 0, data, 0)
        )

    loops = {0: LoopInv(inv, vars={"res": CoapResList})}


from pyvc.api import spec as _spec


@_spec(args=[Bytes, Int], ret=Bool)
def items_ok_from(data, off):
    """the bytes from off on are a concatenation of complete items with defined status bytes"""
    d = data[off:]
    if len(d) < 5:
        return False
    if d[2] > 6:
        return False
    if off + 5 + coap_item_len(d) >= len(data):
        return off + 5 + coap_item_len(d) == len(data)
    return items_ok_from(data, off + 5 + coap_item_len(d))


def well_formed_batch(data):
    return items_ok_from(data, 0)


def _ble_native(tier, seed):
    from harness import ble_pdu

    return ble_pdu.run(tier, seed, "C17/aiohomekit.controller.ble.client#native")


def _ble_replay(env, con, obs):
    r = _ble_native("quick", 0)
    if r["failures"]:
        f = r["failures"][0]
        f.update({"confirmed": True, "source": "native-harness", "key": f["clause"]})
        return f
    return {"confirmed": False, "inputs_tried": r["cases"]}


ReadPdu.bounded_run = staticmethod(_ble_native)
ReadPdu.replay = staticmethod(_ble_replay)
WritePdu.replay = staticmethod(_ble_replay)


def _all_setup(it):
    n = it.ctx.choose([0, 1, 2, 3, 4])
    iids, data = [], []
    for j in range(n):
        i = it.fresh(Int, f"iid{j}")
        it.ctx.assume(z3.And(i.term >= 0, i.term <= 65535))
        d = it.fresh(Bytes, f"data{j}")
        it.ctx.assume(z3.Length(d.term) <= 65535)
        iids.append(i)
        data.append(d)
    return {"opcode": it.fresh(EnumOf(cpdu.OpCode), "opcode"), "iids": iids, "data": data}


@contract("aiohomekit.controller.coap.pdu:encode_all_pdus", prop="C17")
class CoapEncodeAllPdus:
    """a batch request is the PDUs of its items back to back, the j-th with transaction id j (which is how
    decode_all_pdus attributes the replies) - 0..4 items of any content"""

    setup = _all_setup
    raises = {}

    def pre(opcode):
        return 0 <= opcode.value <= 255

    requires = [pre]

    def items_in_order_with_their_index_as_tid(opcode, iids, data, result):
        out = b""
        for j in range(len(iids)):
            out = out + bytes([0, opcode.value, j, iids[j] % 256, iids[j] // 256, len(data[j]) % 256, len(data[j]) // 256]) + data[j]
        return result == out

    ensures = [items_in_order_with_their_index_as_tid]
