"""C08: every request gets its own response or a prompt disconnection error.

Futures live in a ghost heap (fut_state / fut_val / fut_alloc, see pyvc.stubs_asyncio); result_cbs is a list of
references of any length.  Class invariant of the protocol object (assumed on entry of every callback, and the
callbacks are atomic): the references in result_cbs are allocated and pairwise distinct."""
import asyncio
import z3

from pyvc.api import contract, LoopInv, Int, Bool, Bytes, ByteArray, Str, ListOf, TupleOf, Opaque, implies, forall, exists
from pyvc.values import SObj, SSeq, SBytes, SInt, SBool, SArr
from pyvc.interp import StubObj, Coro
from pyvc import stubs_asyncio as aio
from pyvc.stubs_asyncio import FutRef, SymFuture, TransportStub, LoopStub, heap_init, PENDING, RESULT, EXCEPTION, CANCELLED, EXC_TIMEOUT, EXC_DISCONNECTED

from aiohomekit.controller.ip.connection import InsecureHomeKitProtocol, HomeKitConnection
from aiohomekit.exceptions import AccessoryDisconnectedError, HttpErrorResponse
from aiohomekit.http.response import HttpResponse

Futs = ListOf(FutRef)


class ConnStub(StubObj):
    """the owning HomeKitConnection as seen from the protocol object"""

    f_transport = None  # (the connection has already forgotten its transport, or holds this protocol's own)

    def m_event_received(self, it, ev):
        it.ctx.ghost.setdefault("events", []).append(ev)
        it.ctx.trace.append(("event_received", ev))

    def m__connection_lost(self, it, exc):
        it.ctx.trace.append(("connection._connection_lost", exc))


class ResponseStub(StubObj):
    """assumed contract of HttpResponse for this layer (the parser itself: C07): parse returns the unconsumed
    rest (never longer than what it was given); completion and kind are whatever the bytes say"""

    def __init__(self, rid):
        self.rid = rid

    def m_parse(self, it, data):
        rest = it.fresh(Bytes, "rest")
        it.ctx.assume(z3.Length(rest.term) <= z3.Length(ops_bytes(data)))
        self.complete = it.ctx.fresh("complete", z3.BoolSort())
        # an incomplete message has consumed everything it was given
        it.ctx.assume(z3.Implies(z3.Not(self.complete), z3.Length(rest.term) == 0))
        it.ctx.assume(z3.Implies(self.complete, z3.Length(rest.term) < z3.Length(ops_bytes(data))))
        return rest

    def m_is_read_completely(self, it):
        return SBool(self.complete)

    def m_get_http_name(self, it):
        return it.fresh(Str, "http_name")


def ops_bytes(v):
    from pyvc import ops

    return ops.bytes_term(v)


def make_plain_protocol(it, closing=None):
    g = heap_init(it)
    p = SObj(InsecureHomeKitProtocol, label="proto")
    cbs = it.fresh(Futs, "result_cbs")
    t = TransportStub("transport", closing=SBool(it.ctx.fresh("closing", z3.BoolSort())) if closing is None else closing)
    p.fields.update(connection=ConnStub(), result_cbs=cbs, current_response=ResponseStub(0), loop=aio.get_loop(it), transport=t)
    # class invariant: allocated, pairwise distinct references
    n = z3.Length(cbs.term)
    i, j = z3.Ints("ci cj")
    al = g["fut_alloc"].term
    it.ctx.assume(z3.ForAll([i], z3.Implies(z3.And(0 <= i, i < n), z3.And(cbs.term[i] >= 0, cbs.term[i] < al))))
    it.ctx.assume(z3.ForAll([i, j], z3.Implies(z3.And(0 <= i, i < j, j < n), cbs.term[i] != cbs.term[j])))
    return p


# ------------------------------------------------------------------------------------------------- timeouts


def _timeout_setup(it):
    p = make_plain_protocol(it)
    return {"self": p, "fut": FutRef.fresh(it.ctx.fresh, "arg_fut")}


@contract("aiohomekit.controller.ip.connection:InsecureHomeKitProtocol._handle_timeout", prop="C08")
class HandleTimeout:
    setup = _timeout_setup

    def fails_pending_request(old, fut, fut_state, fut_state__old, fut_val):
        """a still-pending request is failed with asyncio.TimeoutError; a done one is left alone; no other future
        is touched"""
        r = fut.ref
        return (
            (fut_state__old[r] != PENDING or (fut_state[r] == EXCEPTION and fut_val[r] == EXC_TIMEOUT))
            and (fut_state__old[r] == PENDING or fut_state[r] == fut_state__old[r])
            and forall(0, 1, lambda k: True)
        )

    ensures = [fails_pending_request]


# ------------------------------------------------------------------------------------------------- fail all


def _cancel_setup(it):
    p = make_plain_protocol(it)
    return {"self": p}


@contract("aiohomekit.controller.ip.connection:InsecureHomeKitProtocol._cancel_pending_requests", prop="C08")
class CancelPending:
    setup = _cancel_setup

    def all_failed(self, old, fut_state, fut_state__old, fut_val):
        """afterwards no request is outstanding: every future that was pending is done with a disconnection
        error, the done ones are unchanged, the queue is empty"""
        return len(self.result_cbs) == 0 and forall(
            0,
            len(old.result_cbs),
            lambda j: (
                fut_state__old[old.result_cbs[j].ref] == PENDING
                and fut_state[old.result_cbs[j].ref] == EXCEPTION
                and fut_val[old.result_cbs[j].ref] == EXC_DISCONNECTED
            )
            or (
                fut_state__old[old.result_cbs[j].ref] != PENDING
                and fut_state[old.result_cbs[j].ref] == fut_state__old[old.result_cbs[j].ref]
            ),
        )

    ensures = [all_failed]

    def inv(self, old, fut_state, fut_state__old, fut_val):
        k = len(old.result_cbs) - len(self.result_cbs)
        return (
            0 <= k
            and k <= len(old.result_cbs)
            and self.result_cbs == old.result_cbs[k:]
            and (len(self.result_cbs) == 0 or self.result_cbs[0].ref == old.result_cbs[k].ref)
            and forall(
                0,
                k,
                lambda j: (
                    fut_state__old[old.result_cbs[j].ref] == PENDING
                    and fut_state[old.result_cbs[j].ref] == EXCEPTION
                    and fut_val[old.result_cbs[j].ref] == EXC_DISCONNECTED
                )
                or (
                    fut_state__old[old.result_cbs[j].ref] != PENDING
                    and fut_state[old.result_cbs[j].ref] == fut_state__old[old.result_cbs[j].ref]
                ),
            )
            and forall(k, len(old.result_cbs), lambda j: fut_state[old.result_cbs[j].ref] == fut_state__old[old.result_cbs[j].ref])
        )

    loops = {0: LoopInv(inv, vars={"ghost.fut_state": None, "ghost.fut_val": None})}


# the callee is under contract above: callers use its contract
CancelPending.modular = True
CancelPending.modifies = ["self.result_cbs", "ghost.fut_state", "ghost.fut_val"]


@contract("aiohomekit.controller.ip.connection:InsecureHomeKitProtocol.connection_lost", prop="C08")
class ConnectionLost:
    def _setup(it):
        return {"self": make_plain_protocol(it), "exception": None}

    setup = _setup

    def all_failed(self, old, fut_state, fut_state__old, fut_val, trace):
        """the owner is told, and every outstanding request fails with a disconnection error"""
        return (
            len(self.result_cbs) == 0
            and any(e[0] == "connection._connection_lost" for e in trace)
            and forall(
                0,
                len(old.result_cbs),
                lambda j: fut_state[old.result_cbs[j].ref] != PENDING
                and (
                    fut_state__old[old.result_cbs[j].ref] != PENDING
                    or (fut_state[old.result_cbs[j].ref] == EXCEPTION and fut_val[old.result_cbs[j].ref] == EXC_DISCONNECTED)
                ),
            )
        )

    ensures = [all_failed]


@contract("aiohomekit.controller.ip.connection:InsecureHomeKitProtocol.eof_received", prop="C08")
class EofReceived(ConnectionLost):
    def all_failed(self, old, fut_state, fut_state__old, fut_val, result):
        return (
            len(self.result_cbs) == 0
            and result is False
            and forall(
                0,
                len(old.result_cbs),
                lambda j: fut_state[old.result_cbs[j].ref] != PENDING
                and (
                    fut_state__old[old.result_cbs[j].ref] != PENDING
                    or (fut_state[old.result_cbs[j].ref] == EXCEPTION and fut_val[old.result_cbs[j].ref] == EXC_DISCONNECTED)
                ),
            )
        )

    def _setup(it):
        return {"self": make_plain_protocol(it)}

    setup = _setup
    ensures = [all_failed]


# ------------------------------------------------------------------------------------------------- dispatch


def _dr_setup(it):
    it.ctx.ghost["events"] = []
    p = make_plain_protocol(it)
    return {"self": p, "data": it.fresh(Bytes, "arg_data")}


@contract("aiohomekit.controller.ip.connection:InsecureHomeKitProtocol.data_received", prop="C08")
class Dispatch:
    """HTTP responses complete the OLDEST outstanding request (FIFO), EVENT messages go to the listener path and
    never consume a request; an unsolicited response or an unknown message kind ends the connection"""

    setup = _dr_setup
    trace_loops_ok = True

    def fifo(self, old, fut_state, fut_state__old):
        """the requests completed by this call are a prefix of the queue, in order; the rest stay queued,
        untouched"""
        k = len(old.result_cbs) - len(self.result_cbs)
        return (
            0 <= k
            and self.result_cbs == old.result_cbs[k:]
            and forall(0, k, lambda j: fut_state[old.result_cbs[j].ref] != PENDING)
            and forall(k, len(old.result_cbs), lambda j: fut_state[old.result_cbs[j].ref] == fut_state__old[old.result_cbs[j].ref])
        )

    ensures = [fifo]
    exsures = [fifo]
    raises = {
        IndexError: True,  # a response nobody asked for: asyncio closes the transport on the exception
        RuntimeError: True,  # neither HTTP nor EVENT
    }

    def inv(self, old, fut_state, fut_state__old):
        k = len(old.result_cbs) - len(self.result_cbs)
        return (
            0 <= k
            and k <= len(old.result_cbs)
            and self.result_cbs == old.result_cbs[k:]
            and (len(self.result_cbs) == 0 or self.result_cbs[0].ref == old.result_cbs[k].ref)
            and forall(0, k, lambda j: fut_state[old.result_cbs[j].ref] != PENDING)
            and forall(k, len(old.result_cbs), lambda j: fut_state[old.result_cbs[j].ref] == fut_state__old[old.result_cbs[j].ref])
        )

    loops = {
        0: LoopInv(
            inv,
            vars={"ghost.fut_state": None, "ghost.fut_val": None, "self.current_response": lambda it: ResponseStub(1)},
        )
    }


# ------------------------------------------------------------------------------------------------- a request


def _await_result(it, fut):
    """environment at `await result`: while the coroutine is parked, callbacks run (atomically): the response
    arrives (set_result by data_received), the 30 s timer fires (_handle_timeout), the connection drops
    (connection_lost), or the caller is cancelled.  The queue and the transport state may have changed."""
    g = it.ctx.ghost
    it.ctx.trace.append(("await", fut))
    self = g["self_obj"]
    # interference: other callbacks ran; havoc what they may write
    self.fields["result_cbs"] = it.fresh(Futs, "result_cbs_after")
    st0 = g["fut_state"].term
    g["fut_state"].term = it.ctx.fresh("fut_state_after", st0.sort())
    g["fut_val"].term = it.ctx.fresh("fut_val_after", st0.sort())
    st = z3.Select(g["fut_state"].term, fut.ref)
    val = z3.Select(g["fut_val"].term, fut.ref)
    # rely: a future only moves pending -> done, and only by the writers under contract in this file
    outcome = it.ctx.choose(["result", "timeout", "disconnected", "cancelled"])
    if outcome == "result":
        it.ctx.assume(st == RESULT)
        r = SObj(HttpResponse, label="response")
        g["awaited_value"] = val
        g["response_obj"] = r
        return r
    if outcome == "timeout":
        it.ctx.assume(z3.And(st == EXCEPTION, val == EXC_TIMEOUT))
        it.ctx.trace.append(("raise_timeout",))  # the 30 s timer fired (its callback failed the future)
        it.raise_exc(asyncio.TimeoutError)
    if outcome == "disconnected":
        it.ctx.assume(z3.And(st == EXCEPTION, val == EXC_DISCONNECTED))
        it.raise_exc(AccessoryDisconnectedError, "Connection closed")
    # cancellation of the awaiting task cancels the future it waits on
    it.ctx.assume(st == CANCELLED)
    it.raise_exc(asyncio.CancelledError)


def _send_setup(it):
    p = make_plain_protocol(it)
    it.ctx.ghost["self_obj"] = p
    return {"self": p, "payload": (it.fresh(Bytes, "arg_payload"),)}


@contract("aiohomekit.controller.ip.connection:InsecureHomeKitProtocol._send_lines", prop="C08")
class SendLines:
    setup = _send_setup
    await_policy = _await_result
    raises = {AccessoryDisconnectedError: True, asyncio.CancelledError: True}

    def refused_when_closing(old, trace):
        """(on every exit) a connection that is closing takes no new request: nothing is enqueued or written"""
        return implies(old.transport.closing0, not any(e[0] in ("create_future", "writelines", "call_at") for e in trace))

    def enqueue_timer_write_atomic(old, payload, trace):
        """future created + enqueued, 30 s timer armed, and the WHOLE request written in one call, with no await
        in between (so responses are matched FIFO)"""
        cf = [i for i in range(len(trace)) if trace[i][0] == "create_future"]
        wl = [i for i in range(len(trace)) if trace[i][0] == "writelines"]
        ca = [i for i in range(len(trace)) if trace[i][0] == "call_at"]
        aw = [i for i in range(len(trace)) if trace[i][0] == "await"]
        return old.transport.closing0 or (
            len(cf) == 1
            and len(wl) == 1
            and len(ca) == 1
            and cf[0] < ca[0] < wl[0]
            and all(a > wl[0] for a in aw)
            and trace[wl[0]][2] == payload
            and trace[ca[0]][1] == trace[ca[0] - 1][1] + 30
            and trace[ca[0] - 1][0] == "loop_time"
            and trace[ca[0]][3][0] == trace[cf[0]][1]
        )

    def returns_own_result(trace, result, ghost):
        """normal return: the value of THIS call's future"""
        cf = [e for e in trace if e[0] == "create_future"]
        aw = [e for e in trace if e[0] == "await"]
        return len(cf) == 1 and len(aw) == 1 and aw[0][1] == cf[0][1] and result is ghost["response_obj"]

    def timer_cancelled(trace):
        cf = [e for e in trace if e[0] == "call_at"]
        return len(cf) == 1 and any(e[0] == "timer_cancel" and e[1] is cf[0][4] for e in trace)

    ensures = [refused_when_closing, enqueue_timer_write_atomic, returns_own_result, timer_cancelled]

    def abandoned(old, trace, exc):
        """every failure after the request was written closes the transport (the connection is abandoned, so a
        late response can never be matched to a later request); a timeout becomes a disconnection error"""
        wrote = any(e[0] == "writelines" for e in trace)
        return implies(wrote, any(e[0] == "transport_close" for e in trace)) and not isinstance(exc, asyncio.TimeoutError)

    def timer_cancelled_unless_fired(trace, exc):
        ca = [e for e in trace if e[0] == "call_at"]
        timed_out = any(e[0] == "raise_timeout" for e in trace)
        return len(ca) == 0 or timed_out or any(e[0] == "timer_cancel" and e[1] is ca[0][4] for e in trace)

    exsures = [refused_when_closing, abandoned, timer_cancelled_unless_fired]


# ------------------------------------------------------------------------------------------------- request()


class ProtoStub(StubObj):
    """the protocol object as seen from HomeKitConnection.request: send_bytes by its contract"""

    def m_send_bytes(self, it, b):
        it.ctx.trace.append(("send_bytes", b))
        code = it.fresh(Int, "resp_code")
        r = SObj(HttpResponse, {"code": code, "body": it.fresh(ByteArray, "resp_body")}, label="resp")
        it.ctx.ghost["resp"] = r
        return Coro(lambda: r, "send_bytes")

    def sym_truth(self, it):
        return True


def make_connection(it, protocol="choose"):
    c = SObj(HomeKitConnection, label="conn")
    if protocol == "choose":
        protocol = ProtoStub() if it.ctx.choose(["connected", "no-protocol"]) == "connected" else None
    c.fields.update(
        protocol=protocol,
        host_header=it.fresh(Str, "host_header"),
        _concurrency_limit=aio.SemaphoreStub(1),
        connected_host=it.fresh(Str, "connected_host"),
        transport=TransportStub("conn-transport"),
        owner=None,
        hosts=[],
        port=80,
    )
    return c


def _request_hook(it, when, what):
    """while waiting for the semaphore other callbacks run: the connection may be lost (protocol := None)"""
    if isinstance(what, aio.SemaphoreStub) and when == "after":
        c = it.ctx.ghost["conn"]
        if c.fields["protocol"] is not None and it.ctx.choose(["still-connected", "lost-meanwhile"]) == "lost-meanwhile":
            c.fields["protocol"] = None
            it.ctx.ghost["lost_meanwhile"] = True


def _request_setup(it):
    c = make_connection(it)
    it.ctx.ghost["conn"] = c
    it.ctx.ghost["lost_meanwhile"] = False
    return {
        "self": c,
        "method": ["GET", "PUT", "POST"][it.ctx.choose([0, 1, 2])],
        "target": it.fresh(Str, "target"),
        "headers": None,
        "body": None,
    }


@contract("aiohomekit.controller.ip.connection:HomeKitConnection.request", prop="C08")
class RequestGuards:
    setup = _request_setup
    await_hook = _request_hook
    raises = {AccessoryDisconnectedError: True, HttpErrorResponse: True}

    def sent_under_semaphore(old, trace, ghost, result):
        """a request is handed to the protocol only while holding the concurrency semaphore, exactly once, and
        the caller gets that request's response"""
        idx = [i for i in range(len(trace)) if trace[i][0] in ("sem_acquire", "send_bytes", "sem_release")]
        return [trace[i][0] for i in idx] == ["sem_acquire", "send_bytes", "sem_release"] and result is ghost["resp"]

    ensures = [sent_under_semaphore]

    def refused_without_protocol(old, trace, ghost, exc):
        """no protocol (at entry, or lost while waiting for the semaphore) => disconnection error, nothing sent;
        an HTTP 4xx answer => HttpErrorResponse carrying that response"""
        sent = any(e[0] == "send_bytes" for e in trace)
        return (
            implies(old.protocol is None or ghost["lost_meanwhile"], isinstance(exc, AccessoryDisconnectedError) and not sent)
            and implies(isinstance(exc, HttpErrorResponse), sent and exc.response is ghost["resp"] and 400 <= ghost["resp"].code <= 499)
            and implies(sent, isinstance(exc, HttpErrorResponse))
        )

    exsures = [refused_without_protocol]

    def no_4xx_returned(result):
        return not (400 <= result.code <= 499)

    ensures = [sent_under_semaphore, no_4xx_returned]


def _native(tier, seed):
    from harness import ip_requests

    return ip_requests.run(tier, seed, "C08/aiohomekit.controller.ip.connection:InsecureHomeKitProtocol#native")


def _native_replay(env, con, obs):
    r = _native("quick", 0)
    if r["failures"]:
        f = r["failures"][0]
        f.update({"confirmed": True, "source": "native-schedule", "key": f["clause"]})
        return f
    return {"confirmed": False, "inputs_tried": r["cases"]}


Dispatch.bounded_run = staticmethod(_native)
for _c in (Dispatch, SendLines, CancelPending, ConnectionLost, EofReceived, HandleTimeout):
    _c.replay = staticmethod(_native_replay)
