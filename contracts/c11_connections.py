"""C11: a pairing never holds more than one open connection and leaks none.

Ghost state `open`: the transports created for this connection object that have not been close()d.
Class invariant I_conn (at every await and exit of the methods below): open is a subset of {self.transport}."""
import asyncio
import z3

from pyvc.api import contract, Int, Bool, Bytes, ByteArray, Str, ListOf, TupleOf, implies
from pyvc.values import SObj, SBool
from pyvc.interp import StubObj, Coro
from pyvc.ctx import RaiseEx
from pyvc import stubs_asyncio as aio
from pyvc.stubs_asyncio import TransportStub, TaskStub

from aiohomekit.controller.ip.connection import HomeKitConnection, SecureHomeKitConnection, InsecureHomeKitProtocol
from aiohomekit.exceptions import (
    AccessoryDisconnectedError, AuthenticationError, IncorrectPairingIdError, InvalidSignatureError, HomeKitException,
    HttpErrorResponse,
)


class OwnerStub(StubObj):
    f_description = None
    f_name = "owner"

    def m_connection_made(self, it, secure):
        it.ctx.trace.append(("owner.connection_made", secure))
        return Coro(lambda: None, "connection_made")

    def sym_truth(self, it):
        return True


def new_transport(it, label):
    t = TransportStub(label)
    it.ctx.ghost.setdefault("open", []).append(t)
    it.ctx.ghost.setdefault("created", []).append(t)
    return t


def make_conn(it, cls=HomeKitConnection, with_transport="choose"):
    it.ctx.ghost.setdefault("open", [])
    it.ctx.ghost.setdefault("created", [])
    c = SObj(cls, label="conn")
    if with_transport == "choose":
        with_transport = it.ctx.choose(["no-transport", "open-transport"]) == "open-transport"
    t = new_transport(it, "T0") if with_transport else None
    c.fields.update(
        owner=OwnerStub(), hosts=["192.0.2.1", "192.0.2.2"], port=80, closing=False, closed=False, transport=t,
        protocol=SObj(InsecureHomeKitProtocol, label="P0") if t is not None else None, _connector=None, is_secure=False,
        _connect_lock=aio.LockStub(), _loop=aio.get_loop(it), _concurrency_limit=aio.SemaphoreStub(1),
        _reconnect_future=None, _last_connector_error=None, connected_host=None, host_header=None,
        _pair_verify_failed_hosts=set(), _retry_interval=0.5, pairing_data={},
    )
    return c


def open_subset_of_current(self, open):
    return all(t is self.transport for t in open)


# ------------------------------------------------------------------------------------------------- _drop_transport


@contract("aiohomekit.controller.ip.connection:HomeKitConnection._drop_transport", prop="C11", modular=True)
class DropTransport:
    def _setup(it):
        return {"self": make_conn(it)}

    setup = _setup

    def dropped(self, open):
        """the transport that was held is closed, and both references are forgotten right away"""
        return self.transport is None and self.protocol is None and len(open) == 0

    ensures = [dropped]

    def effects(it, ns):
        _drop_effect(it, ns["self"])


# used by contract at call sites: implement its effect directly (close + forget)
def _drop_effect(it, c):
    t = c.fields.get("transport")
    if t is not None:
        t.m_close(it)
    c.fields["transport"] = None
    c.fields["protocol"] = None


class _DropStub(StubObj):
    """`self._drop_transport` at call sites, by its contract above"""

    def __init__(self, c):
        self.c = c

    def sym_call(self, it):
        it.ctx.trace.append(("_drop_transport",))
        _drop_effect(it, self.c)


# ------------------------------------------------------------------------------------------------- post_tlv


class _PostStub(StubObj):
    """`self.post(...)` by contract: a response, or an HTTP 4xx error carrying the response, or a disconnect"""

    def sym_call(self, it, target, body, content_type=None):
        from aiohomekit.http.response import HttpResponse

        r = SObj(HttpResponse, {"body": it.fresh(ByteArray, "resp_body"), "code": it.fresh(Int, "code")})
        k = it.ctx.choose(["ok", "http-error", "disconnected"])
        it.ctx.ghost["post_outcome"] = k
        if k == "ok":
            return Coro(lambda: r, "post")
        if k == "http-error":
            e = SObj(HttpErrorResponse, {"args": ("x",), "response": r})

            def boom():
                raise RaiseEx(e)

            return Coro(boom, "post")

        def boom2():
            it.raise_exc(AccessoryDisconnectedError, "Connection closed")

        return Coro(boom2, "post")


from contracts.c15_tlv import DecodeBytes, EncodeList  # noqa: F401,E402
from contracts.c08_requests import CancelPending, make_plain_protocol  # noqa: F401,E402
from aiohomekit.protocol.tlv import TlvParseException  # noqa: E402


@contract("aiohomekit.controller.ip.connection:HomeKitConnection.post_tlv", prop="C11")
class PostTlv:
    def _setup(it):
        c = make_conn(it, with_transport=True)
        c.fields["post"] = _PostStub()
        return {"self": c, "target": "/pair-verify", "body": [(6, b"\x01")], "expected": None}

    setup = _setup
    raises = {AccessoryDisconnectedError: True, TlvParseException: True}

    def http_error_closes(trace, ghost):
        """an HTTP error reply abandons the connection: the transport is closed (the reply is still decoded)"""
        return ghost["post_outcome"] != "http-error" or any(e[0] == "transport_close" for e in trace)

    def invariant(self, open):
        return open_subset_of_current(self, open)

    ensures = [invariant, http_error_closes]
    exsures = [invariant, http_error_closes]


# ------------------------------------------------------------------------------------------------- secure connect


class _BaseConnect(StubObj):
    """`super()._connect_once()` by contract (HomeKitConnection._connect_once, below): on success the object
    holds a NEW open transport and plain protocol; on failure (refused / timeout / cancelled) nothing new is held"""

    def __init__(self, c):
        self.c = c

    def sym_call(self, it):
        k = it.ctx.choose(["connected", "refused", "cancelled"])
        it.ctx.ghost["base_connect"] = k

        def run():
            from aiohomekit.exceptions import ConnectionError as HKConnectionError

            if k == "refused":
                it.raise_exc(HKConnectionError, "refused")
            if k == "cancelled":
                it.raise_exc(asyncio.CancelledError)
            t = new_transport(it, "T-new")
            self.c.fields["transport"] = t
            self.c.fields["protocol"] = SObj(InsecureHomeKitProtocol, {"transport": t}, label="P-new")
            self.c.fields["connected_host"] = "192.0.2.1"
            return None

        return Coro(run, "base._connect_once")


class _StateMachine(StubObj):
    """get_session_keys(...) by contract (C01/C04): it yields at most two requests and then either returns
    (StopIteration carrying (session id, derive)) or raises one of its exception classes"""

    CLASSES = [IncorrectPairingIdError, InvalidSignatureError, AuthenticationError, ValueError]

    def __init__(self, it):
        self.n = 0

    def m_send(self, it, v):
        self.n += 1
        opts = (["yield"] if self.n <= 2 else []) + (["stop"] if self.n >= 2 else []) + [c.__name__ for c in self.CLASSES if self.n >= 2]
        k = it.ctx.choose(opts)
        if k == "yield":
            return ([(6, b"\x01")], [6, 7])
        if k == "stop":
            secret = it.fresh(Bytes, "shared")
            it.ctx.assume(z3.Length(secret.term) == 32)
            e = SObj(StopIteration, {"args": ((b"sid", it.env.crypto["DeriveFn"](secret)),), "value": (b"sid", it.env.crypto["DeriveFn"](secret))})
            raise RaiseEx(e)
        cls = next(c for c in self.CLASSES if c.__name__ == k)
        it.raise_exc(cls, "step 3")


class _PostTlvStub(StubObj):
    """`self.post_tlv` by its contract (PostTlv above): reply, or disconnect/cancel; on an HTTP error the
    transport has been closed"""

    def __init__(self, c):
        self.c = c

    def sym_call(self, it, target, body=None, expected=None):
        k = it.ctx.choose(["reply", "reply-after-http-error", "disconnected", "cancelled"])

        def run():
            if k == "disconnected":
                it.raise_exc(AccessoryDisconnectedError, "Connection closed")
            if k == "cancelled":
                it.raise_exc(asyncio.CancelledError)
            if k == "reply-after-http-error":
                self.c.fields["transport"].m_close(it)
            return [[6, b"\x02"]]

        return Coro(run, "post_tlv")


from aiohomekit.exceptions import ConnectionError as HKConnectionError, TimeoutError as HKTimeoutError  # noqa: E402


@contract("aiohomekit.controller.ip.connection:HomeKitConnection._connect_once", prop="C11", modular=True, assumed=True)
class BaseConnectOnceAssumed:
    """assumed at the call site in the secure subclass: on success the object holds a NEW open transport (created
    by loop.create_connection) and a plain protocol, connected_host/host_header are set and the owner was told;
    on failure (refused, timeout, cancelled) nothing new is held"""

    raises = {HKConnectionError: True, HKTimeoutError: True, asyncio.CancelledError: True}

    def effects(it, ns):
        c = ns["self"]
        t = new_transport(it, "T-new")
        c.fields["transport"] = t
        c.fields["protocol"] = SObj(InsecureHomeKitProtocol, {"transport": t}, label="P-new")
        c.fields["connected_host"] = "192.0.2.1"
        c.fields["host_header"] = "Host: 192.0.2.1"


def _secure_setup(it):
    from aiohomekit import protocol as _p
    from aiohomekit.controller.ip import connection as _c

    c = make_conn(it, SecureHomeKitConnection, with_transport=False)
    c.fields["owner"] = OwnerStub()
    c.fields["post_tlv"] = _PostTlvStub(c)
    c.fields["_drop_transport"] = _DropStub(c)
    it.env.stub(_c.get_session_keys, lambda it, pd, *a, **k: _StateMachine(it))
    it.ctx.ghost["conn"] = c
    return {"self": c}


def _super_hook(it):
    pass


@contract("aiohomekit.controller.ip.connection:SecureHomeKitConnection._connect_once", prop="C11")
class SecureConnectOnce:
    """precondition (established at the call site in _reconnect on every iteration): no open transport is held"""

    setup = _secure_setup
    raises = {HomeKitException: True, asyncio.CancelledError: True, ValueError: True}

    def success_holds_exactly_the_new_one(self, open, created):
        return all(t is self.transport for t in open) and self.transport is created[-1] and self.is_secure is True

    ensures = [success_holds_exactly_the_new_one]

    def failed_setup_is_closed(self, open, exc):
        """whatever way the secure-session setup fails (any exception class of pair-verify, peer close, HTTP
        error, cancellation), the connection opened for it does not stay open"""
        return len(open) == 0

    exsures = [failed_setup_is_closed]


# ------------------------------------------------------------------------------------------------- loss of a connection


class _ConnForProto(StubObj):
    """the owning connection as seen from a protocol object: which transport it holds now"""

    def __init__(self, current):
        self.f_transport = current

    def m__connection_lost(self, it, exc):
        it.ctx.trace.append(("connection._connection_lost", exc))


def _lost_setup(it):
    from contracts.c08_requests import make_plain_protocol

    p = make_plain_protocol(it, closing=True)
    own = p.fields["transport"]
    k = it.ctx.choose(["own-transport-current", "already-forgotten", "stale: another transport is current"])
    cur = own if k.startswith("own") else (None if k.startswith("already") else TransportStub("T-current"))
    p.fields["connection"] = _ConnForProto(cur)
    it.ctx.ghost["case"] = k
    return {"self": p, "exception": None}


@contract("aiohomekit.controller.ip.connection:InsecureHomeKitProtocol.connection_lost", prop="C11")
class StaleLossIsHarmless:
    setup = _lost_setup

    def stale_loss_does_not_touch_the_current_connection(case, trace):
        """the owner is told about the loss only if the lost transport is the one it holds (or it holds none)"""
        told = any(e[0] == "connection._connection_lost" for e in trace)
        return told == (not case.startswith("stale"))

    ensures = [stale_loss_does_not_touch_the_current_connection]


def _cl_setup(it):
    c = make_conn(it)
    c.fields["closing"] = bool(it.ctx.choose([0, 1]))
    c.fields["_start_connector"] = _Recorder("_start_connector")
    c.fields["_drop_transport"] = _DropStub(c)
    return {"self": c, "exception": None}


class _Recorder(StubObj):
    def __init__(self, name):
        self.name = name

    def sym_call(self, it, *a, **k):
        it.ctx.trace.append((self.name,) + tuple(a))


@contract("aiohomekit.controller.ip.connection:HomeKitConnection._connection_lost", prop="C11")
class ConnectionLostHandler:
    setup = _cl_setup

    def dropped_then_reconnect_unless_closing(self, old, open, trace):
        restarted = any(e[0] == "_start_connector" for e in trace)
        return len(open) == 0 and self.transport is None and restarted == (not old.closing) and (self.closed is True) == bool(old.closing)

    ensures = [dropped_then_reconnect_unless_closing]


# ------------------------------------------------------------------------------------------------- close()


def _await_connector(it, fut):
    """awaiting the connector task after cancel(): it ends cancelled, or had already finished normally or with
    ANY exception (authentication failure, an unexpected error ...)"""
    k = it.ctx.choose(["cancelled", "finished", "AuthenticationError", "RuntimeError"])
    it.ctx.ghost["connector_end"] = k
    if k == "cancelled":
        it.raise_exc(asyncio.CancelledError)
    if k == "finished":
        return None
    it.raise_exc(AuthenticationError if k == "AuthenticationError" else RuntimeError, "connector ended")


def _close_setup(it):
    c = make_conn(it)
    k = it.ctx.choose(["no-connector", "connector"])
    if k == "connector":
        c.fields["_connector"] = TaskStub(None, "connector")
    return {"self": c}


@contract("aiohomekit.controller.ip.connection:HomeKitConnection.close", prop="C11")
class Close:
    setup = _close_setup
    await_policy = _await_connector
    raises = {}

    def closes_everything_without_raising(self, open, trace):
        """in EVERY state of the connector (none, running, finished normally, finished with any exception) close()
        returns normally, the held transport is closed and forgotten, and the connection is marked closing"""
        return len(open) == 0 and self.transport is None and self.protocol is None and self.closing is True and self.is_secure is None

    ensures = [closes_everything_without_raising]

    def replay(env, con, obs):
        return _native_replay()

    def bounded_run(tier, seed):
        from harness import ip_lifecycle

        return ip_lifecycle.run(tier, seed, "C11/aiohomekit.controller.ip.connection#native")


def _native_replay():
    from harness import ip_lifecycle

    r = ip_lifecycle.run("quick", 0, "C11/aiohomekit.controller.ip.connection#native")
    if r["failures"]:
        f = r["failures"][0]
        f.update({"confirmed": True, "source": "native-history", "key": f["clause"]})
        return f
    return {"confirmed": False, "inputs_tried": r["cases"]}


SecureConnectOnce.replay = staticmethod(lambda env, con, obs: _native_replay())
StaleLossIsHarmless.replay = staticmethod(lambda env, con, obs: _native_replay())


@contract("aiohomekit.controller.ip.connection:HomeKitConnection._drop_transport", prop="C11")
class DropTransportWhileNotSecure(DropTransport):
    """the same contract on the secure subclass in the state it has DURING pair-verify (transport held,
    is_secure False, so is_connected is False): the held transport must still be closed"""

    def _setup(it):
        c = make_conn(it, SecureHomeKitConnection)
        c.fields["is_secure"] = [False, True, None][it.ctx.choose([0, 1, 2])]
        c.fields["closed"] = bool(it.ctx.choose([0, 1]))
        return {"self": c}

    setup = _setup
    modular = False
    ensures = [DropTransport.dropped]
