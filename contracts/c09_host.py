"""C09 (continued): the Host header names the host of the CURRENT connection - over a history of two connections."""
import z3

from pyvc.api import contract, Int, Bool, Bytes, Str
from pyvc.values import SObj
from pyvc.interp import StubObj, Coro
from pyvc import stubs_asyncio as aio

from aiohomekit.controller.ip import connection as C
from aiohomekit.controller.ip.connection import HomeKitConnection


class _Sock(StubObj):
    def __init__(self, peer):
        self.peer = peer

    def m_getpeername(self, it):
        return (self.peer, 80)

    def m_setsockopt(self, it, *a):
        return None


class _Transport(StubObj):
    def __init__(self):
        self.closed = False

    def m_close(self, it):
        self.closed = True

    def m_is_closing(self, it):
        return self.closed


class _Loop(StubObj):
    def m_create_connection(self, it, factory, sock=None, **kw):
        def run():
            return (_Transport(), it.call(factory, [], {}))

        return Coro(run, "create_connection")


def _setup(it):
    import aiohappyeyeballs

    h1, h2 = it.fresh(Str, "peer1"), it.fresh(Str, "peer2")
    it.ctx.assume(z3.And(z3.Length(h1.term) >= 1, z3.Length(h2.term) >= 1))
    peers = [h1, h2]
    it.ctx.ghost.update(h1=h1, h2=h2, n_connect=[0])

    def start_connection(it_, addr_infos, **kw):
        def run():
            k = it_.ctx.ghost["n_connect"]
            p = peers[min(k[0], 1)]
            k[0] += 1
            return _Sock(p)

        return Coro(run, "start_connection")

    it.env.stub(aiohappyeyeballs.start_connection, start_connection)
    it.env.stub(C._convert_hosts_to_addr_infos, lambda it_, hosts, port: [("family", h) for h in hosts])
    import asyncio

    it.env.stub(asyncio.get_running_loop, lambda it_: _Loop())
    conn = it.instantiate(HomeKitConnection, [None, ["192.0.2.1", "2001:db8::1"], 80], {})
    it.env.assumptions_used.add("aiohappyeyeballs.start_connection / loop.create_connection / socket are stand-ins: a connection attempt yields a socket whose peer name is an arbitrary non-empty string (first connection: peer1, second: peer2)")
    return {"conn": conn}


def host_line(h):
    """IPv6 literals bracketed, no port"""
    return "Host: [" + h + "]" if ":" in h else "Host: " + h


@contract("lemmas.ip_history:connect_twice", prop="C09")
class HostHeaderFollowsTheConnection:
    """for EVERY pair of peer addresses: after each connection the Host header line that requests will carry is the one
    for the host of THAT connection (a reconnect to another address is not answered with the previous address)"""

    setup = _setup
    raises = {}

    def names_the_connected_host(conn, h1, h2, result):
        return result[0] == host_line(h1) and result[1] == host_line(h2) and conn.connected_host == h2

    ensures = [names_the_connected_host]
