"""C18: BLE broadcast notifications are accepted only if authentic and fresh."""
import z3

from pyvc.api import contract, LoopInv, Int, Bool, Bytes, Str, implies, sub
from pyvc.values import SObj, SInt
from pyvc.interp import StubObj, Coro
from pyvc import ops
from specs.broadcast import authentic, opens, plaintext, nonce_of, tag16, mac_data, cut, chacha20, le

from aiohomekit.controller.ble.key import BroadcastDecryptionKey
from aiohomekit.controller.ble.manufacturer_data import HomeKitEncryptedNotification, HomeKitAdvertisement
from aiohomekit.controller.ble.pairing import BlePairing
from aiohomekit.crypto.chacha20poly1305 import ChaCha20Poly1305PartialTag
from aiohomekit.model.characteristics.characteristic_formats import CharacteristicFormats as F

TRUSTED = ["ChaCha20/Poly1305 of the pure-Python package as function symbols; a 4-byte partial tag is unforgeable only up to 2^-32 (not modelled: 'authentic' MEANS the 4 bytes are right)"]


def _key32(it, name):
    k = it.fresh(Bytes, name)
    it.ctx.assume(z3.Length(k.term) == 32)
    return k


# ------------------------------------------------------------------------------------------------- partial-tag open


def _open_setup(it):
    k = _key32(it, "bkey")
    return {"self": SObj(ChaCha20Poly1305PartialTag, {"key": k}), "nonce": it.fresh(Bytes, "nonce"), "combined_text": it.fresh(Bytes, "combined"), "data": it.fresh(Bytes, "aad")}


@contract("aiohomekit.crypto.chacha20poly1305:ChaCha20Poly1305PartialTag.open", prop="C18", modular=True)
class OpenPartialTag:
    """RFC 8439 verification with the tag truncated to the bytes received (4 for a well-formed advertisement): the
    plaintext is returned iff those bytes are a prefix of Poly1305(otk(key, nonce), AAD|pad|ct|pad|len|len); nothing
    is returned (None) otherwise"""

    setup = _open_setup
    trusted = TRUSTED
    returns = staticmethod(lambda it, ns: [None, it.fresh(Bytes, "opened")][it.ctx.choose([0, 1])])

    def wrong_nonce_length(nonce):
        return len(nonce) != 12

    raises = {ValueError: wrong_nonce_length}
    raises_exact = True

    def sizes(combined_text, data):
        return len(combined_text) < 2 ** 64 and len(data) < 2 ** 64

    requires = [sizes]

    def verified_then_decrypted(self, nonce, combined_text, data, result):
        ok = opens(self.key, nonce, data, combined_text)
        return (result is None) == (not ok) and (result is None or result == chacha20(self.key, nonce, 1, cut(combined_text)[0]))

    def length_preserving(combined_text, result):
        return result is None or len(result) == len(cut(combined_text)[0])

    ensures = [verified_then_decrypted, length_preserving]


def _bkey_obj(it):
    k = _key32(it, "bkey")
    it.ctx.ghost["k"] = k
    return SObj(BroadcastDecryptionKey, {"key": SObj(ChaCha20Poly1305PartialTag, {"key": k})})


@contract("aiohomekit.controller.ble.key:BroadcastDecryptionKey.decrypt", prop="C18")
class BroadcastDecrypt:
    """the broadcast key opens under nonce 0000|le64(state number) with the advertising identifier as AAD"""

    params = {"self": _bkey_obj, "data": Bytes, "gsn": Int, "advertising_identifier": Bytes}
    raises = {}

    def pre(data, gsn, advertising_identifier):
        return 0 <= gsn < 2 ** 64 and len(data) < 2 ** 64 and len(advertising_identifier) < 2 ** 64

    requires = [pre]

    def nonce_and_aad(k, data, gsn, advertising_identifier, result):
        ok = opens(k, nonce_of(gsn), advertising_identifier, data)
        return (result is None) == (not ok) and (result is None or result == chacha20(k, nonce_of(gsn), 1, cut(data)[0]))

    ensures = [nonce_and_aad]


@contract("aiohomekit.controller.ble.key:BroadcastDecryptionKey.__init__", prop="C18")
class BroadcastKeyInit:
    params = {"self": lambda it: SObj(BroadcastDecryptionKey), "key": lambda it: _key32(it, "bkey")}

    def holds_the_key(self, key):
        return self.key.key == key

    ensures = [holds_the_key]


# ------------------------------------------------------------------------------------------------- advertisement parsing


@contract("aiohomekit.controller.ble.manufacturer_data:HomeKitEncryptedNotification.from_manufacturer_data", prop="C18")
class ParseNotification:
    """Apple manufacturer data of type 0x11: subtype/length byte, 6-byte advertising identifier, encrypted payload"""

    params = {"cls": lambda it: HomeKitEncryptedNotification, "name": lambda it: "n", "address": lambda it: "aa",
              "manufacturer_data": lambda it: {76: it.fresh(Bytes, "mfr")}}
    raises = {ValueError: True, IndexError: True}

    def slices(manufacturer_data, result):
        d = manufacturer_data[76]
        return (
            d[0] == 0x11
            and result.advertising_identifier == d[2:8]
            and result.encrypted_payload == d[8:]
            and isinstance(result, HomeKitEncryptedNotification)
        )

    ensures = [slices]


# ------------------------------------------------------------------------------------------------- the notification handler

FORMATS = [F.bool, F.uint8, F.uint16, F.uint32, F.uint64, F.int, F.float, F.string, F.data]
KNOWN_IIDS = [10, 11]


class _Char(StubObj):
    def __init__(self, fmt, iid):
        self.f_format = fmt
        self.f_iid = iid


class _Chars(StubObj):
    def __init__(self, chars):
        self.chars = chars

    def m_iid(self, it, iid):
        for c in self.chars:
            if it.ctx.branch(ops.truth_term(ops.mk_bool(ops.sym_eq(iid, c.f_iid)))):
                return c
        # scope of the contract: the characteristic named inside an authentic payload is one the pairing knows (for an
        # unknown id the real code raises AttributeError after advancing the state number - noted in DESIGN, outside
        # the property's quantifier)
        it.env.assumptions_used.add("scope: the instance id inside an authentic broadcast payload is a known characteristic")
        it.ctx.assume(False)


class _Acc(StubObj):
    def __init__(self, chars):
        self.f_characteristics = _Chars(chars)


class _Accs(StubObj):
    def __init__(self, chars):
        self.acc = _Acc(chars)

    def m_aid(self, it, aid):
        return self.acc if aid == 1 else None


class _Listeners(StubObj):
    def sym_call(self, it, update):
        it.ctx.trace.append(("listeners", dict(update)))


class _Fallback(StubObj):
    def sym_call(self, it):
        it.ctx.trace.append(("fallback",))


def _notif_setup(it):
    fmt = F.uint8  # (the handler hands the characteristic to from_bytes, used by contract: its format plays no role here)
    chars = [_Char(fmt, KNOWN_IIDS[0]), _Char(F.bool, KNOWN_IIDS[1])]
    situation = it.ctx.choose(["keyed", "no-key", "no-description"])
    key = _bkey_obj(it) if situation != "no-key" else None
    if key is None:
        it.ctx.ghost["k"] = _key32(it, "bkey")
    S = it.fresh(Int, "S")
    desc = SObj(HomeKitAdvertisement, {"state_num": S}) if situation != "no-description" else None
    p = SObj(BlePairing, label="ble-pairing")
    p.fields.update(name="ble", _broadcast_decryption_key=key, description=desc, accessories=_Accs(chars),
                    _callback_listeners=_Listeners(), _process_disconnected_events=_Fallback(), _accessories_state=None, id="id")
    A = it.fresh(Bytes, "adv_id")
    it.ctx.assume(z3.Length(A.term) == 6)
    P = it.fresh(Bytes, "payload")
    data = SObj(HomeKitEncryptedNotification, {"name": "n", "address": "aa", "id": "id", "advertising_identifier": A, "encrypted_payload": P})
    it.ctx.ghost.update(S=S, A=A, P=P, situation=situation, chars=chars)
    return {"self": p, "data": data}


def cand(S, j):
    """the j-th state number tried: next, current (stale), then next+1 .. current+99"""
    return S + 1 if j == 0 else (S if j == 1 else S + j)


def le16(b, at):
    """the 16-bit little-endian field at `at` as the handler reads it (shorter plaintexts: fewer bytes)"""
    return int.from_bytes(b[at:at + 2], "little")


@contract("aiohomekit.controller.ble.values:from_bytes", prop="C18", modular=True, assumed=True)
class FromBytesUse:
    """(use by contract inside the handler: the value handed to listeners is whatever from_bytes returns for the
    characteristic and the 8 value bytes; FromBytes_<format> below prove what that is)"""

    returns = staticmethod(lambda it, ns: it.fresh(Int, "decoded_value"))
    raises = {}

    def known_characteristic(char):
        return char is not None

    requires = [known_characteristic]


def _cand_inv(self, S, A, P, k, j, trace):
    """before the j-th candidate: nothing was changed or delivered; the next (S + 1) and the current (S) state number,
    which are tried first, did not open (all the clauses below need of the earlier candidates)"""
    return (
        self.description.state_num == S
        and self._accessories_state is None
        and not any(e[0] in ("listeners", "fallback") for e in trace)
        and (j < 1 or not opens(k, nonce_of(S + 1), A, P))
        and (j < 2 or not opens(k, nonce_of(S), A, P))
    )


def _cand_step(S, A, P, j, iter_trace):
    """one iteration = exactly one open, under nonce(0000 | le64(candidate j)) with the advertising id as AAD"""
    o = [e for e in iter_trace if e[0] == "call" and e[1].endswith("PartialTag.open")]
    return len(o) == 1 and o[0][2]["nonce"] == nonce_of(cand(S, j - 1)) and o[0][2]["data"] == A and o[0][2]["combined_text"] == P


@contract("aiohomekit.controller.ble.pairing:BlePairing._async_notification", prop="C18")
class Notification:
    """one advertisement, ANY payload bytes, ANY last accepted state number S (the characteristic named inside an
    authentic payload is one the pairing knows)"""

    setup = _notif_setup
    trusted = TRUSTED
    raises = {}
    max_paths = 4000
    loops = {0: LoopInv(_cand_inv, index="j", inductive=True, step=[_cand_step],
                        vars={"self.description": lambda it: SObj(HomeKitAdvertisement, {"state_num": it.fresh(Int, "h_state_num")}),
                              # (pinned by the invariant: no characteristic cache in this model of the pairing)
                              "self._accessories_state": lambda it: None})}
    # the clauses below read only "listeners"/"fallback"/from_bytes events of the trace; the iterations of the candidate
    # loop that are cut by the invariant produce "call(open)" events only (and the invariant says no listener was called)
    trace_loops_ok = True

    def pre(S, P):
        return 0 <= S < 2 ** 63 and len(P) < 2 ** 32

    requires = [pre]

    def known_iid(self, S, A, P, k, situation, trace):
        """(scope) an authentic fresh payload names a known characteristic"""
        return True

    def accepted_only_if_authentic_and_fresh(self, S, A, P, k, situation, trace, chars):
        """state changes or listeners hear something ONLY IF the payload authenticates (full 4-byte tag, broadcast key,
        this advertising id) under a state number g newer than S (S < g < S + 100), its inner counter equals g, the
        new last-accepted number is g, and listeners hear exactly one update: the decoded value under (1, iid)"""
        calls = [e for e in trace if e[0] == "listeners"]
        if situation != "keyed":
            return len(calls) == 0 and (situation == "no-description" or self.description.state_num == S)
        g = self.description.state_num
        pt = plaintext(k, g, P)
        dec = [e for e in trace if e[0] == "call" and e[1].endswith("from_bytes")]
        if len(calls) == 0:
            return g == S
        return (
            S < g < S + 100
            and authentic(k, g, A, P)
            and le16(pt, 0) == g
            and len(calls) == 1
            and len(dec) == 1
            and dec[0][2]["value"] == pt[4:12]
            and any(c.iid == le16(pt, 2) and dec[0][2]["char"] is c and calls[0][1] == {(1, c.iid): {"value": dec[0][3]}} for c in chars)
        )

    def replay_of_the_current_number_is_ignored(self, S, A, P, k, situation, trace):
        """a payload that opens under S (the notification already accepted) and not under S + 1 changes nothing"""
        return (
            situation != "keyed"
            or not opens(k, nonce_of(S), A, P)
            or opens(k, nonce_of(S + 1), A, P)
            or (self.description.state_num == S and not any(e[0] == "listeners" for e in trace))
        )

    def next_number_is_accepted(self, S, A, P, k, situation, trace):
        """a genuine notification for S + 1 is accepted"""
        pt = plaintext(k, S + 1, P)
        return (
            situation != "keyed"
            or len(P) < 8
            or not authentic(k, S + 1, A, P)
            or le16(pt, 0) != S + 1
            or (self.description.state_num == S + 1 and any(e[0] == "listeners" for e in trace))
        )

    def undecryptable_falls_back_to_polling(self, S, situation, trace):
        """nothing opens (or no key yet): no state change through this path, the disconnected-events poll is asked for"""
        return situation != "no-key" or any(e[0] == "fallback" for e in trace)

    ensures = [accepted_only_if_authentic_and_fresh, replay_of_the_current_number_is_ignored, next_number_is_accepted, undecryptable_falls_back_to_polling]

    # the exploration must reach: an accepted notification, an ignored stale one, the polling fallback
    def cover_accepted(trace):
        return any(e[0] == "listeners" for e in trace)

    def cover_fallback(trace):
        return any(e[0] == "fallback" for e in trace)

    def cover_ignored(self, S, situation, trace):
        return situation == "keyed" and not any(e[0] in ("listeners", "fallback") for e in trace)

    covers = [cover_accepted, cover_fallback, cover_ignored]


# ------------------------------------------------------------------------------------------------- value decoding by format


def ble_value(fmt, v):
    """HAP-BLE value encoding: little-endian, as wide as the format says; `int` is a signed 32-bit integer; bool is
    one byte; the rest of the (zero-padded) 8-byte broadcast value field is ignored"""
    if fmt == F.bool:
        return v[0] != 0
    if fmt == F.uint8:
        return v[0]
    if fmt == F.uint16:
        return v[0] + 256 * v[1]
    if fmt == F.uint32:
        return v[0] + 256 * v[1] + 65536 * v[2] + 16777216 * v[3]
    if fmt == F.uint64:
        return sum(v[j] * 256 ** j for j in range(8))
    u = v[0] + 256 * v[1] + 65536 * v[2] + 16777216 * v[3]
    return u - 2 ** 32 if u >= 2 ** 31 else u


def _mk_from_bytes(fmt):
    def setup(it):
        v = it.fresh(Bytes, "value")
        n = it.ctx.choose(["broadcast-field", "exact-width"])
        width = {F.bool: 1, F.uint8: 1, F.uint16: 2, F.uint32: 4, F.uint64: 8, F.int: 4}[fmt]
        it.ctx.assume(z3.Length(v.term) == (8 if n == "broadcast-field" else width))
        return {"char": _Char(fmt, 10), "value": v}

    @contract("aiohomekit.controller.ble.values:from_bytes", prop="C18")
    class FB:
        """the 8-byte value field of a broadcast (and the exact-width value of a GATT read) decodes to the value the
        format says, for every byte content"""

        raises = {}

        def decoded(char, value, result):
            want = ble_value(char.format, value)
            return result == want and (isinstance(result, bool) if char.format == F.bool else isinstance(result, int))

        ensures = [decoded]

    FB.setup = staticmethod(setup)
    FB.__name__ = f"FromBytes_{fmt.name if hasattr(fmt, 'name') else fmt}"
    return FB


for _f in (F.bool, F.uint8, F.uint16, F.uint32, F.uint64, F.int):
    _mk_from_bytes(_f)


# ------------------------------------------------------------------------------------------------- bounded stand-in / replay


def _native(tier, seed):
    from harness import ble_broadcast

    return ble_broadcast.run(tier, seed, "C18/aiohomekit.controller.ble.controller:BleController._device_detected#native")


def _native_replay(env, con, obs):
    r = _native("quick", 0)
    if r["failures"]:
        f = dict(r["failures"][0])
        f.update({"confirmed": True, "source": "native-harness", "key": f["clause"]})
        return f
    return {"confirmed": False, "inputs_tried": r["cases"]}


Notification.bounded_run = staticmethod(_native)
Notification.bound_note = (
    "HISTORIES of advertisements through the real controller callback (routing by advertising id, restored key and state "
    "number, float/string/data formats) are decided only by this bounded stand-in; the freshness of histories follows "
    "from the per-advertisement contract by induction over the history (DESIGN 8.C18), which is not machine-checked"
)
for _k in list(globals().values()):
    if isinstance(_k, type) and getattr(_k, "prop", None) == "C18" and not getattr(_k, "assumed", False):
        _k.replay = staticmethod(_native_replay)
