"""C15 round trip: lemmas over the specification functions and their composition with the two function contracts."""
import z3

from pyvc.api import contract, Int, Bool, Bytes, ByteArray, ListOf, TupleOf, sub, exists
from specs.tlv import rest_frags, frags, dec_from, dec_ok, DItems


@contract("lemmas.tlv:lemma_dec_rest_frags", prop="C15", modular=True)
class LemmaDecRestFrags:
    params = {"acc": DItems, "k": Int, "v1": Bytes, "v2": Bytes, "rest": Bytes}
    raises = {}

    def pre(k):
        return 0 <= k <= 255

    requires = [pre]

    def appended(acc, k, v1, v2, rest):
        return dec_from(acc + [[k, v1]], rest_frags(k, v2) + rest, []) == dec_from(acc + [[k, v1 + v2]], rest, [])

    ensures = [appended]

    def decreases(v2):
        return len(v2)


@contract("lemmas.tlv:lemma_dec_item", prop="C15", modular=True)
class LemmaDecItem:
    params = {"acc": DItems, "k": Int, "v": Bytes, "rest": Bytes}
    raises = {}

    def pre(acc, k):
        return 0 <= k <= 255 and (len(acc) == 0 or acc[-1][0] != k)

    requires = [pre]

    def one_item(acc, k, v, rest):
        return dec_from(acc, frags(k, v) + rest, []) == dec_from(acc + [[k, v]], rest, [])

    ensures = [one_item]

from specs.tlv import enc_upto, enc_from, as_read, representable, Items


@contract("lemmas.tlv:lemma_enc_eq", prop="C15", modular=True)
class LemmaEncEq:
    params = {"d": Items, "n": Int}
    raises = {}

    def pre(d, n):
        return 0 <= n <= len(d)

    requires = [pre]

    def same_bytes(d, n):
        return enc_upto(d, n) + enc_from(d, n) == enc_from(d, 0)

    ensures = [same_bytes]

    def decreases(n):
        return n


@contract("lemmas.tlv:lemma_round_trip", prop="C15", modular=True)
class LemmaRoundTrip:
    params = {"d": Items, "i": Int}
    raises = {}

    def pre(d, i):
        return 0 <= i <= len(d) and representable(d, i) and (i == 0 or i == len(d) or d[i - 1][0] != d[i][0])

    requires = [pre]

    def items_back(d, i):
        return dec_from(as_read(d, i), enc_from(d, i), []) == as_read(d, len(d))

    ensures = [items_back]

    def decreases(d, i):
        return len(d) - i


def _types_ok(d, i):
    return representable(d, i)


@contract("lemmas.tlv:lemma_ok_rest_frags", prop="C15", modular=True)
class LemmaOkRestFrags:
    params = {"k": Int, "v2": Bytes, "rest": Bytes}
    raises = {}

    def pre(k):
        return 0 <= k <= 255

    requires = [pre]

    def fits(k, v2, rest):
        return dec_ok(rest_frags(k, v2) + rest, []) == dec_ok(rest, [])

    ensures = [fits]

    def decreases(v2):
        return len(v2)


@contract("lemmas.tlv:lemma_ok_item", prop="C15", modular=True)
class LemmaOkItem:
    params = {"k": Int, "v": Bytes, "rest": Bytes}
    raises = {}

    def pre(k):
        return 0 <= k <= 255

    requires = [pre]

    def fits(k, v, rest):
        return dec_ok(frags(k, v) + rest, []) == dec_ok(rest, [])

    ensures = [fits]


@contract("lemmas.tlv:lemma_ok_all", prop="C15", modular=True)
class LemmaOkAll:
    params = {"d": Items, "i": Int}
    raises = {}

    def pre(d, i):
        return 0 <= i <= len(d) and representable(d, i)

    requires = [pre]

    def well_formed(d, i):
        return dec_ok(enc_from(d, i), [])

    ensures = [well_formed]

    def decreases(d, i):
        return len(d) - i


@contract("lemmas.tlv:lemma_round_trip_top", prop="C15", modular=True)
class LemmaRoundTripTop:
    params = {"d": Items}
    raises = {}

    def pre(d):
        return representable(d, 0)

    requires = [pre]

    def dec_enc(d):
        return dec_from([], enc_upto(d, len(d)), []) == as_read(d, len(d)) and dec_ok(enc_upto(d, len(d)), [])

    ensures = [dec_enc]


@contract("lemmas.tlv:real_round_trip", prop="C15")
class RealRoundTrip:
    """TLV.decode_bytearray(TLV.encode_list(d)) returns the items of d, in order, with their values - for EVERY
    representable item list (types 0..254 and empty separators, values of any length, no equal-typed neighbours):
    composition of the two function contracts with the round-trip lemma"""

    params = {"d": Items}
    raises = {}

    def pre(d):
        # (the second conjunct is, literally, "encode_list does not raise": its contract's condition for ValueError)
        return representable(d, 0) and not exists(0, len(d), lambda j: d[j][0] < 0 or d[j][0] > 255 or (d[j][0] == 255 and len(d[j][1]) > 0))

    requires = [pre]

    def items_back(d, result):
        return result == as_read(d, len(d))

    ensures = [items_back]


# ------------------------------------------------------------------------------------------------- bounded stand-in / replay


def _native(tier, seed):
    from harness import tlv_pairing

    return tlv_pairing.run(tier, seed, "C15/aiohomekit.protocol.tlv:TLV#native")


RealRoundTrip.bounded_run = staticmethod(_native)
RealRoundTrip.bound_note = "real encode_list / decode_bytearray / decode_bytes with real byte strings against the independent reference codec (harness/hap_accessory.py), incl. every truncation of three encodings"
