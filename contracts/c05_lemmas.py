"""C05 (continued): lemmas over the framing specification functions."""
import z3

from pyvc.api import contract, Int, Bool, Bytes, sub
from specs.framing import unf_pts, unf_rem, unf_ctr, unf_fail


@contract("lemmas.framing:lemma_unframe_more", prop="C05", modular=True)
class LemmaUnframeMore:
    params = {"key": Bytes, "ctr": Int, "b": Bytes, "x": Bytes}
    raises = {}

    def pre(key, ctr, b):
        return ctr >= 0 and len(key) == 32 and not unf_fail(key, ctr, b)

    requires = [pre]

    def same_as_one_read(key, ctr, b, x):
        c1 = unf_ctr(key, ctr, b)
        r1 = unf_rem(key, ctr, b)
        return (
            unf_pts(key, ctr, b + x) == unf_pts(key, ctr, b) + unf_pts(key, c1, r1 + x)
            and unf_rem(key, ctr, b + x) == unf_rem(key, c1, r1 + x)
            and unf_ctr(key, ctr, b + x) == unf_ctr(key, c1, r1 + x)
            and unf_fail(key, ctr, b + x) == unf_fail(key, c1, r1 + x)
        )

    ensures = [same_as_one_read]

    def decreases(b):
        return len(b)


def configure(env):
    """ideal AEAD (DESIGN 3.3), as instances on the seal terms that occur: what was sealed opens, to the plaintext, and
    the ciphertext is 16 bytes longer"""
    from pyvc import stubs_crypto as sc

    def facts(app):
        k, n, a, p = app.children()
        return z3.And(z3.Length(app) == z3.Length(p) + 16, sc.P_open_ok(k, n, a, app), sc.F_open_pt(k, n, a, app) == p)

    env.add_axiom("seal", facts, sc.TRUSTED)


from specs.framing import frames, nchunks, chunks1024  # noqa: E402


@contract("lemmas.framing:lemma_unframe_frames", prop="C05", modular=True)
class LemmaUnframeFrames:
    params = {"key": Bytes, "ctr": Int, "p": Bytes}
    raises = {}

    def pre(key, ctr):
        return ctr >= 0 and len(key) == 32

    requires = [pre]

    def read_back(key, ctr, p):
        buf = frames(key, ctr, p)
        return (
            unf_pts(key, ctr, buf) == chunks1024(p)
            and len(unf_rem(key, ctr, buf)) == 0
            and unf_ctr(key, ctr, buf) == ctr + nchunks(p)
            and not unf_fail(key, ctr, buf)
        )

    ensures = [read_back]

    def decreases(p):
        return len(p)
