"""C01: pair-verify yields session keys only for the authentic paired accessory."""
from pyvc.api import contract, LoopInv, Int, Bool, Bytes, ByteArray, Str, ListOf, TupleOf, implies
from specs.crypto import hkdf, x25519_pub, x25519_dh, ed_pub, ed_sign, ed_ok, seal, unhex, utf8, utf8dec

from aiohomekit.exceptions import (
    AuthenticationError, BackoffError, BusyError, InvalidError, MaxPeersError, MaxTriesError, UnavailableError,
    IncorrectPairingIdError, InvalidAuthTagError, InvalidSignatureError,
)
from aiohomekit.protocol.tlv import TLV, TlvParseException
from contracts.c15_tlv import DecodeBytes, DecodeBytearray, EncodeList  # noqa: F401  modular contracts at call sites
from contracts.c04_errors import _verify_setup, Reply

N0 = bytes(4)

ALLOWED = [
    AuthenticationError, BackoffError, BusyError, InvalidError, MaxPeersError, MaxTriesError, UnavailableError,
    IncorrectPairingIdError, InvalidAuthTagError, InvalidSignatureError,
    ValueError,  # wrong-length keys rejected by the crypto library; non-hex stored key
    UnicodeDecodeError,  # identifier that is not UTF-8
    TlvParseException,  # authentic but malformed sub-TLV
]


@contract("aiohomekit.protocol:get_session_keys", prop="C01")
class VerifyAuthentic:
    """negative half: for EVERY pair of replies (M2, M4) the state machine returns keys only if ..."""

    setup = _verify_setup
    recv = Reply
    raises = dict.fromkeys(ALLOWED, True)
    trusted = ["symbolic crypto model (DESIGN 3.3)", "utf-8/hex codecs as uninterpreted partial inverses"]

    def fresh_exchange_key(ghost):
        """every call generates its own ephemeral exchange key (never one shared between sessions)"""
        return "x25519_sk" in ghost and len(ghost["x25519_sk"]) == 1

    def m1(yielded, ghost, session_id, derive):
        """first request: fresh exchange key; resume request per the Pair Resume procedure"""
        sk = ghost["x25519_sk"][0] if "x25519_sk" in ghost else b"no fresh exchange key generated in this call"
        pub = x25519_pub(sk)
        fresh = [(6, b"\x01"), (3, pub)]
        return (
            (session_id is None and yielded[0][0] == fresh)
            or (
                session_id is not None
                and (len(session_id) == 0 and yielded[0][0] == fresh)
                or (
                    session_id is not None
                    and len(session_id) > 0
                    and yielded[0][0]
                    == [
                        (6, b"\x01"),
                        (0, b"\x06"),
                        (3, pub),
                        (14, session_id),
                        (5, seal(hkdf(ghost["prev_secret"], pub + session_id, b"Pair-Resume-Request-Info", 32), N0 + b"PR-Msg01", b"", b"")),
                    ]
                )
            )
        )

    def authenticated(pairing_data, received, trace, ghost):
        """a full (non-resumed) success implies: M2's encrypted data opened under the key derived from this
        session's DH secret with nonce PV-Msg02; the identifier inside is the stored one; the signature
        inside verifies under the STORED long-term key over accPK | accID | iosPK of THIS session"""
        sk = ghost["x25519_sk"][0] if "x25519_sk" in ghost else b"no fresh exchange key generated in this call"
        pub = x25519_pub(sk)
        m2 = dict(received[0])
        resumed = len(received) == 1
        enc_key = hkdf(x25519_dh(sk, bytes(m2[3])), b"Pair-Verify-Encrypt-Salt", b"Pair-Verify-Encrypt-Info", 32)
        opens = [e for e in trace if e[0] == "open_ok"]
        decs = [e for e in trace if e[0] == "call" and e[1].endswith("decode_bytes")]
        vers = [e for e in trace if e[0] == "ed_verify_ok"]
        return resumed or (
            3 in m2
            and 5 in m2
            and len(decs) == 1
            and len(vers) == 1
            and any(
                o[1] == enc_key and o[2] == N0 + b"PV-Msg02" and o[3] == b"" and o[4] == m2[5] and decs[0][2]["bs"] == o[5]
                for o in opens
            )
            and 1 in dict(decs[0][3])
            and 10 in dict(decs[0][3])
            and utf8dec(dict(decs[0][3])[1]) == pairing_data["AccessoryPairingID"]
            and vers[0][1] == unhex(pairing_data["AccessoryLTPK"])
            and vers[0][2] == dict(decs[0][3])[10]
            and vers[0][3] == m2[3] + utf8(pairing_data["AccessoryPairingID"]) + pub
        )

    def resumed_knows_secret(received, trace, ghost, session_id, derive, result):
        """the resume shortcut is taken only if the reply says Method=Resume, carries a session id and an
        auth tag that opens (empty plaintext) under the key derived from the PREVIOUS session's secret; the
        new secret is derived from that same secret"""
        sk = ghost["x25519_sk"][0] if "x25519_sk" in ghost else b"no fresh exchange key generated in this call"
        pub = x25519_pub(sk)
        m2 = dict(received[0])
        opens = [e for e in trace if e[0] == "open_ok"]
        return len(received) == 2 or (
            derive is not None
            and 0 in m2
            and int.from_bytes(m2[0], "little") == 6
            and 14 in m2
            and 5 in m2
            and len(opens) == 1
            and opens[0][1] == hkdf(ghost["prev_secret"], pub + m2[14], b"Pair-Resume-Response-Info", 32)
            and opens[0][2] == N0 + b"PR-Msg02"
            and opens[0][3] == b""
            and opens[0][4] == m2[5]
            and opens[0][5] == b""
            and result[0] == m2[14]
            and result[1](b"Control-Salt", b"Control-Write-Encryption-Key")
            == hkdf(
                hkdf(ghost["prev_secret"], pub + m2[14], b"Pair-Resume-Shared-Secret-Info", 32),
                b"Control-Salt",
                b"Control-Write-Encryption-Key",
                32,
            )
        )

    def keys_from_this_exchange(received, ghost, result):
        """full success: derive(salt, info) = HKDF(DH(this session), salt, info) and the resume id label"""
        sk = ghost["x25519_sk"][0] if "x25519_sk" in ghost else b"no fresh exchange key generated in this call"
        m2 = dict(received[0])
        shared = x25519_dh(sk, bytes(m2[3]))
        return len(received) == 1 or (
            result[1](b"Control-Salt", b"Control-Read-Encryption-Key") == hkdf(shared, b"Control-Salt", b"Control-Read-Encryption-Key", 32)
            and result[0] == hkdf(shared, b"Pair-Verify-ResumeSessionID-Salt", b"Pair-Verify-ResumeSessionID-Info", 8)
        )

    def m3(pairing_data, yielded, received, ghost):
        """the controller's proof: M3 = seal(encKey, PV-Msg03, tlv[(Identifier, iosID), (Signature,
        sign(iosLTSK, iosPK | iosID | accPK))])"""
        sk = ghost["x25519_sk"][0] if "x25519_sk" in ghost else b"no fresh exchange key generated in this call"
        pub = x25519_pub(sk)
        m2 = dict(received[0])
        enc_key = hkdf(x25519_dh(sk, bytes(m2[3])), b"Pair-Verify-Encrypt-Salt", b"Pair-Verify-Encrypt-Info", 32)
        ios_id = utf8(pairing_data["iOSPairingId"])
        sig = ed_sign(unhex(pairing_data["iOSDeviceLTSK"]), pub + ios_id + bytes(m2[3]))
        calls = [e for e in ghost["trace"] if e[0] == "call" and e[1].endswith("encode_list")]
        seals = [e for e in ghost["trace"] if e[0] == "seal"]
        return len(received) == 1 or (
            len(yielded) == 2
            and len(yielded[1][0]) == 2
            and yielded[1][0][0] == (6, b"\x03")
            and yielded[1][0][1][0] == 5
            and 6 in yielded[1][1]
            and 7 in yielded[1][1]
            and len(calls) == 1
            and calls[0][2]["d"] == [(1, ios_id), (10, sig)]
            and any(
                e[1] == enc_key
                and e[2] == N0 + b"PV-Msg03"
                and e[3] == b""
                and e[4] == calls[0][3]
                and yielded[1][0][1][1] == seal(e[1], e[2], e[3], e[4])
                for e in seals
            )
        )

    ensures = [fresh_exchange_key, m1, authenticated, resumed_knows_secret, keys_from_this_exchange, m3]

    # -- replay of refuted obligations / labelled bounded stand-in: the scenario table of DESIGN 4/C01 run
    #    against the REAL generator with an independent spec-conformant accessory (harness/hap_accessory.py)
    bound_note = "scenario table: honest (full and resumed) + every adversarial variant of harness.hap_accessory, fresh random keys per run"

    def bounded_run(tier, seed):
        return verify_scenarios(3 if tier == "thorough" else 1)

    def replay(env, con, obs):
        r = verify_scenarios(1)
        if r["failures"]:
            f = r["failures"][0]
            f.update({"confirmed": True, "source": "scenario-table", "key": f["clause"]})
            return f
        return {"confirmed": False, "inputs_tried": r["cases"], "note": "no scenario of the table fails on the real code"}


def verify_scenarios(rounds):
    from harness import hap_accessory as h
    from aiohomekit.protocol import get_session_keys

    tag = "C01/aiohomekit.protocol:get_session_keys#VerifyAuthentic/scenario"
    cases = 0
    failures = []
    for _ in range(rounds):
        for resume in (False, True):
            r = h.run_verify(get_session_keys, "honest", resume=resume)
            cases += 1
            ok = r["outcome"] == "keys" and r.get("keys_match") and (resume or r.get("m3_accepted")) and (not resume or r.get("sid_ok"))
            if not ok:
                failures.append({"clause": f"{tag}.honest{'-resume' if resume else ''}", "scenario": r})
        for v in h.VERIFY_BAD + h.VERIFY_M4_BAD:
            r = h.run_verify(get_session_keys, v)
            cases += 1
            if r["outcome"] != "raised":
                failures.append({"clause": f"{tag}.{v}", "scenario": r, "expected": "an exception and no keys"})
        for v in h.RESUME_BAD:
            r = h.run_verify(get_session_keys, v, resume=True)
            cases += 1
            if r["outcome"] != "raised":
                failures.append({"clause": f"{tag}.{v}", "scenario": r, "expected": "an exception and no keys"})
        r = h.run_verify_replay_across_exchanges(get_session_keys)
        cases += 1
        if r["outcome"] != "raised":
            failures.append({"clause": f"{tag}.{r['variant']}", "scenario": r, "expected": "an exception and no keys"})
    return {"cases": cases, "distinct": 2 + len(h.VERIFY_BAD + h.VERIFY_M4_BAD + h.RESUME_BAD), "failures": failures, "bound": VerifyAuthentic.bound_note}
