"""C10: reconnection keeps trying with bounded back-off and a single connector."""
import asyncio
import z3

from pyvc.api import contract, LoopInv, Int, Bool, Real, Bytes, Str, implies
from pyvc.values import SObj, SBool, SReal
from pyvc.interp import StubObj, Coro
from pyvc.ctx import RaiseEx
from pyvc import stubs_asyncio as aio
from pyvc.stubs_asyncio import TaskStub, FutureStub, LockStub
from contracts.c11_connections import make_conn, OwnerStub

from aiohomekit.controller.ip.connection import HomeKitConnection, SecureHomeKitConnection, ConnectionReady
from aiohomekit.controller.ip import connection as _conn_mod
from aiohomekit.exceptions import (
    AccessoryDisconnectedError, AuthenticationError, IncorrectPairingIdError, InvalidSignatureError, HomeKitException,
)

HOSTS = ["192.0.2.1", "192.0.2.2", "192.0.2.3"]
SUBSETS = [set(), {HOSTS[0]}, {HOSTS[0], HOSTS[1]}, {HOSTS[1]}, set(HOSTS)]


class InterruptCM(StubObj):
    """async_interrupt.interrupt(future, exc_class, msg): when the future resolves while the body is suspended,
    exc_class is raised inside the body"""

    def __init__(self, fut, exc, msg):
        self.fut, self.exc = fut, exc

    def cm_enter(self, it, is_async):
        it.ctx.trace.append(("interrupt_enter", self.fut))
        it.ctx.ghost.setdefault("interrupts", []).append(self)
        return self

    def cm_exit(self, it, exc, is_async):
        it.ctx.ghost["interrupts"].remove(self)
        it.ctx.trace.append(("interrupt_exit", self.fut))
        return False


def _sleep_policy(it, sl):
    """a sleep ends by time, by the surrounding interrupt's future being resolved (reconnect_soon), or by the
    task being cancelled (close())"""
    ints = it.ctx.ghost.get("interrupts", [])
    k = it.ctx.choose(["elapsed"] + (["interrupted"] if ints else []) + ["cancelled"])
    it.ctx.ghost["sleep_end"] = k
    if k == "interrupted":
        it.raise_exc(ints[-1].exc)
    if k == "cancelled":
        it.raise_exc(asyncio.CancelledError)
    return None


class _ConnectOnce(StubObj):
    """_connect_once by contract (C11): success, or one of the exception classes a connection attempt can end
    with; a wrong pairing id may (and normally does) mark the connected address as failed"""

    OUTCOMES = ["success", "AuthenticationError", "IncorrectPairingIdError+marked", "IncorrectPairingIdError", "AccessoryDisconnectedError",
                "InvalidSignatureError", "ValueError", "OSError", "CancelledError"]

    def __init__(self, c):
        self.c = c

    def sym_call(self, it):
        k = it.ctx.choose(self.OUTCOMES)
        it.ctx.trace.append(("connect_once", k))
        c = self.c

        def run():
            if k == "success":
                return None
            if k == "IncorrectPairingIdError+marked":
                failed = c.fields["_pair_verify_failed_hosts"]
                new = [h for h in c.fields["hosts"] if h not in failed]
                if not new:
                    raise __import__("pyvc.ctx", fromlist=["Infeasible"]).Infeasible()
                failed.add(new[0])
                it.raise_exc(IncorrectPairingIdError, "step 3")
            cls = {"AuthenticationError": AuthenticationError, "IncorrectPairingIdError": IncorrectPairingIdError,
                   "AccessoryDisconnectedError": AccessoryDisconnectedError, "InvalidSignatureError": InvalidSignatureError,
                   "ValueError": ValueError, "OSError": OSError, "CancelledError": asyncio.CancelledError}[k]
            it.raise_exc(cls, "attempt failed")

        return Coro(run, "_connect_once")


def _reconnect_setup(it):
    it.env.stub(_conn_mod.interrupt, lambda it, fut, exc, msg: InterruptCM(fut, exc, msg))
    c = make_conn(it, SecureHomeKitConnection, with_transport=False)
    c.fields["hosts"] = list(HOSTS[: 1 + it.ctx.choose([0, 1, 2])])
    c.fields["_pair_verify_failed_hosts"] = set()
    c.fields["_connect_once"] = _ConnectOnce(c)
    c.fields["closing"] = SBool(it.ctx.fresh("closing", z3.BoolSort()))
    c.fields["_connect_lock"] = LockStub(locked=bool(it.ctx.choose([0, 1])))
    it.ctx.ghost["lock_was_held"] = c.fields["_connect_lock"].is_locked
    return {"self": c}


def _arbitrary_failed(it):
    c = it.ctx.ghost["conn"]
    hosts = c.fields["hosts"]
    opts = [s for s in SUBSETS if s <= set(hosts)]
    return set(opts[it.ctx.choose(list(range(len(opts))))])


def _reconnect_setup2(it):
    a = _reconnect_setup(it)
    it.ctx.ghost["conn"] = a["self"]
    return a


@contract("aiohomekit.controller.ip.connection:HomeKitConnection._reconnect", prop="C10")
class Reconnect:
    setup = _reconnect_setup2
    sleep_policy = _sleep_policy
    trace_loops_ok = True
    # only an authentication failure (or cancellation, i.e. close()) ends the retries with an exception
    raises = {AuthenticationError: True, asyncio.CancelledError: True}

    def single(trace, lock_was_held):
        """entered with the lock held: returns at once without any attempt; otherwise every attempt of this
        call lies between the acquire and the release of the connect lock"""
        idx = [i for i in range(len(trace)) if trace[i][0] in ("lock_acquire", "connect_once", "lock_release")]
        kinds = [trace[i][0] for i in idx]
        return (lock_was_held and kinds == []) or (not lock_was_held and kinds[:1] == ["lock_acquire"] and kinds[-1:] == ["lock_release"])

    def future_cleared(self):
        return self._reconnect_future is None

    ensures = [single, future_cleared]
    exsures = [single, future_cleared]

    def inv(self, interval):
        return 0.5 <= interval <= 60 and self._reconnect_future is None and self._connect_lock.is_locked is True

    def one_attempt_then_backoff_or_next_address(self, head, iter_trace, interval, interval__head, failed_host_count):
        """ONE arbitrary iteration that comes back to the loop head made exactly one attempt and then either
        slept once, interruptibly, for min(60, 1.5 x previous) seconds (>= 0.75 s, never shorter than before), or -
        only after a wrong pairing id that newly excluded an address while another address is still eligible -
        went straight to the next attempt"""
        attempts = [e for e in iter_trace if e[0] == "connect_once"]
        sleeps = [e for e in iter_trace if e[0] == "sleep"]
        enters = [i for i in range(len(iter_trace)) if iter_trace[i][0] == "interrupt_enter"]
        sl = [i for i in range(len(iter_trace)) if iter_trace[i][0] == "sleep"]
        exits = [i for i in range(len(iter_trace)) if iter_trace[i][0] == "interrupt_exit"]
        immediate = (
            len(sleeps) == 0
            and attempts[0][1] == "IncorrectPairingIdError+marked"
            and len(self._pair_verify_failed_hosts) > failed_host_count
            and any(h not in self._pair_verify_failed_hosts for h in self.hosts)
            and interval == interval__head
        )
        backoff = (
            len(sleeps) == 1
            and sleeps[0][1] == interval
            and interval == min(60, 1.5 * interval__head)
            and interval >= 0.75
            and interval >= interval__head
            and len(enters) == 1
            and len(exits) == 1
            and enters[0] < sl[0] < exits[0]
            and iter_trace[enters[0]][1] is iter_trace[enters[0] - 1][1]
            and iter_trace[enters[0] - 1][0] == "create_future"
        )
        return len(attempts) == 1 and (immediate or backoff)

    loops = {
        0: LoopInv(
            inv,
            vars={
                "self._pair_verify_failed_hosts": _arbitrary_failed,
                "self._last_connector_error": lambda it: None,
                "self._reconnect_future": lambda it: None,  # (the invariant says it is None at the loop head)
                "failed_host_count": Int,
                "interval": Real,
            },
            step=[one_attempt_then_backoff_or_next_address],
        )
    }


# ------------------------------------------------------------------------------------------------- guards


class _Rec(StubObj):
    def __init__(self, name, result=None):
        self.name, self.result = name, result

    def sym_call(self, it, *a, **k):
        it.ctx.trace.append((self.name,) + tuple(a))
        return self.result


def _conn_state(it, cls=SecureHomeKitConnection):
    """an arbitrary state of the connection object relevant to the connector guards"""
    c = make_conn(it, cls)
    c.fields["is_secure"] = bool(it.ctx.choose([0, 1])) if c.fields["transport"] is not None else False
    c.fields["closing"] = bool(it.ctx.choose([0, 1]))
    k = it.ctx.choose(["no-connector", "connector-running", "connector-done"])
    if k != "no-connector":
        t = TaskStub(None, "connector")
        if k == "connector-done":
            t.state = "result"
        c.fields["_connector"] = t
    it.ctx.ghost["connector_state"] = k
    it.ctx.ghost["connected0"] = c.fields["transport"] is not None and c.fields["is_secure"] is True
    return c


def _sc_setup(it):
    c = _conn_state(it)
    c.fields["_reconnect"] = _Rec("_reconnect()", Coro(lambda: None, "_reconnect"))
    return {"self": c}


@contract("aiohomekit.controller.ip.connection:HomeKitConnection._start_connector", prop="C10")
class StartConnector:
    setup = _sc_setup

    def at_most_one_connector(old, connector_state, connected0, trace):
        """a new connector task is created exactly when none is running and the connection is down"""
        created = len([e for e in trace if e[0] == "create_task"])
        return created == (0 if (connector_state == "connector-running" or connected0) else 1)

    ensures = [at_most_one_connector]


def _rs_setup(it):
    c = _conn_state(it)
    c.fields["_start_connector"] = _Rec("_start_connector")
    k = it.ctx.choose(["no-wait", "waiting", "wait-already-resolved"])
    if k != "no-wait":
        f = FutureStub("reconnect_future")
        if k == "wait-already-resolved":
            f.state = "result"
        c.fields["_reconnect_future"] = f
    it.ctx.ghost["wait"] = k
    return {"self": c}


@contract("aiohomekit.controller.ip.connection:HomeKitConnection.reconnect_soon", prop="C10")
class ReconnectSoon:
    setup = _rs_setup

    def hastens_or_starts(self, wait, connected0, trace):
        """a running back-off wait is ended (the retry happens now); otherwise the connector is started unless
        the connection is up"""
        woke = any(e[0] == "set_result" for e in trace)
        started = any(e[0] == "_start_connector" for e in trace)
        return (wait == "waiting" and woke and not started) or (wait != "waiting" and not woke and started == (not connected0))

    ensures = [hastens_or_starts]


@contract("aiohomekit.controller.ip.connection:HomeKitConnection._start_reconnecting", prop="C10")
class StartReconnecting:
    def _setup(it):
        c = _conn_state(it)
        c.fields["_start_connector"] = _Rec("_start_connector")
        return {"self": c}

    setup = _setup

    def guard(self, connected0, trace, result):
        started = any(e[0] == "_start_connector" for e in trace)
        return result == (not connected0) and started == (not connected0) and implies(not connected0, self.closing is False)

    ensures = [guard]


class _Shield(StubObj):
    pass


def _ec_setup(it):
    c = _conn_state(it)
    t = TaskStub(None, "connector")
    c.fields["_connector"] = t
    c.fields["_start_reconnecting"] = _Rec("_start_reconnecting", bool(it.ctx.choose([0, 1])))
    it.ctx.ghost["task"] = t
    return {"self": c}


def _await_shield(it, fut):
    """the shielded connector ends normally, with the authentication error, or the WAITER is cancelled / timed out
    (which must not cancel the connector)"""
    k = it.ctx.choose(["done", "AuthenticationError", "waiter-cancelled"])
    if k == "AuthenticationError":
        it.raise_exc(AuthenticationError, "step 3")
    if k == "waiter-cancelled":
        it.raise_exc(asyncio.CancelledError)
    return None


@contract("aiohomekit.controller.ip.connection:HomeKitConnection.ensure_connection", prop="C10")
class EnsureConnection:
    setup = _ec_setup
    await_policy = _await_shield
    raises = {AuthenticationError: True, asyncio.CancelledError: True}

    def waits_shielded_never_cancels(task, trace):
        """what is awaited is shield(connector), and the connector task is never cancelled from here"""
        aw = [e for e in trace if e[0] == "await_shield"]
        return all(e[1] is task for e in aw) and not any(e[0] == "task_cancel" for e in trace) and len(aw) <= 1

    ensures = [waits_shielded_never_cancels]
    exsures = [waits_shielded_never_cancels]


def _gch_setup(it):
    c = make_conn(it, SecureHomeKitConnection, with_transport=False)
    n = 1 + it.ctx.choose([0, 1, 2])
    c.fields["hosts"] = list(HOSTS[:n])
    opts = [s for s in SUBSETS if s <= set(HOSTS[:n])] + [{"198.51.100.9"}]
    c.fields["_pair_verify_failed_hosts"] = set(opts[it.ctx.choose(list(range(len(opts))))])
    return {"self": c}


@contract("aiohomekit.controller.ip.connection:HomeKitConnection._get_connect_hosts", prop="C10")
class GetConnectHosts:
    setup = _gch_setup

    def never_empty_never_excluded_forever(self, old, result):
        """non-empty; only advertised addresses; every non-excluded address is tried; if all were excluded the
        exclusions are forgotten and the full list is tried"""
        excluded = old._pair_verify_failed_hosts
        eligible = [h for h in old.hosts if h not in excluded]
        return (
            len(result) >= 1
            and all(h in old.hosts for h in result)
            and all(h in result for h in eligible)
            and (len(eligible) > 0 or (result == old.hosts and len(self._pair_verify_failed_hosts) == 0))
        )

    ensures = [never_empty_never_excluded_forever]


# ------------------------------------------------------------------------------------------------- host change


from contracts.c11_connections import BaseConnectOnceAssumed, _PostTlvStub, _DropStub, _StateMachine  # noqa: E402,F401
from aiohomekit.exceptions import ConnectionError as HKConnectionError, TimeoutError as HKTimeoutError  # noqa: E402


class _Desc(StubObj):
    def __init__(self, addresses, port):
        self.f_addresses, self.f_port = addresses, port

    def sym_truth(self, it):
        return True


class _Owner2(OwnerStub):
    def __init__(self, desc):
        self.f_description = desc


def _hc_setup(it):
    c = make_conn(it, SecureHomeKitConnection, with_transport=False)
    c.fields["hosts"] = [HOSTS[0], HOSTS[1]]
    c.fields["_pair_verify_failed_hosts"] = {HOSTS[0]}
    k = it.ctx.choose(["same", "reordered", "one-replaced", "one-added"])
    adv = {"same": [HOSTS[0], HOSTS[1]], "reordered": [HOSTS[1], HOSTS[0]], "one-replaced": [HOSTS[0], HOSTS[2]], "one-added": list(HOSTS)}[k]
    c.fields["owner"] = _Owner2(_Desc(adv, 80 if it.ctx.choose([0, 1]) else 8080))
    c.fields["post_tlv"] = _PostTlvStub(c)
    c.fields["_drop_transport"] = _DropStub(c)
    it.env.stub(_conn_mod.get_session_keys, lambda it, pd, *a, **k: _StateMachine(it))
    it.ctx.ghost["adv_case"] = k
    it.ctx.ghost["adv"] = adv
    return {"self": c}


@contract("aiohomekit.controller.ip.connection:SecureHomeKitConnection._connect_once", prop="C10")
class HostChangeClearsExclusions:
    setup = _hc_setup
    raises = {HomeKitException: True, asyncio.CancelledError: True, ValueError: True}

    def exclusions(self, adv_case, adv):
        """the advertised address SET decides: unchanged set (in any order) keeps the exclusions - so the next
        immediate retry moves on to another address; a changed set adopts the new list and forgets them"""
        changed = adv_case in ("one-replaced", "one-added")
        return (
            # (cleared; a wrong pairing id on THIS attempt may re-mark the address it connected to, 192.0.2.1)
            (changed and self.hosts == adv and all(h == "192.0.2.1" and self.connected_host == h for h in self._pair_verify_failed_hosts))
            or (not changed and self._pair_verify_failed_hosts == {"192.0.2.1"} and set(self.hosts) == set(adv))
        ) and self.port == self.owner.description.port

    ensures = [exclusions]
    exsures = [exclusions]


# ------------------------------------------------------------------------------------------------- pairing level

from aiohomekit.controller.ip.pairing import IpPairing  # noqa: E402


class _ConnForPairing(StubObj):
    f_hosts = ["192.0.2.1"]
    f_port = 80

    def __init__(self, it):
        self.connected = bool(it.ctx.choose([0, 1]))
        self.f_last_connector_error = None

    @property
    def f_is_connected(self):
        return self.connected

    def m_ensure_connection(self, it):
        it.ctx.trace.append(("ensure_connection",))
        k = it.ctx.choose(["connected", "returns-but-not-connected", "AuthenticationError", "timeout"])
        it.ctx.ghost["ensure"] = k

        def run():
            if k == "connected":
                self.connected = True
                return None
            if k == "returns-but-not-connected":
                return None
            if k == "AuthenticationError":
                it.raise_exc(AuthenticationError, "step 3")
            it.raise_exc(asyncio.TimeoutError)  # the surrounding 10 s timeout fired

        return Coro(run, "ensure_connection")

    def m_reconnect_soon(self, it):
        it.ctx.trace.append(("reconnect_soon",))


def _pairing(it):
    p = SObj(IpPairing, label="pairing")
    p.fields.update(connection=_ConnForPairing(it), _shutdown=bool(it.ctx.choose([0, 1])), _callback_availability_changed=_Rec("_callback_availability_changed"))
    return p


@contract("aiohomekit.controller.ip.pairing:IpPairing._ensure_connected", prop="C10")
class EnsureConnected:
    def _setup(it):
        return {"self": _pairing(it)}

    setup = _setup
    raises = {AccessoryDisconnectedError: True, AuthenticationError: True}

    def connected_or_shut_down(self, old):
        return self._shutdown or self.connection.is_connected

    def bounded_wait(trace):
        """the wait for the connection runs under a 10 s timeout"""
        tos = [i for i in range(len(trace)) if trace[i][0] == "timeout_enter"]
        ens = [i for i in range(len(trace)) if trace[i][0] == "ensure_connection"]
        return len(ens) == 0 or (len(tos) == 1 and trace[tos[0]][1] == 10 and tos[0] < ens[0])

    ensures = [connected_or_shut_down, bounded_wait]

    def translated(ghost, exc):
        """a timed-out wait becomes a disconnection error; the connector's authentication error is passed on"""
        return (ghost["ensure"] == "AuthenticationError") == isinstance(exc, AuthenticationError)

    exsures = [translated, bounded_wait]


class _SuperUpdate(StubObj):
    pass


def _du_setup(it):
    from aiohomekit.zeroconf import ZeroconfPairing

    p = _pairing(it)
    it.env.stub(ZeroconfPairing._async_description_update, lambda it, self, description: it.ctx.trace.append(("super._async_description_update",)))
    return {"self": p, "description": None if it.ctx.choose([0, 1]) == 0 else SObj(object, label="desc")}


@contract("aiohomekit.controller.ip.pairing:IpPairing._async_description_update", prop="C10")
class DescriptionUpdate:
    setup = _du_setup

    def hastens_unless_shut_down(old, trace):
        """a zeroconf update hastens the reconnect - never after shutdown()"""
        return any(e[0] == "reconnect_soon" for e in trace) == (not old._shutdown)

    ensures = [hastens_unless_shut_down]


# ------------------------------------------------------------------------------------------------- bounded stand-in


def _native(tier, seed):
    from harness import ip_lifecycle

    return ip_lifecycle.run_backoff(tier, seed, "C10/aiohomekit.controller.ip.connection:HomeKitConnection._reconnect#native")


Reconnect.bounded_run = staticmethod(_native)
Reconnect.bound_note = "the real connector against the scripted accessory failing pair-verify k times before success: attempts, pauses (1.5 x, from 0.75 s, <= 60 s), single connection"
