"""C04 (continued): add-pairing / remove-pairing replies on IP and BLE.  The accessory's reply is an arbitrary
TLV list; the request is reported as done only if the reply has no Error item and its State is M2 or absent."""
import z3

from pyvc.api import contract, Int, Bool, Bytes, ByteArray, Str, ListOf, TupleOf, implies
from pyvc.values import SObj, SSeq, SymRecDict
from pyvc.interp import StubObj, Coro
from contracts.c04_errors import Reply, class_matches, ERR
from contracts.c15_tlv import DecodeBytes, DecodeBytearray, EncodeList  # noqa: F401

from aiohomekit.controller.ip.pairing import IpPairing
from aiohomekit.controller.ble.pairing import BlePairing
from aiohomekit.exceptions import HomeKitException, InvalidError, AuthenticationError, UnknownError
from aiohomekit.protocol.tlv import TLV, TlvParseException


class _Async(StubObj):
    """an assumed no-op coroutine method (connection management is the subject of C10/C11)"""

    def __init__(self, name):
        self.name = name

    def sym_call(self, it, *a, **k):
        it.ctx.trace.append((self.name,) + tuple(a))
        return Coro(lambda: None, self.name)


class IpConnStub(StubObj):
    def m_post_tlv(self, it, target, body, expected=None):
        r = it.fresh(Reply, "reply")
        it.ctx.ghost["reply"] = r
        it.ctx.ghost["request"] = (target, body)
        return Coro(lambda: r, "post_tlv")


def _ip_pairing(it):
    p = SObj(IpPairing, label="pairing")
    p.fields.update(
        connection=IpConnStub(),
        _ensure_connected=_Async("_ensure_connected"),
        _shutdown_if_primary_pairing_removed=_Async("_shutdown_if_primary_pairing_removed"),
    )
    return p


def reply_ok(reply):
    r = dict(reply)
    return 7 not in r and (6 not in r or r[6] == b"\x02")


class _Common:
    raises = {HomeKitException: True, ValueError: True, RuntimeError: True}

    def done_only_if_accepted(ghost):
        """reported as done (normal return) only for a reply without Error whose State is M2 or absent"""
        return "reply" in ghost and reply_ok(ghost["reply"])

    def failure_is_a_library_error(ghost, exc):
        """an Error item or a wrong State always ends in a library error (never a success, never a stray
        exception class)"""
        return "reply" not in ghost or implies(not reply_ok(ghost["reply"]), isinstance(exc, HomeKitException))


def _ip_add_setup(it):
    return {
        "self": _ip_pairing(it),
        "additional_controller_pairing_identifier": it.fresh(Str, "new_id"),
        "ios_device_ltpk": it.fresh(Str, "new_ltpk"),
        "permissions": ["User", "Admin"][it.ctx.choose([0, 1])],
    }


@contract("aiohomekit.controller.ip.pairing:IpPairing.add_pairing", prop="C04")
class IpAddPairing(_Common):
    setup = _ip_add_setup
    raises = _Common.raises

    def mapped_class(ghost, exc):
        """IP add-pairing uses the pairing error table for the class"""
        return "reply" not in ghost or implies(
            7 in dict(ghost["reply"]) and (6 not in dict(ghost["reply"]) or dict(ghost["reply"])[6] == b"\x02"),
            class_matches(dict(ghost["reply"])[7], exc),
        )

    ensures = [_Common.done_only_if_accepted]
    exsures = [_Common.failure_is_a_library_error, mapped_class]


def _ip_remove_setup(it):
    return {"self": _ip_pairing(it), "pairingId": it.fresh(Str, "pairing_id")}


@contract("aiohomekit.controller.ip.pairing:IpPairing.remove_pairing", prop="C04")
class IpRemovePairing(_Common):
    setup = _ip_remove_setup
    raises = _Common.raises

    def returns_true(result):
        return result is True

    ensures = [_Common.done_only_if_accepted, returns_true]
    exsures = [_Common.failure_is_a_library_error]


# ------------------------------------------------------------------------------------------------- BLE


class _CharStub(StubObj):
    pass


class _Lookup(StubObj):
    """accessories.aid(..).services.first(..)[..] : whatever characteristic object the model holds"""

    def m_aid(self, it, aid):
        return self

    @property
    def f_services(self):
        return self

    def m_first(self, it, **kw):
        return self

    def sym_getitem(self, it, key):
        return _CharStub()


class _BleRequest(StubObj):
    """assumed: _async_request returns the accessory's response body: the outer HAP-BLE TLV whose Value item
    carries the pairing reply (both arbitrary)"""

    def sym_call(self, it, opcode, char, data):
        resp = it.fresh(Bytes, "ble_resp")
        it.ctx.ghost["ble_resp"] = resp
        return Coro(lambda: resp, "_async_request")


def _ble_pairing(it):
    p = SObj(BlePairing, label="ble-pairing")
    p.fields.update(
        name="ble", accessories=_Lookup(), _async_request=_BleRequest(),
        _shutdown_if_primary_pairing_removed=_Async("_shutdown_if_primary_pairing_removed"),
    )
    return p


def ble_reply(trace):
    """the inner pairing reply: the second TLV decode in the method"""
    decs = [e for e in trace if e[0] == "call" and e[1].endswith("decode_bytes")]
    return decs[1][3]


class _BleCommon:
    raises = {HomeKitException: True, ValueError: True, RuntimeError: True, KeyError: True, TlvParseException: True}
    # KeyError / TlvParseException: an outer response without a Value item / a malformed TLV body (HAP-BLE
    # framing errors, not a pairing reply)

    def done_only_if_accepted(trace):
        return reply_ok(ble_reply(trace))

    def failure_is_a_library_error(trace, exc):
        decs = [e for e in trace if e[0] == "call" and e[1].endswith("decode_bytes")]
        return len(decs) < 2 or implies(not reply_ok(decs[1][3]), isinstance(exc, HomeKitException))


def _ble_add_setup(it):
    return {
        "self": _ble_pairing(it),
        "additional_controller_pairing_identifier": it.fresh(Str, "new_id"),
        "ios_device_ltpk": it.fresh(Str, "new_ltpk"),
        "permissions": ["User", "Admin"][it.ctx.choose([0, 1])],
    }


@contract("aiohomekit.controller.ble.pairing:BlePairing.add_pairing", prop="C04")
class BleAddPairing(_BleCommon):
    """(the operation_lock / retry / restore-connection decorators are not part of this contract)"""

    setup = _ble_add_setup
    raises = _BleCommon.raises
    ensures = [_BleCommon.done_only_if_accepted]
    exsures = [_BleCommon.failure_is_a_library_error]


def _ble_remove_setup(it):
    return {"self": _ble_pairing(it), "pairingId": it.fresh(Str, "pairing_id")}


@contract("aiohomekit.controller.ble.pairing:BlePairing.remove_pairing", prop="C04")
class BleRemovePairing(_BleCommon):
    setup = _ble_remove_setup
    raises = _BleCommon.raises

    def returns_true(result):
        return result is True

    ensures = [_BleCommon.done_only_if_accepted, returns_true]
    exsures = [_BleCommon.failure_is_a_library_error]
