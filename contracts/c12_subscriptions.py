"""C12: subscriptions survive reconnects and every event reaches every listener once."""
import asyncio
import z3

from pyvc.api import contract, Int, Bool, Bytes, ByteArray, Str, implies
from pyvc.values import SObj, SBool
from pyvc.interp import StubObj, Coro
from pyvc.ctx import RaiseEx

from aiohomekit.controller.abstract import AbstractPairing
from aiohomekit.controller.ip.pairing import IpPairing
from aiohomekit.controller.ip.connection import HomeKitConnection
from aiohomekit.exceptions import AccessoryDisconnectedError
from aiohomekit.http.response import HttpResponse


class Listener(StubObj):
    """a registered listener: it may raise any Exception (it does not add or remove listeners while being
    called - stated precondition)"""

    def __init__(self, name, raises):
        self.name, self.raises = name, raises
        self.f_name = name

    def sym_call(self, it, event):
        it.ctx.trace.append(("listener", self.name, event))
        if self.raises:
            it.raise_exc(self.raises, "listener failed")


def listeners(it, n=None):
    n = it.ctx.choose([0, 1, 2, 3]) if n is None else n
    out = set()
    for i in range(n):
        out.add(Listener(f"L{i}", [None, ValueError, KeyError][it.ctx.choose([0, 1, 2])]))
    return out


def _cb_setup(it):
    p = SObj(AbstractPairing, label="pairing")
    p.fields["listeners"] = listeners(it)
    return {"self": p, "event": {(1, 10): {"value": it.fresh(Int, "v")}}}


@contract("aiohomekit.controller.abstract:AbstractPairing._callback_listeners", prop="C12")
class CallbackListeners:
    """(bounded in the NUMBER of listeners: 0..3, each raising or not - the loop body is the same per listener)"""

    setup = _cb_setup
    raises = {}

    def every_listener_once(self, event, trace):
        """every registered listener is called exactly once with this event, also after another one raised;
        nothing escapes"""
        calls = [e for e in trace if e[0] == "listener"]
        return len(calls) == len(self.listeners) and all(
            len([c for c in calls if c[1] == l.name and c[2] == event]) == 1 for l in self.listeners
        )

    ensures = [every_listener_once]


# ------------------------------------------------------------------------------------------------- connection_made


class _Sub(StubObj):
    def sym_call(self, it, chars):
        from pyvc.env import snapshot

        it.ctx.trace.append(("subscribe", set(chars)))
        return Coro(lambda: None, "subscribe")


SUBS = [set(), {(1, 10)}, {(1, 10), (2, 20), (1, 11)}]


def _cm_setup(it):
    p = SObj(IpPairing, label="pairing")
    p.fields.update(listeners=listeners(it, 2), subscriptions=set(SUBS[it.ctx.choose([0, 1, 2])]), subscribe=_Sub())
    return {"self": p, "secure": bool(it.ctx.choose([0, 1]))}


@contract("aiohomekit.controller.ip.pairing:IpPairing.connection_made", prop="C12")
class ConnectionMade:
    setup = _cm_setup
    raises = {}

    def back_online(self, secure, trace):
        """after a SECURE (re)connection: every listener hears the empty 'connection is back' event once, then
        ALL recorded subscriptions are requested again; nothing on the plain connection"""
        calls = [e for e in trace if e[0] == "listener"]
        subs = [e for e in trace if e[0] == "subscribe"]
        return (
            (not secure and calls == [] and subs == [])
            or (
                secure
                and len(calls) == len(self.listeners)
                and all(c[2] == {} for c in calls)
                and ((len(self.subscriptions) == 0 and subs == []) or (len(subs) == 1 and subs[0][1] == self.subscriptions))
                and all(trace.index(c) < trace.index(s) for c in calls for s in subs)
            )
        )

    ensures = [back_online]


# ------------------------------------------------------------------------------------------------- subscribe


class _Async(StubObj):
    def __init__(self, name, outcomes):
        self.name, self.outcomes = name, outcomes

    def sym_call(self, it, *a, **k):
        o = self.outcomes[it.ctx.choose(list(range(len(self.outcomes))))]
        p = it.ctx.ghost.get("pairing")
        it.ctx.trace.append((self.name, o, set(p.fields["subscriptions"]) if p is not None else None) + tuple(a))

        def run():
            if o == "disconnected":
                it.raise_exc(AccessoryDisconnectedError, "lost")
            return {} if self.name == "_update_subscriptions" else None

        return Coro(run, self.name)


def _subscribe_setup(it):
    p = SObj(IpPairing, label="pairing")
    p.fields.update(
        subscriptions=set(SUBS[it.ctx.choose([0, 1])]), supports_subscribe=bool(it.ctx.choose([0, 1])),
        _ensure_connected=_Async("_ensure_connected", ["ok", "disconnected"]),
        _update_subscriptions=_Async("_update_subscriptions", ["ok", "disconnected"]),
    )
    it.ctx.ghost["pairing"] = p
    chars = [{(1, 11)}, {(1, 10), (2, 20)}, [(2, 20), (1, 10), (2, 21)]][it.ctx.choose([0, 1, 2])]
    return {"self": p, "characteristics": chars}


@contract("aiohomekit.controller.ip.pairing:IpPairing.subscribe", prop="C12")
class Subscribe:
    setup = _subscribe_setup
    raises = {}

    def intent_recorded_before_any_wait(self, old, characteristics, trace):
        """the wish to be subscribed is recorded before anything can suspend, so a disconnect in the middle does
        not lose it (connection_made re-subscribes from the record)"""
        waits = [e for e in trace if e[0] in ("_ensure_connected", "_update_subscriptions")]
        want = set(old.subscriptions) | set(characteristics)
        return self.subscriptions == want and all(e[2] == want for e in waits)

    def asks_accessory_or_falls_back(self, old, characteristics, trace):
        """when connected and push is supported the accessory is asked to send events for exactly these; if that
        request is cut off by a disconnection the library falls back to polling (supports_subscribe False)"""
        ups = [e for e in trace if e[0] == "_update_subscriptions"]
        ens = [e for e in trace if e[0] == "_ensure_connected"]
        return (
            (not old.supports_subscribe and ups == [] and ens == [])
            or (
                old.supports_subscribe
                and len(ens) == 1
                and ((ens[0][1] == "disconnected" and ups == []) or (len(ups) == 1 and ups[0][3] == characteristics and ups[0][4] is True))
                and self.supports_subscribe == (not (len(ups) == 1 and ups[0][1] == "disconnected"))
            )
        )

    ensures = [intent_recorded_before_any_wait, asks_accessory_or_falls_back]


# ------------------------------------------------------------------------------------------------- the PUTs


class _ConnPut(StubObj):
    def m_put_json(self, it, target, body):
        it.ctx.trace.append(("put_json", target, body))
        k = it.ctx.choose(["accepted", "disconnected"])

        def run():
            if k == "disconnected":
                it.raise_exc(AccessoryDisconnectedError, "lost")
            return {}

        return Coro(run, "put_json")


def _us_setup(it):
    p = SObj(IpPairing, label="pairing")
    p.fields.update(connection=_ConnPut())
    n = 1 + it.ctx.choose([0, 1, 2, 3])
    chars = [(it.fresh(Int, f"aid{i}"), it.fresh(Int, f"iid{i}")) for i in range(n)]
    return {"self": p, "characteristics": chars, "ev": bool(it.ctx.choose([0, 1]))}


@contract("aiohomekit.controller.ip.pairing:IpPairing._update_subscriptions", prop="C12")
class UpdateSubscriptions:
    """(1..4 characteristics with ARBITRARY accessory/instance ids, in any order incl. interleaved accessory ids)"""

    setup = _us_setup
    raises = {AccessoryDisconnectedError: True}

    def every_characteristic_requested_once(characteristics, ev, trace):
        """the PUT payloads, concatenated in order, are exactly one {"aid","iid","ev"} entry per requested
        characteristic (keys in that order), each PUT addresses a single accessory id"""
        puts = [e for e in trace if e[0] == "put_json"]
        entries = [c for e in puts for c in e[2]["characteristics"]]
        return (
            all(e[1] == "/characteristics" and list(e[2].keys()) == ["characteristics"] for e in puts)
            and len(entries) == len(characteristics)
            and all(entries[j] == {"aid": characteristics[j][0], "iid": characteristics[j][1], "ev": ev} for j in range(len(entries)))
            and all(list(c.keys()) == ["aid", "iid", "ev"] for c in entries)
            and all(c["aid"] == e[2]["characteristics"][0]["aid"] for e in puts for c in e[2]["characteristics"])
        )

    ensures = [every_characteristic_requested_once]


# ------------------------------------------------------------------------------------------------- the event path


class _OwnerEv(StubObj):
    def m_event_received(self, it, parsed):
        it.ctx.trace.append(("owner.event_received", parsed))

    def sym_truth(self, it):
        return True


def _ev_setup(it):
    from aiohomekit import hkjson

    def loads(it, s):
        """assumed contract of hkjson.loads: the parsed JSON value, or one of JSON_DECODE_EXCEPTIONS"""
        if it.ctx.choose(["json", "not-json"]) == "not-json":
            it.raise_exc(hkjson.JSON_DECODE_EXCEPTIONS[0], "bad json")
        v = SObj(dict, label="parsed-event")
        it.ctx.ghost["parsed"] = v
        return v

    it.env.stub(hkjson.loads, loads)
    c = SObj(HomeKitConnection, label="conn")
    c.fields["owner"] = _OwnerEv() if it.ctx.choose([0, 1]) else None
    ev = SObj(HttpResponse, {"body": it.fresh(ByteArray, "event_body")})
    return {"self": c, "event": ev}


@contract("aiohomekit.controller.ip.connection:HomeKitConnection.event_received", prop="C12")
class EventReceived:
    setup = _ev_setup
    raises = {}  # nothing may escape into data_received (asyncio would close the connection)

    def delivered_once_or_ignored(self, trace, ghost):
        """a JSON event body is handed to the pairing exactly once; an empty, non-UTF-8 or non-JSON body is
        ignored; nothing raises"""
        d = [e for e in trace if e[0] == "owner.event_received"]
        return len(d) <= 1 and ("parsed" not in ghost or self.owner is None or (len(d) == 1 and d[0][1] is ghost["parsed"]))

    ensures = [delivered_once_or_ignored]


def _us_setup_concrete(it):
    p = SObj(IpPairing, label="pairing")
    p.fields.update(connection=_ConnPut())
    orders = [
        [(1, 10), (1, 11), (2, 20)],
        [(1, 10), (2, 20), (1, 11), (2, 21), (3, 30)],
        [(2, 20), (1, 10), (2, 21), (1, 11)],
        {(1, 10), (2, 20), (1, 11), (3, 30), (2, 21), (3, 31)},
    ]
    return {"self": p, "characteristics": orders[it.ctx.choose([0, 1, 2, 3])], "ev": True}


@contract("aiohomekit.controller.ip.pairing:IpPairing._update_subscriptions", prop="C12")
class UpdateSubscriptionsInterleaved(UpdateSubscriptions):
    """the same contract on representative CONCRETE id sets whose accessory ids interleave (the order a set of
    subscriptions iterates in after a reconnect)"""

    setup = _us_setup_concrete

    def every_characteristic_requested_once(characteristics, ev, trace):
        puts = [e for e in trace if e[0] == "put_json"]
        entries = [c for e in puts for c in e[2]["characteristics"]]
        want = [{"aid": a, "iid": i, "ev": ev} for a, i in characteristics]
        return (
            len(entries) == len(want)
            and all(w in entries for w in want)
            and all(c["aid"] == e[2]["characteristics"][0]["aid"] for e in puts for c in e[2]["characteristics"])
        )

    ensures = [every_characteristic_requested_once]


# ------------------------------------------------------------------------------------------------- bounded stand-in


def _native(tier, seed):
    from harness import listeners

    return listeners.run(tier, seed, "C12/aiohomekit.controller#native")


CallbackListeners.bounded_run = staticmethod(_native)
CallbackListeners.bound_note = "real listener dispatch with raising listeners and real event bodies (valid, empty, non-UTF-8, non-JSON, random bytes)"
