"""C06: no nonce is reused and no encrypted message is accepted twice or out of order.

Per key object the sending counter is the number of seals made under the key and each seal uses
nonce(counter) (so `used = {0 .. counter-1}`); the receiving counter is the number of messages accepted and
each acceptance is an open under nonce(counter) (so `accepted = [0, 1, .., counter-1]`).  With seal injective
in the nonce (ideal AEAD) this is: no nonce reuse, each genuine message accepted at most once, in order."""
import z3

from pyvc.api import contract, LoopInv, Int, Bool, Bytes, ByteArray, Str, ListOf, TupleOf, Opaque, implies
from pyvc.values import SObj, SSeq, SBytes
from pyvc.stubs_crypto import AEADObj
from specs.crypto import seal, open_ok, open_pt
from specs.framing import nonce, frames, nchunks, join, unf_pts, unf_ctr
from contracts import c05_framing as c05

from cryptography.exceptions import InvalidTag
from aiohomekit.controller.ble.key import EncryptionKey, DecryptionKey
from aiohomekit.crypto.chacha20poly1305 import ChaCha20Poly1305Encryptor, ChaCha20Poly1305Decryptor
from aiohomekit.controller.coap.connection import EncryptionContext
from aiohomekit.exceptions import EncryptionError

TRUSTED = ["ideal AEAD: seal injective in (key, nonce, aad, plaintext); open succeeds only on seal outputs (DESIGN 3.3)"]


def _key32(it, name):
    k = it.fresh(Bytes, name)
    it.ctx.assume(z3.Length(k.term) == 32)
    return k


# ------------------------------------------------------------------------------------ BLE session keys


def _enc_key_obj(it):
    k = _key32(it, "ble_key")
    o = SObj(EncryptionKey, {"key": SObj(ChaCha20Poly1305Encryptor, {"chacha": AEADObj(k)}), "counter": it.fresh(Int, "counter")})
    it.ctx.ghost["k"] = k
    return o


def _dec_key_obj(it):
    k = _key32(it, "ble_key")
    o = SObj(DecryptionKey, {"key": SObj(ChaCha20Poly1305Decryptor, {"chacha": AEADObj(k)}), "counter": it.fresh(Int, "counter")})
    it.ctx.ghost["k"] = k
    return o


@contract("aiohomekit.controller.ble.key:EncryptionKey.__init__", prop="C06")
class BleEncInit:
    params = {"self": lambda it: SObj(EncryptionKey), "key": lambda it: _key32(it, "ble_key")}

    def fresh_counter(self, key, trace):
        """a new key object starts at counter 0 and has sealed nothing"""
        return self.counter == 0 and self.key.chacha.key == key and not any(e[0] == "seal" for e in trace)

    ensures = [fresh_counter]


@contract("aiohomekit.controller.ble.key:DecryptionKey.__init__", prop="C06")
class BleDecInit:
    params = {"self": lambda it: SObj(DecryptionKey), "key": lambda it: _key32(it, "ble_key")}

    def fresh_counter(self, key):
        return self.counter == 0 and self.key.chacha.key == key

    ensures = [fresh_counter]


@contract("aiohomekit.controller.ble.key:EncryptionKey.encrypt", prop="C06")
class BleEncrypt:
    params = {"self": _enc_key_obj, "data": Bytes}
    trusted = TRUSTED

    def pre(self):
        return 0 <= self.counter < 2 ** 64 - 1

    requires = [pre]

    def one_seal_under_the_counter_nonce(self, old, data, k, trace, result):
        """exactly one seal, under nonce(old counter) (never used before: used = {0..old-1}); counter + 1"""
        seals = [e for e in trace if e[0] == "seal"]
        return (
            len(seals) == 1
            and seals[0][1] == k
            and seals[0][2] == nonce(old.counter)
            and seals[0][3] == b""
            and seals[0][4] == data
            and result == seal(k, nonce(old.counter), b"", data)
            and self.counter == old.counter + 1
        )

    ensures = [one_seal_under_the_counter_nonce]


@contract("aiohomekit.controller.ble.key:DecryptionKey.decrypt", prop="C06")
class BleDecrypt:
    params = {"self": _dec_key_obj, "data": Bytes}
    trusted = TRUSTED

    def pre(self):
        return 0 <= self.counter < 2 ** 64 - 1

    requires = [pre]

    def accepted_in_order(self, old, data, k, result):
        """accepted only if it opens under nonce(old counter), i.e. it is the counter-th sealed message"""
        return open_ok(k, nonce(old.counter), b"", data) and result == open_pt(k, nonce(old.counter), b"", data) and self.counter == old.counter + 1

    ensures = [accepted_in_order]

    def rejected_leaves_counter(self, old, data, k):
        return not open_ok(k, nonce(old.counter), b"", data) and self.counter == old.counter

    raises = {InvalidTag: rejected_leaves_counter}


# ------------------------------------------------------------------------------------ CoAP context


def _coap_ctx(it):
    ks = {n: _key32(it, n + "_key") for n in ("recv", "send", "event")}
    o = SObj(
        EncryptionContext,
        {
            "recv_ctr": it.fresh(Int, "recv_ctr"), "recv_ctx": AEADObj(ks["recv"]),
            "send_ctr": it.fresh(Int, "send_ctr"), "send_ctx": AEADObj(ks["send"]),
            "event_ctr": it.fresh(Int, "event_ctr"), "event_ctx": AEADObj(ks["event"]),
            "coap_ctx": CoapCtxStub(), "lock": None, "uri": "coap://x/",
        },
    )
    it.ctx.ghost["ks"] = ks
    return o


from pyvc.interp import StubObj, Coro


class CoapCtxStub(StubObj):
    def m_shutdown(self, it):
        it.ctx.trace.append(("coap_shutdown",))
        return Coro(lambda: None, "shutdown")

    def sym_truth(self, it):
        return True


def coap_nonce(ctr):
    return bytes(4) + bytes([(ctr // 256 ** j) % 256 if j else ctr % 256 for j in range(8)])


def _ctr_ok(self):
    return 0 <= self.recv_ctr < 2 ** 63 and 0 <= self.send_ctr < 2 ** 63 and 0 <= self.event_ctr < 2 ** 63


@contract("aiohomekit.controller.coap.connection:EncryptionContext.encrypt", prop="C06")
class CoapEncrypt:
    params = {"self": _coap_ctx, "dec_data": Bytes}
    trusted = TRUSTED
    requires = [_ctr_ok]

    def fresh_nonce(self, old, dec_data, ks, result):
        return (
            result == seal(ks["send"], coap_nonce(old.send_ctr), b"", dec_data)
            and self.send_ctr == old.send_ctr + 1
            and self.recv_ctr == old.recv_ctr
            and self.event_ctr == old.event_ctr
        )

    ensures = [fresh_nonce]


@contract("aiohomekit.controller.coap.connection:EncryptionContext.decrypt", prop="C06")
class CoapDecrypt:
    params = {"self": _coap_ctx, "enc_data": Bytes}
    trusted = TRUSTED
    requires = [_ctr_ok]

    def accepted_in_order(self, old, enc_data, ks, result):
        return open_ok(ks["recv"], coap_nonce(old.recv_ctr), b"", enc_data) and self.recv_ctr == old.recv_ctr + 1 and self.send_ctr == old.send_ctr

    ensures = [accepted_in_order]

    def rejected(self, old, enc_data, ks):
        return not open_ok(ks["recv"], coap_nonce(old.recv_ctr), b"", enc_data) and self.recv_ctr == old.recv_ctr

    raises = {InvalidTag: rejected}


@contract("aiohomekit.controller.coap.connection:EncryptionContext.decrypt_event", prop="C06")
class CoapDecryptEvent:
    params = {"self": _coap_ctx, "enc_data": Bytes}
    trusted = TRUSTED
    requires = [_ctr_ok]

    def accepted_in_order(self, old, enc_data, ks, result):
        return open_ok(ks["event"], coap_nonce(old.event_ctr), b"", enc_data) and self.event_ctr == old.event_ctr + 1 and self.recv_ctr == old.recv_ctr

    ensures = [accepted_in_order]

    def rejected(self, old, enc_data, ks):
        return not open_ok(ks["event"], coap_nonce(old.event_ctr), b"", enc_data) and self.event_ctr == old.event_ctr

    raises = {InvalidTag: rejected}


class MessageStub(StubObj):
    def __init__(self, payload):
        self.f_payload = payload


def _resp_setup(it):
    return {"self": _coap_ctx(it), "response": MessageStub(it.fresh(Bytes, "resp_payload"))}


@contract("aiohomekit.controller.coap.connection:EncryptionContext._decrypt_response", prop="C06")
class CoapDecryptResponse:
    setup = _resp_setup
    trusted = TRUSTED

    def pre(self):
        return 5 <= self.recv_ctr < 2 ** 62 and 0 <= self.send_ctr < 2 ** 62 and 0 <= self.event_ctr < 2 ** 62

    requires = [pre]

    def monotone(self, old):
        """a response is accepted only under a counter value not used for an earlier acceptance: the receive
        counter never moves backwards (else a replay of response n-k would be accepted again)"""
        return self.recv_ctr > old.recv_ctr

    def send_counter_untouched(self, old):
        """receiving never changes the sending counter (else nonce 0.. would be reused under the same key)"""
        return self.send_ctr == old.send_ctr

    ensures = [monotone, send_counter_untouched]

    def send_counter_untouched_x(self, old):
        return self.send_ctr == old.send_ctr or self.coap_ctx is None

    exsures = [send_counter_untouched_x]
    raises = {EncryptionError: True}


# ------------------------------------------------------------------------------------ IP session (see C05)


@contract("aiohomekit.controller.ip.connection:SecureHomeKitProtocol.__init__", prop="C06")
class IpProtoInit:
    """counters are 0 exactly when the protocol object (and with it the key pair) is created"""

    def _setup(it):
        from aiohomekit.controller.ip.connection import SecureHomeKitProtocol

        return {"self": SObj(SecureHomeKitProtocol), "connection": SObj(object), "a2c_key": _key32(it, "a2c"), "c2a_key": _key32(it, "c2a")}

    setup = _setup

    def fresh(self, a2c_key, c2a_key):
        return (
            self.c2a_counter == 0
            and self.a2c_counter == 0
            and self.encryptor.chacha.key == c2a_key
            and self.decryptor.chacha.key == a2c_key
            and len(self._incoming_buffer) == 0
        )

    ensures = [fresh]


@contract("aiohomekit.controller.ip.connection:SecureHomeKitProtocol.send_bytes", prop="C06")
class IpSendNonces(c05.SendBytes):
    """nonces used by one request are nonce(old counter) .. nonce(new counter - 1), each once (by the frame spec)"""

    ensures = [c05.SendBytes.wire_bytes, c05.SendBytes.counter]


@contract("aiohomekit.controller.ip.connection:SecureHomeKitProtocol.data_received", prop="C06")
class IpRecvOrder(c05.DataReceived):
    """the k-th accepted frame is the one that opens under nonce(old counter + k): in order, at most once"""

    ensures = [c05.DataReceived.delivered_plaintexts, c05.DataReceived.counter]


def _coap_replay(env, con, obs):
    from harness import coap_ctx

    tag = "C06/aiohomekit.controller.coap.connection:EncryptionContext._decrypt_response#CoapDecryptResponse"
    r1 = coap_ctx.rewind_replay()
    if r1.get("accepted") and r1["recv_ctr_after"] <= r1["recv_ctr_before"]:
        return {"confirmed": True, "source": "native-history", "clause": f"{tag}/ensures.monotone", "key": "rewind-replay", "history": r1}
    r2 = coap_ctx.zeroing_reuses_nonce()
    if r2.get("accepted") and r2.get("nonce0_used_twice_under_send_key"):
        return {"confirmed": True, "source": "native-history", "clause": f"{tag}/ensures.send_counter_untouched", "key": "zeroing", "history": r2}
    return {"confirmed": False, "inputs_tried": 2}


CoapDecryptResponse.replay = staticmethod(_coap_replay)


# ------------------------------------------------------------------------------------ CoAP request path (post_bytes)

from aiohomekit.exceptions import AccessoryDisconnectedError


class _RequestStub(StubObj):
    """aiocoap: context.request(msg).response is an awaitable that yields a response or raises NetworkError (no route,
    retransmissions exhausted) - or the 16 s timeout around it fires (asyncio.TimeoutError)"""

    def __init__(self, outcome, resp):
        self.outcome, self.resp = outcome, resp

    @property
    def f_response(self):
        outcome, resp = self.outcome, self.resp

        def run():
            if outcome == "network-error":
                from aiocoap.error import NetworkError

                raise_exc(NetworkError)
            if outcome == "timeout":
                import asyncio

                raise_exc(asyncio.TimeoutError)
            return resp

        return Coro(run, "response")


def raise_exc(cls):
    from pyvc.ctx import RaiseEx

    raise RaiseEx(SObj(cls, {"args": ()}))


class _CoapCtxReq(CoapCtxStub):
    def __init__(self, outcome, resp):
        self.outcome, self.resp = outcome, resp

    def m_request(self, it, msg):
        it.ctx.trace.append(("coap_request", msg))
        return _RequestStub(self.outcome, self.resp)


class _Code(StubObj):
    pass


def _post_setup(it):
    import aiohomekit.controller.coap.connection as C

    o = _coap_ctx(it)
    outcome = it.ctx.choose(["network-error", "timeout", "changed", "not-found", "other-code"])
    code = {"changed": C.Code.CHANGED, "not-found": C.Code.NOT_FOUND}.get(outcome, C.Code.CONTENT)
    resp = MessageStub(it.fresh(Bytes, "resp_payload"))
    resp.f_code = code
    from pyvc import stubs_asyncio as aio

    o.fields.update(coap_ctx=_CoapCtxReq(outcome, resp), lock=aio.LockStub())
    it.env.stub(C.Message, lambda it_, **kw: MessageStub(kw.get("payload")))  # (aiocoap message: only the payload matters here)
    it.ctx.ghost["outcome"] = outcome
    return {"self": o, "payload": it.fresh(Bytes, "request_pdu")}


@contract("aiohomekit.controller.coap.connection:EncryptionContext.post_bytes", prop="C06")
class CoapPostBytes:
    """one request = exactly one seal under nonce(send counter), the counter moves on by one and is NOT handed back when
    the request fails; a request that fails in the transport (NetworkError) or times out ends the session (context shut
    down and forgotten), so nothing else is ever sealed under that key"""

    setup = _post_setup
    trusted = TRUSTED
    requires = [_ctr_ok]
    raises = {AccessoryDisconnectedError: True, InvalidTag: True, EncryptionError: True}
    trace_loops_ok = True

    def one_seal_under_the_counter_nonce(self, old, payload, ks, trace):
        seals = [e for e in trace if e[0] == "seal"]
        return len(seals) == 1 and seals[0][1] == ks["send"] and seals[0][2] == coap_nonce(old.send_ctr) and seals[0][4] == payload

    ensures = [one_seal_under_the_counter_nonce]

    def failed_request_burns_the_nonce_and_ends_the_session(self, old, outcome, trace, exc):
        return outcome not in ("network-error", "timeout") or (
            self.send_ctr == old.send_ctr + 1 and self.coap_ctx is None and any(e[0] == "coap_shutdown" for e in trace)
            and len([e for e in trace if e[0] == "seal"]) == 1
        )

    exsures = [failed_request_burns_the_nonce_and_ends_the_session]
