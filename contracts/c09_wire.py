"""C09: requests are written byte-for-byte in the canonical iOS form."""
import z3

from pyvc.api import contract, LoopInv, Int, Bool, Bytes, ByteArray, Str, ListOf, TupleOf, implies
from pyvc.values import SObj, SStr
from pyvc.interp import StubObj, Coro
from pyvc import stubs_asyncio as aio
from specs.crypto import utf8
from contracts.c08_requests import make_connection, ProtoStub, _request_hook

from aiohomekit.controller.ip.connection import HomeKitConnection
from aiohomekit.exceptions import AccessoryDisconnectedError, HttpErrorResponse
from aiohomekit.http import HttpContentTypes


def itoa(n):
    return str(n)


def _req_setup(kind):
    def setup(it):
        c = make_connection(it, protocol=ProtoStub())
        it.ctx.ghost["conn"] = c
        it.ctx.ghost["lost_meanwhile"] = False
        a = {"self": c, "method": ["GET", "PUT", "POST"][it.ctx.choose([0, 1, 2])], "target": it.fresh(Str, "target")}
        if kind == "nobody":
            a["headers"], a["body"] = None, None
        else:
            body = it.fresh(Bytes, "arg_body")
            it.ctx.assume(z3.Length(body.term) > 0)
            a["headers"] = [("Content-Length", it.fresh(Int, "clen")), ("Content-Type", it.fresh(Str, "ctype"))]
            a["body"] = body
        return a

    return setup


class _RequestBytes:
    await_hook = _request_hook
    raises = {AccessoryDisconnectedError: True, HttpErrorResponse: True}

    def one_call(trace):
        """the complete request is handed over in ONE send_bytes call"""
        return len([e for e in trace if e[0] == "send_bytes"]) == 1

    def one_call_x(trace):
        return len([e for e in trace if e[0] == "send_bytes"]) <= 1


@contract("aiohomekit.controller.ip.connection:HomeKitConnection.request", prop="C09")
class RequestNoBody(_RequestBytes):
    setup = _req_setup("nobody")
    await_hook = _request_hook
    raises = _RequestBytes.raises

    def canonical(self, method, target, trace):
        """request line, Host header, blank line - CRLF endings, nothing else"""
        sent = [e for e in trace if e[0] == "send_bytes"]
        return sent[0][1] == utf8(method + " " + target + " HTTP/1.1\r\n" + self.host_header + "\r\n\r\n")

    ensures = [_RequestBytes.one_call, canonical]
    exsures = [_RequestBytes.one_call_x]


@contract("aiohomekit.controller.ip.connection:HomeKitConnection.request", prop="C09")
class RequestWithBody(_RequestBytes):
    setup = _req_setup("body")
    await_hook = _request_hook
    raises = _RequestBytes.raises

    def canonical(self, method, target, headers, body, trace):
        """request line, Host, then the given headers in the given order as 'Name: value', blank line, body"""
        sent = [e for e in trace if e[0] == "send_bytes"]
        return sent[0][1] == utf8(
            method + " " + target + " HTTP/1.1\r\n" + self.host_header + "\r\n"
            + headers[0][0] + ": " + itoa(headers[0][1]) + "\r\n"
            + headers[1][0] + ": " + headers[1][1] + "\r\n\r\n"
        ) + body

    ensures = [_RequestBytes.one_call, canonical]
    exsures = [_RequestBytes.one_call_x]


# ------------------------------------------------------------------------------------------------- get/put/post


class _ReqRecorder(StubObj):
    """`self.request` by contract: records the arguments it is called with"""

    def sym_call(self, it, **kw):
        it.ctx.ghost["request_args"] = kw
        r = SObj(object, label="resp")
        it.ctx.ghost["resp"] = r
        return Coro(lambda: r, "request")


def _verb_setup(verb):
    def setup(it):
        c = SObj(HomeKitConnection, label="conn")
        c.fields["request"] = _ReqRecorder()
        a = {"self": c, "target": it.fresh(Str, "target")}
        if verb != "get":
            a["body"] = it.fresh(Bytes, "arg_body")
            a["content_type"] = [HttpContentTypes.JSON, HttpContentTypes.TLV][it.ctx.choose([0, 1])]
        return a

    return setup


@contract("aiohomekit.controller.ip.connection:HomeKitConnection.get", prop="C09")
class Get:
    setup = _verb_setup("get")

    def no_headers_no_body(target, ghost, result):
        a = ghost["request_args"]
        return a["method"] == "GET" and a["target"] == target and a.get("headers") is None and a.get("body") is None and result is ghost["resp"]

    ensures = [no_headers_no_body]


class _PutPost:
    def headers_in_order(target, body, content_type, ghost, result):
        """exactly Content-Length (the body's length) then Content-Type, in that order"""
        a = ghost["request_args"]
        return (
            a["target"] == target
            and a["body"] == body
            and len(a["headers"]) == 2
            and a["headers"][0] == ("Content-Length", len(body))
            and a["headers"][1] == ("Content-Type", content_type.value)
            and result is ghost["resp"]
        )


@contract("aiohomekit.controller.ip.connection:HomeKitConnection.put", prop="C09")
class Put(_PutPost):
    setup = _verb_setup("put")

    def method(ghost):
        return ghost["request_args"]["method"] == "PUT"

    ensures = [_PutPost.headers_in_order, method]


@contract("aiohomekit.controller.ip.connection:HomeKitConnection.post", prop="C09")
class Post(_PutPost):
    setup = _verb_setup("post")

    def method(ghost):
        return ghost["request_args"]["method"] == "POST"

    ensures = [_PutPost.headers_in_order, method]


# ------------------------------------------------------------------------------------------------- JSON encoder

import json as _json

import orjson

from aiohomekit import hkjson
from pyvc.api import Opaque


def _install_json_stubs(it):
    env = it.env
    if getattr(env, "_json_stubs", False):
        return
    env._json_stubs = True

    def orjson_dumps(it, data, default=None, option=None):
        """assumed contract of orjson.dumps: compact RFC 8259 text (no insignificant whitespace) unless
        OPT_INDENT_2 is set; raises JSONEncodeError for values it cannot represent (e.g. ints beyond 64 bits)"""
        it.ctx.trace.append(("orjson.dumps", data, option))
        if it.ctx.choose(["encoded", "refused"]) == "refused":
            it.raise_exc(orjson.JSONEncodeError, "Integer exceeds 64-bit range")
        r = it.fresh(Bytes, "json_bytes")
        it.ctx.ghost["orjson_result"] = r
        return r

    def json_dumps(it, data, **kw):
        it.ctx.trace.append(("json.dumps", data, kw))
        return it.fresh(Str, "json_text")

    env.stub(orjson.dumps, orjson_dumps)
    env.stub(_json.dumps, json_dumps)


def _dump_setup(it):
    _install_json_stubs(it)
    return {"data": it.fresh(Opaque("JsonValue"), "arg_data")}


@contract("aiohomekit.hkjson:dump_bytes", prop="C09")
class DumpBytes:
    setup = _dump_setup
    raises = {orjson.JSONEncodeError: True, TypeError: True}  # unrepresentable values are refused, never re-encoded
    trusted = ["orjson.dumps without OPT_INDENT_2 emits compact JSON (bounded ground check in the thorough tier)"]

    def compact_encoder_only(data, trace, ghost, result):
        """the bytes are exactly what the compact encoder produced for this value: one orjson.dumps call with
        the value unchanged and without the indent option; no other encoder is involved"""
        calls = [e for e in trace if e[0] == "orjson.dumps"]
        return (
            len(calls) == 1
            and calls[0][1] is data
            and (calls[0][2] is None or calls[0][2] & orjson.OPT_INDENT_2 == 0)
            and not any(e[0] == "json.dumps" for e in trace)
            and result is ghost["orjson_result"]
        )

    ensures = [compact_encoder_only]

    def bounded_run(tier, seed):
        """ground check of the assumed encoder: real dump_bytes output contains no insignificant whitespace
        and round-trips"""
        import random

        rnd = random.Random(seed)

        def val(d=0):
            k = rnd.randint(0, 7 if d < 3 else 4)
            if k == 0:
                return rnd.choice([None, True, False])
            if k == 1:
                return rnd.randint(-2 ** 40, 2 ** 63)
            if k == 2:
                return rnd.choice(["", "a b", " x ", "{\"k\": [1, 2]}", "é\\n", ": ,"])
            if k in (3, 4):
                return round(rnd.uniform(-1e6, 1e6), 3)
            if k in (5,):
                return [val(d + 1) for _ in range(rnd.randint(0, 4))]
            return {rnd.choice(["aid", "iid", "value", "ev", "characteristics", "a b"]): val(d + 1) for _ in range(rnd.randint(0, 4))}

        n = 200 if tier == "quick" else 3000
        failures = []
        for _ in range(n):
            v = val()
            out = hkjson.dump_bytes(v)
            # strip string literals, then no whitespace may remain
            import re

            stripped = re.sub(rb'"(?:[^"\\\\]|\\\\.)*"', b'""', out)
            if re.search(rb"\\s", stripped) or _json.loads(out) != _json.loads(_json.dumps(v)):
                failures.append({"clause": "C09/aiohomekit.hkjson:dump_bytes#DumpBytes/ground.compact", "value": repr(v)[:200], "out": repr(out)[:200]})
                break
        return {"cases": n, "distinct": n, "failures": failures, "bound": "random nested JSON values (depth <= 4)"}
