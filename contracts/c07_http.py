"""C07: HTTP/EVENT message parsing is independent of stream segmentation."""
import z3

from pyvc.api import contract, LoopInv, Int, Bool, Bytes, ByteArray, Str, ListOf, TupleOf, implies, sub, split_count, split_part
from pyvc.values import SObj, SInt, SBytes, SSeq
from pyvc import ops

from aiohomekit.http.response import HttpResponse
from aiohomekit.exceptions import HttpException

def configure(env):
    env.add_axiom(
        "atoi_base16", lambda app: app >= 0,
        "well-formed messages: a chunk-size line is hexadecimal digits, so int(line, 16) is never negative (instances on the size lines that occur)",
    )


PRE, HEADERS, BODY, DONE = 0, 1, 2, 3
CRLF = b"\r\n"
Headers = ListOf(TupleOf(Str, Str))


def _resp(it, state=None, chunked=None, with_len=None):
    """a parser in an arbitrary state of the given kind"""
    o = SObj(HttpResponse, label="response")
    raw = it.fresh(ByteArray, "raw")
    body = it.fresh(ByteArray, "body")
    clen = it.fresh(Int, "content_length")
    o.fields.update(
        _state=state, _raw_response=raw, _is_ready=False,
        _is_chunked=it.fresh(Bool, "is_chunked") if chunked is None else chunked,
        _had_empty_chunk=False, _content_length=clen, version=None, code=None, reason=None,
        headers=it.fresh(Headers, "headers"), body=body,
    )
    it.ctx.assume(clen.term >= -1)
    it.ctx.ghost.update(R=SBytes(raw.term, False), body0=SBytes(body.term, False), clen=clen)
    return o


# ------------------------------------------------------------------------------------------------- completion predicate


def _complete_setup(it):
    o = _resp(it, state=it.fresh(Int, "state"))
    o.fields["_had_empty_chunk"] = it.fresh(Bool, "had_empty_chunk")
    it.ctx.assume(z3.And(o.fields["_state"].term >= 0, o.fields["_state"].term <= 3))
    return {"self": o}


@contract("aiohomekit.http.response:HttpResponse.is_read_completely", prop="C07", modular=True)
class Complete:
    """chunked: the terminating chunk was seen; otherwise: the headers ended and, with a Content-Length, exactly that
    many body bytes were taken"""

    setup = _complete_setup
    returns = Bool
    raises = {}

    def predicate(self, result):
        return result == (
            self._had_empty_chunk if self._is_chunked
            else (self._state >= BODY and (self._content_length == -1 or len(self.body) == self._content_length))
        )

    ensures = [predicate]


# ------------------------------------------------------------------------------------------------- Content-Length body


def _cl_setup(it):
    o = _resp(it, state=BODY, chunked=False)
    g = it.ctx.ghost
    n = g["clen"]
    it.ctx.assume(z3.And(n.term >= 1, z3.Length(g["body0"].term) < n.term))  # (a message still being read)
    part = it.fresh(Bytes, "part")
    g["part"] = part
    return {"self": o, "part": part}


@contract("aiohomekit.http.response:HttpResponse.parse", prop="C07")
class ContentLengthBody:
    """body state with a Content-Length, ANY buffer content and ANY newly read bytes: the body takes exactly the bytes
    still missing, in order; what follows the message is returned (carried into the next message), never lost or
    duplicated; an incomplete message returns nothing"""

    setup = _cl_setup
    raises = {}

    def exact_bytes(self, R, body0, clen, part, result):
        full = R + part
        need = clen - len(body0)
        return (
            self.body == body0 + sub(full, 0, need)
            and self._raw_response == sub(full, need, len(full) - need)
            and self._state == BODY
            and (result == self._raw_response if len(full) >= need else len(result) == 0)
        )

    ensures = [exact_bytes]


def _twin(it, o):
    """a second parser in the same state (own buffers, same contents)"""
    t = SObj(HttpResponse, label="twin")
    for k, v in o.fields.items():
        t.fields[k] = SBytes(v.term, v.mutable) if isinstance(v, SBytes) else (SSeq(v.term, v.elem, v.mutable) if isinstance(v, SSeq) else v)
    return t


def _merge_cl_setup(it):
    o = _resp(it, state=BODY, chunked=False)
    g = it.ctx.ghost
    it.ctx.assume(z3.And(g["clen"].term >= 1, z3.Length(g["body0"].term) < g["clen"].term))
    return {"r1": o, "r2": _twin(it, o), "a": it.fresh(Bytes, "a"), "b": it.fresh(Bytes, "b")}


@contract("lemmas.http:merge_content_length", prop="C07")
class MergeContentLength:
    """segmentation independence of the Content-Length mechanism, on the real code: for EVERY parser state in the body
    phase and EVERY two reads a, b: parse(a); parse(b) and parse(a + b) end in the same state and return the same
    leftover (or, if the message ended inside a, a's leftover followed by b)"""

    setup = _merge_cl_setup
    raises = {}


# ------------------------------------------------------------------------------------------------- chunked body

from specs.http import dechunk, hexval


def _chunk_inv(self, pos, entry):
    """what remains to be consumed from here is what remained when the loop was entered"""
    return (
        self._state == BODY
        and pos == self._raw_response.find(CRLF)
        and dechunk(self.body, self._raw_response) == dechunk(entry.body, entry._raw_response)
        and not self._had_empty_chunk
    )


def _chunk_setup(it):
    o = _resp(it, state=BODY, chunked=True)
    # a well-formed chunked message carries no Content-Length (RFC 7230 3.3.2); with both, the code would also run the
    # Content-Length step on the chunk buffer - outside the property's "well-formed" premise, noted in DESIGN
    it.ctx.assume(it.ctx.ghost["clen"].term == -1)
    part = it.fresh(Bytes, "part")
    it.ctx.ghost["part"] = part
    return {"self": o, "part": part}


@contract("aiohomekit.http.response:HttpResponse.parse", prop="C07")
class ChunkedBody:
    """chunked body state, ANY buffer and ANY newly read bytes: exactly the complete chunks at the front of the buffer
    are consumed (size line, data, CRLF), an incomplete chunk is left untouched for the next read, the terminating
    chunk ends the message and what follows it is returned"""

    setup = _chunk_setup
    raises = {ValueError: True}  # a chunk-size line that is not hexadecimal (not a well-formed message)

    def consumed_complete_chunks(self, R, body0, part, result):
        want = dechunk(body0, R + part)
        return (
            self.body == want[0]
            and self._raw_response == want[1]
            and self._had_empty_chunk == want[2]
            and (self._state == DONE) == want[2]
            and (result == want[1] if want[2] else len(result) == 0)
        )

    ensures = [consumed_complete_chunks]
    loops = {1: LoopInv(_chunk_inv)}


# ------------------------------------------------------------------------------------------------- status line and headers


def is_suffix(raw, full):
    return raw == sub(full, len(full) - len(raw), len(raw)) and len(raw) <= len(full)


def _hdr_inv(self, pos, R, part, state0):
    """every complete line so far was consumed from the front: the buffer is a suffix of everything received"""
    return (
        pos == self._raw_response.find(CRLF)
        and is_suffix(self._raw_response, R + part)
        and state0 <= self._state <= BODY
        and ((R + part).find(CRLF) != -1 or (self._state == state0 and self._raw_response == R + part))
        and len(self.body) == 0
        and not self._had_empty_chunk
    )


def _hdr_step_line(self, head, pos__head):
    """ONE arbitrary iteration consumes exactly the first line of the buffer and its CRLF"""
    raw0 = head._raw_response
    return self._raw_response == sub(raw0, pos__head + 2, len(raw0) - pos__head - 2) and pos__head == raw0.find(CRLF) and pos__head >= 0


def _hdr_step_status(self, head, pos__head):
    """in the pre-status state the line is cut at the first two spaces: version, status code, reason"""
    line = sub(head._raw_response, 0, pos__head)
    return head._state != PRE or (
        split_count(line, b" ", 2) == 3
        and self._state == HEADERS
        and self.version == split_part(line, b" ", 2, 0).decode()
        and self.code == int(split_part(line, b" ", 2, 1))
        and self.reason == split_part(line, b" ", 2, 2).decode()
        and self.headers == head.headers
        and self._is_chunked == head._is_chunked
        and self._content_length == head._content_length
    )


def _hdr_step_header(self, head, pos__head):
    """in the header state a non-empty line adds exactly one header (name title-cased, both sides stripped), in order;
    Transfer-Encoding: chunked and Content-Length set the framing; the empty line ends the headers"""
    line = sub(head._raw_response, 0, pos__head)
    name = split_part(line, b":", 1, 0).decode().strip().title()
    value = split_part(line, b":", 1, 1).decode().strip()
    unchanged = self._is_chunked == head._is_chunked and self._content_length == head._content_length
    blank = self._state == BODY and self.headers == head.headers and unchanged
    header = (
        self._state == HEADERS
        and self.headers == head.headers + [(name, value)]
        and self._is_chunked == (head._is_chunked or (name == "Transfer-Encoding" and value == "chunked"))
        and self._content_length == (int(value) if name == "Content-Length" else head._content_length)
    )
    return head._state != HEADERS or (blank if len(line) == 0 else header)


def _hdr_setup(it):
    st = [PRE, HEADERS][it.ctx.choose([0, 1])]
    o = _resp(it, state=st)
    o.fields["body"] = SBytes(z3.Empty(o.fields["body"].term.sort()), True)
    # (version / code / reason are written, never read, by parse: arbitrary values of their later types stand for None)
    o.fields.update(version=it.fresh(Str, "version"), code=it.fresh(Int, "code"), reason=it.fresh(Str, "reason"))
    g = it.ctx.ghost
    g["body0"] = b""
    g["state0"] = st
    part = it.fresh(Bytes, "part")
    g["part"] = part
    # representation invariant between reads in the header phase (established by `no_complete_line_left`):
    it.ctx.assume(ops.int_term(ops.mk_int(z3.IndexOf(g["R"].term, ops.bytes_term(CRLF), z3.IntVal(0)))) == -1)
    return {"self": o, "part": part}


@contract("aiohomekit.http.response:HttpResponse.parse", prop="C07")
class HeaderPhase:
    """status-line / header state, ANY bytes read: every complete CRLF-terminated line is consumed (none is left in the
    buffer while the headers are unfinished - also when the CRLF itself was cut by the read boundary), the buffer is
    always a suffix of the bytes received, and nothing is returned before the message is complete"""

    setup = _hdr_setup
    raises = {ValueError: True, IndexError: True, UnicodeDecodeError: True, HttpException: True}  # (malformed lines only)

    def no_complete_line_left(self, R, part, state0):
        return self._state >= BODY or self._raw_response.find(CRLF) == -1

    def buffer_is_a_suffix(self, R, part):
        return self._state >= BODY or is_suffix(self._raw_response, R + part)

    def state_only_advances(self, state0):
        return self._state >= state0

    def nothing_without_a_line(self, R, part, state0):
        return (R + part).find(CRLF) != -1 or (self._state == state0 and self._raw_response == R + part)

    def nothing_returned_before_the_end(self, result):
        return self._state >= BODY or len(result) == 0

    ensures = [no_complete_line_left, buffer_is_a_suffix, state_only_advances, nothing_without_a_line, nothing_returned_before_the_end]
    loops = {0: LoopInv(_hdr_inv, step=[_hdr_step_line, _hdr_step_status, _hdr_step_header]), 1: LoopInv(_chunk_inv)}


# ------------------------------------------------------------------------------------------------- bounded stand-in / replay


def _native(tier, seed):
    from harness import http_segments

    return http_segments.run(tier, seed, "C07/aiohomekit.controller.ip.connection:InsecureHomeKitProtocol.data_received#native")


def _native_replay(env, con, obs):
    r = _native("quick", 0)
    if r["failures"]:
        f = dict(r["failures"][0])
        f.update({"confirmed": True, "source": "native-harness", "key": f["clause"]})
        return f
    return {"confirmed": False, "inputs_tried": r["cases"]}


HeaderPhase.bounded_run = staticmethod(_native)
HeaderPhase.bound_note = (
    "the property as a whole - for ALL message sequences and ALL segmentations the feed loop yields exactly the messages sent - "
    "is decided only by this bounded stand-in (real feed loop, every single and double cut); the proofs cover the mechanisms "
    "one call at a time (see the claim text)"
)
for _k in list(globals().values()):
    if isinstance(_k, type) and getattr(_k, "prop", None) == "C07":
        _k.replay = staticmethod(_native_replay)


# ------------------------------------------------------------------------------------------------- chunked: segmentation lemma


@contract("lemmas.http:lemma_dechunk_merge", prop="C07", modular=True)
class LemmaDechunkMerge:
    """segmentation independence of the chunked reading specification (with ChunkedBody - the code equals that
    specification on buffer + read - this is: parse(a); parse(b) and parse(a + b) consume the same chunks)"""

    params = {"body": Bytes, "x": Bytes, "b": Bytes}
    raises = {}

    def merge(body, x, b):
        d = dechunk(body, x)
        return dechunk(body, x + b) == ((d[0], d[1] + b, True) if d[2] else dechunk(d[0], d[1] + b))

    ensures = [merge]

    def decreases(x):
        return len(x)
