"""C04: an accessory error or out-of-sequence reply never completes as success."""
from pyvc.api import contract, LoopInv, Int, Bool, Bytes, ByteArray, Str, ListOf, TupleOf, implies
from pyvc.values import SymRecDict

from aiohomekit.exceptions import (
    AuthenticationError, BackoffError, BusyError, InvalidError, MaxPeersError, MaxTriesError, UnavailableError,
)
from aiohomekit.protocol.tlv import TLV

# the specification's pairing error-code table (cited in the code as table 4-5)
ERR = {2: AuthenticationError, 3: BackoffError, 4: MaxPeersError, 5: MaxTriesError, 6: UnavailableError, 7: BusyError}


def is_code(error, c):
    return len(error) == 1 and error[0] == c


def mapped_code(error):
    return len(error) == 1 and 2 <= error[0] <= 7


def class_matches(error, exc):
    """exc is of the class the table documents for this error value"""
    return (
        (is_code(error, 2) and isinstance(exc, AuthenticationError))
        or (is_code(error, 3) and isinstance(exc, BackoffError))
        or (is_code(error, 4) and isinstance(exc, MaxPeersError))
        or (is_code(error, 5) and isinstance(exc, MaxTriesError))
        or (is_code(error, 6) and isinstance(exc, UnavailableError))
        or (is_code(error, 7) and isinstance(exc, BusyError))
        or (not mapped_code(error) and isinstance(exc, InvalidError))
    )


@contract("aiohomekit.protocol:error_handler", prop="C04")
class ErrorHandler:
    params = {"error": ByteArray, "stage": Str}

    def table(error, exc):
        return class_matches(error, exc)

    raises = dict.fromkeys(list(ERR.values()) + [InvalidError], table)

    def never_returns():
        return False

    ensures = [never_returns]

    def corpus():
        for e in [b"", b"\x00", b"\x01", b"\x02", b"\x03", b"\x04", b"\x05", b"\x06", b"\x07", b"\x08", b"\xff", b"\x02\x00", b"\x02\x02"]:
            yield {"error": bytearray(e), "stage": "x"}


def _tlv_dict(it):
    return SymRecDict("T", ByteArray)


def _expected_state(it):
    return it.ctx.choose([TLV.M2, TLV.M4, TLV.M6], "expected_state") if False else [TLV.M2, TLV.M4, TLV.M6][it.ctx.choose([0, 1, 2])]


@contract("aiohomekit.protocol:handle_state_step", prop="C04")
class HandleStateStep:
    params = {"tlv_dict": _tlv_dict, "expected_state": _expected_state}

    def wrong_state(tlv_dict, expected_state):
        return 6 in tlv_dict and tlv_dict[6] != expected_state

    def error_class(tlv_dict, expected_state, exc):
        """the state is the expected one or absent, the reply carries an Error, and the class is the mapped one;
        InvalidError additionally covers a wrong state value"""
        return (6 in tlv_dict and tlv_dict[6] != expected_state and isinstance(exc, InvalidError)) or (
            (6 not in tlv_dict or tlv_dict[6] == expected_state) and 7 in tlv_dict and class_matches(tlv_dict[7], exc)
        )

    raises = dict.fromkeys(list(ERR.values()) + [InvalidError], error_class)

    def returns_only_without_error(tlv_dict, expected_state):
        """normal return: no Error item, and the state (if present) is the expected one"""
        return 7 not in tlv_dict and (6 not in tlv_dict or tlv_dict[6] == expected_state)

    ensures = [returns_only_without_error]

    def native_call(fn, a):
        return fn(a["tlv_dict"], a["expected_state"])

    def corpus():
        for st in (None, b"\x02", b"\x03", b"\x04"):
            for er in (None, b"\x01", b"\x02", b"\x06", b"\x09", b""):
                for other in ({}, {3: bytearray(b"pk"), 2: bytearray(b"salt")}):
                    d = dict(other)
                    if st is not None:
                        d[6] = bytearray(st)
                    if er is not None:
                        d[7] = bytearray(er)
                    for ex in (TLV.M2, TLV.M4):
                        yield {"tlv_dict": d, "expected_state": ex}


# ---------------------------------------------------------------------------------------
# the three pairing state machines: every reply is an arbitrary (adversarial) TLV list

from aiohomekit.exceptions import (
    IllegalData, IncorrectPairingIdError, InvalidAuthTagError, InvalidSignatureError,
)
from aiohomekit.protocol.tlv import TlvParseException
from contracts.c15_tlv import DecodeBytes, DecodeBytearray  # noqa: F401  (modular contracts used at call sites)

Reply = ListOf(TupleOf(Int, ByteArray))
ALL_PROTOCOL = list(ERR.values()) + [InvalidError]
STATES = [TLV.M2, TLV.M4, TLV.M6]


def no_error_and_right_state(reply, expected_state):
    r = dict(reply)
    return 7 not in r and (6 not in r or r[6] == expected_state)


def error_reply_gets_mapped_class(reply, expected_state, exc):
    """the reply carries an Error item and its state is absent or the expected one => the exception is of
    the documented class; a present but wrong state => InvalidError"""
    r = dict(reply)
    return implies(6 in r and r[6] != expected_state, isinstance(exc, InvalidError)) and implies(
        7 in r and (6 not in r or r[6] == expected_state), class_matches(r[7], exc)
    )


def expectations_keep_state_and_error(yielded):
    """drivers filter the reply with the expectations list before the state machine sees it, so every
    list must let State and Error through"""
    return all(6 in y[1] and 7 in y[1] for y in yielded)


@contract("aiohomekit.protocol:perform_pair_setup_part1", prop="C04")
class SetupPart1Errors:
    params = {"with_auth": Bool}
    recv = Reply
    raises = dict.fromkeys(ALL_PROTOCOL, True)

    def success_only_without_error(received):
        return no_error_and_right_state(received[0], TLV.M2)

    def expectations(yielded):
        return expectations_keep_state_and_error(yielded)

    ensures = [success_only_without_error, expectations]

    def mapped(received, exc):
        return error_reply_gets_mapped_class(received[0], TLV.M2, exc)

    def expectations_x(yielded):
        return expectations_keep_state_and_error(yielded)

    exsures = [mapped, expectations_x]


def _pin(it):
    return "111-22-333"


@contract("aiohomekit.protocol:perform_pair_setup_part2", prop="C04")
class SetupPart2Errors:
    params = {"pin": _pin, "ios_pairing_id": Str, "salt": ByteArray, "server_public_key": ByteArray}
    recv = Reply
    raises = dict.fromkeys(ALL_PROTOCOL + [IllegalData, InvalidSignatureError, ValueError, UnicodeDecodeError, TlvParseException], True)

    def pre(salt, server_public_key):
        return len(salt) == 16 and len(server_public_key) == 384

    requires = [pre]

    def success_only_without_error(received):
        return (
            len(received) == 2
            and no_error_and_right_state(received[0], TLV.M4)
            and no_error_and_right_state(received[1], TLV.M6)
        )

    def expectations(yielded):
        return expectations_keep_state_and_error(yielded)

    ensures = [success_only_without_error, expectations]

    def mapped(received, exc):
        return error_reply_gets_mapped_class(received[-1], STATES[len(received)], exc)

    def expectations_x(yielded):
        return expectations_keep_state_and_error(yielded)

    exsures = [mapped, expectations_x]


def _pairing_data(it):
    return {
        "AccessoryPairingID": it.fresh(Str, "pd_acc_id"),
        "AccessoryLTPK": it.fresh(Str, "pd_acc_ltpk"),
        "iOSPairingId": it.fresh(Str, "pd_ios_id"),
        "iOSDeviceLTSK": it.fresh(Str, "pd_ios_ltsk"),
        "iOSDeviceLTPK": it.fresh(Str, "pd_ios_ltpk"),
    }


def _resume(it):
    """None (fresh pair-verify) or the (session_id, derive) of an earlier session"""
    if it.ctx.choose(["fresh", "resume"]) == "fresh":
        return None
    return "resume"


def _verify_setup(it):
    args = {"pairing_data": _pairing_data(it)}
    if it.ctx.choose(["fresh", "resume"]) == "fresh":
        args["session_id"] = None
        args["derive"] = None
    else:
        args["session_id"] = it.fresh(Bytes, "prev_session_id")
        secret = it.fresh(Bytes, "prev_secret")
        args["derive"] = it.env.crypto["DeriveFn"](secret)
        it.ctx.ghost["prev_secret"] = secret
    return args


@contract("aiohomekit.protocol:get_session_keys", prop="C04")
class VerifyErrors:
    setup = _verify_setup
    recv = Reply
    raises = dict.fromkeys(
        ALL_PROTOCOL + [InvalidAuthTagError, IncorrectPairingIdError, InvalidSignatureError, ValueError, UnicodeDecodeError, TlvParseException], True
    )

    def success_only_without_error(received):
        return no_error_and_right_state(received[0], TLV.M2) and (
            len(received) == 1 or no_error_and_right_state(received[1], TLV.M4)
        )

    def expectations(yielded):
        return expectations_keep_state_and_error(yielded)

    ensures = [success_only_without_error, expectations]

    def mapped(received, exc):
        return error_reply_gets_mapped_class(received[-1], [TLV.M2, TLV.M4][len(received) - 1], exc)

    def expectations_x(yielded):
        return expectations_keep_state_and_error(yielded)

    exsures = [mapped, expectations_x]


# ------------------------------------------------------------------------------------------------- bounded stand-in


def _native(tier, seed):
    from harness import error_replies

    return error_replies.run(tier, seed, "C04/aiohomekit.protocol#native")


VerifyErrors.bounded_run = staticmethod(_native)
VerifyErrors.bound_note = "the real state machines against the scripted independent accessory answering with Error / wrong State at every step (real TLV bytes, real cryptography)"
