"""C19: device waiters are woken by advertisements; advertisement parsing is robust."""
import asyncio
import z3

from pyvc.api import contract, Int, Bool, Bytes, ByteArray, Str, implies, forall
from pyvc.values import SObj, SBool, SInt, SSeq
from pyvc.interp import StubObj, Coro
from pyvc.ctx import RaiseEx
from pyvc import stubs_asyncio as aio
from pyvc.stubs_asyncio import FutureStub, TimerStub

from aiohomekit.zeroconf import ZeroconfController, HomeKitService
from aiohomekit.controller.ble.controller import BleController
from aiohomekit.controller.ble.manufacturer_data import HomeKitAdvertisement, HomeKitEncryptedNotification
from aiohomekit.controller.ble.pairing import BlePairing
from aiohomekit.exceptions import AccessoryNotFoundError
from aiohomekit.model.categories import Categories


# ------------------------------------------------------------------------------------------------- mDNS async_find


def _await_waiter(it, fut, record=True):
    """while parked: the advertisement is processed (set_result with the discovery), the timer fires
    (set_exception TimeoutError), or the caller is cancelled"""
    if record:
        it.ctx.trace.append(("await", fut))
    zc = it.ctx.ghost.get("zc")
    if zc is not None and "waiters_at_await" not in it.ctx.ghost:
        # snapshot of the registry at the suspension point: this is what an advertisement processed now would wake
        it.ctx.ghost["waiters_at_await"] = list(zc.fields["_waiters"].get("aa:bb:cc:dd:ee:ff", []))
    k = it.ctx.choose(["found", "timeout", "cancelled"])
    it.ctx.ghost["wake"] = k
    if k == "found":
        d = SObj(object, label="discovery")
        it.ctx.ghost["discovery"] = d
        return d
    if k == "timeout":
        it.raise_exc(asyncio.TimeoutError)
    it.raise_exc(asyncio.CancelledError)


def _zc(it):
    c = SObj(ZeroconfController, label="zc")
    known = it.ctx.choose(["unknown", "known", "known-under-other-case"])
    d0 = SObj(object, label="known-discovery")
    c.fields.update(discoveries={}, _waiters={}, _loop=aio.get_loop(it), pairings={})
    if known == "known":
        c.fields["discoveries"]["aa:bb:cc:dd:ee:ff"] = d0
    other = it.ctx.choose(["no-other-waiter", "other-waiter"])
    of = FutureStub("other")
    if other == "other-waiter":
        c.fields["_waiters"]["aa:bb:cc:dd:ee:ff"] = [of]
    it.ctx.ghost.update(zc=c, other=other, other_future=of)
    it.ctx.ghost["known"] = known
    it.ctx.ghost["d0"] = d0
    return c


def _find_setup(it):
    return {"self": _zc(it), "device_id": ["aa:bb:cc:dd:ee:ff", "AA:BB:CC:DD:EE:FF"][it.ctx.choose([0, 1])], "timeout": it.fresh(Int, "arg_timeout")}


@contract("aiohomekit.zeroconf:ZeroconfController.async_find", prop="C19")
class ZcFind:
    setup = _find_setup
    await_policy = _await_waiter
    raises = {AccessoryNotFoundError: True, asyncio.CancelledError: True}

    def known_device_at_once(known, d0, trace, result):
        return known != "known" or (result is d0 and not any(e[0] == "await" for e in trace))

    def registered_before_waiting(self, known, timeout, trace, ghost, result):
        """not yet known: a waiter is registered under the LOWER-CASED id (keeping other waiters), the timer is
        armed with the caller's timeout, all with no suspension point in between, and the registered future
        is what is awaited; the discovery it is woken with is returned; the timer is cancelled"""
        cf = [i for i in range(len(trace)) if trace[i][0] == "create_future"]
        cl = [i for i in range(len(trace)) if trace[i][0] == "call_later"]
        aw = [i for i in range(len(trace)) if trace[i][0] == "await"]
        return known == "known" or (
            len(cf) == 1
            and len(cl) == 1
            and len(aw) == 1
            and cf[0] < cl[0] < aw[0]
            and trace[aw[0]][1] is trace[cf[0]][1]
            and trace[cf[0]][1] in ghost["waiters_at_await"]
            and (ghost["other"] != "other-waiter" or ghost["other_future"] in ghost["waiters_at_await"])
            and trace[cl[0]][1] == timeout
            and trace[cl[0]][3][0] is trace[cf[0]][1]
            and any(e[0] == "timer_cancel" and e[1] is trace[cl[0]][4] for e in trace)
            and result is ghost["discovery"]
        )

    def other_waiters_stay_registered(self, ghost):
        """frame: however THIS call ends (woken, timed out, cancelled, answered at once), a future that ANOTHER caller
        registered for the id is still registered - an advertisement processed later must still wake it"""
        return ghost["other"] != "other-waiter" or ghost["other_future"] in self._waiters.get("aa:bb:cc:dd:ee:ff", [])

    ensures = [known_device_at_once, registered_before_waiting, other_waiters_stay_registered]

    def timeout_is_not_found(ghost, trace, exc):
        cl = [e for e in trace if e[0] == "call_later"]
        return (
            (ghost["wake"] == "timeout") == isinstance(exc, AccessoryNotFoundError)
            and len(cl) == 1
            and any(e[0] == "timer_cancel" and e[1] is cl[0][4] for e in trace)
        )

    exsures = [timeout_is_not_found, other_waiters_stay_registered]


@contract("aiohomekit.zeroconf:ZeroconfController._async_on_timeout", prop="C19")
class ZcOnTimeout:
    def _setup(it):
        f = FutureStub("waiter")
        f.state = ["pending", "result", "cancelled"][it.ctx.choose([0, 1, 2])]
        it.ctx.ghost["state0"] = f.state
        return {"self": SObj(ZeroconfController), "future": f}

    setup = _setup
    raises = {}

    def fails_pending_waiter(future, state0):
        return (state0 == "pending" and future.state == "exception" and isinstance(future.value, asyncio.TimeoutError)) or (
            state0 != "pending" and future.state == state0
        )

    ensures = [fails_pending_waiter]


# ------------------------------------------------------------------------------------------------- mDNS record handling


class _PairingStub(StubObj):
    """a loaded pairing: its description-update handler is under contract below / in C10 (no-raise)"""

    def m__async_description_update(self, it, d):
        it.ctx.trace.append(("pairing._async_description_update", d))


class _Disc(StubObj):
    def m__update_from_discovery(self, it, d):
        it.ctx.trace.append(("discovery._update_from_discovery", d))


def _hl_setup(it):
    c = SObj(ZeroconfController, label="zc")
    ID = "aa:bb:cc:dd:ee:ff"
    desc = SObj(HomeKitService, {"id": ID}, label="description")
    waiters = []
    for i in range(it.ctx.choose([0, 1, 2, 3])):
        f = FutureStub(f"w{i}")
        f.state = ["pending", "cancelled", "exception"][it.ctx.choose([0, 1, 2])]
        f.state0 = f.state
        waiters.append(f)
    c.fields.update(
        discoveries={ID: _Disc()} if it.ctx.choose([0, 1]) else {},
        _waiters={ID: list(waiters), "11:22:33:44:55:66": [FutureStub("unrelated")]} if waiters else {"11:22:33:44:55:66": [FutureStub("unrelated")]},
        pairings={ID: _PairingStub()} if it.ctx.choose([0, 1]) else {},
        _make_discovery=_MakeDisc(),
    )
    valid = bool(it.ctx.choose([0, 1]))

    def from_service_info(it, cls, info):
        if not valid:
            it.raise_exc(ValueError, "Invalid HomeKit Zeroconf record")
        return desc

    it.env.stub(HomeKitService.from_service_info.__func__, from_service_info)
    it.ctx.ghost.update(waiters=waiters, valid=valid, ID=ID)
    return {"self": c, "info": SObj(object, {"name": "x"}, label="info")}


class _MakeDisc(StubObj):
    def sym_call(self, it, d):
        r = SObj(object, label="new-discovery")
        it.ctx.ghost.setdefault("made", []).append(r)
        return r


@contract("aiohomekit.zeroconf:ZeroconfController._async_handle_loaded_service_info", prop="C19")
class ZcHandleRecord:
    """(0..3 waiters under the id, each pending / cancelled / already timed out; with or without a known
    discovery and a loaded pairing)"""

    setup = _hl_setup
    raises = {}  # no record makes the browser callback raise

    def wakes_every_pending_waiter(self, waiters, valid, ID, trace):
        """a valid record: the discovery is stored, EVERY pending waiter under its id is completed with it, done
        waiters are left alone, waiters for other ids are untouched; an invalid record is ignored"""
        return (
            not valid
            and all(w.state == w.state0 for w in waiters)
            and ID not in [k for k in self.discoveries if False]
        ) or (
            valid
            and ID in self.discoveries
            and all((w.state0 == "pending" and w.state == "result" and w.value is self.discoveries[ID]) or (w.state0 != "pending" and w.state == w.state0) for w in waiters)
            and ID not in self._waiters
            and "11:22:33:44:55:66" in self._waiters
            and self._waiters["11:22:33:44:55:66"][0].state == "pending"
        )

    ensures = [wakes_every_pending_waiter]


# ------------------------------------------------------------------------------------------------- BLE async_find


def _ble_find_setup(it):
    c = SObj(BleController, label="ble")
    d0 = SObj(object, label="known-discovery")
    known = bool(it.ctx.choose([0, 1]))
    ID = "aa:bb:cc:dd:ee:ff"
    c.fields.update(discoveries={ID: d0} if known else {}, _ble_futures={ID: [FutureStub("other")]} if it.ctx.choose([0, 1]) else {})
    it.ctx.ghost.update(known=known, d0=d0, ID=ID)
    return {"self": c, "device_id": ID, "timeout": it.fresh(Int, "arg_timeout")}


def _await_ble(it, fut):
    c = it.ctx.ghost["ble"]
    it.ctx.trace.append(("await", fut, [f for f in c.fields["_ble_futures"].get(it.ctx.ghost["ID"], [])]))
    return _await_waiter(it, fut, record=False)


def _ble_find_setup2(it):
    a = _ble_find_setup(it)
    it.ctx.ghost["ble"] = a["self"]
    return a


@contract("aiohomekit.controller.ble.controller:BleController.async_find", prop="C19")
class BleFind:
    setup = _ble_find_setup2
    await_policy = _await_ble
    raises = {AccessoryNotFoundError: True, asyncio.CancelledError: True}

    def waiter_is_registered(known, d0, timeout, trace, ghost, result):
        """not yet known: the future that is awaited IS registered under the id when the wait starts (else no
        advertisement could ever wake it), under the caller's timeout"""
        aw = [e for e in trace if e[0] == "await"]
        to = [e for e in trace if e[0] == "timeout_enter"]
        return (known and result is d0 and aw == []) or (
            not known and len(aw) == 1 and any(f is aw[0][1] for f in aw[0][2]) and len(to) == 1 and to[0][1] == timeout and result is ghost["discovery"]
        )

    ensures = [waiter_is_registered]

    def not_found_and_unregistered(self, ghost, trace, exc):
        aw = [e for e in trace if e[0] == "await"]
        left = self._ble_futures.get(ghost["ID"], [])
        return (
            len(aw) == 1
            and any(f is aw[0][1] for f in aw[0][2])
            and not any(f is aw[0][1] for f in left)
            and (ghost["wake"] == "timeout") == isinstance(exc, AccessoryNotFoundError)
        )

    exsures = [not_found_and_unregistered]


# ------------------------------------------------------------------------------------------------- advertisement parsing


def _adv_setup(it):
    data = it.fresh(Bytes, "mfr_data")
    present = it.ctx.choose(["apple", "no-apple", "other-vendor-only"])
    md = {76: data} if present == "apple" else ({} if present == "no-apple" else {6: b"\x01\x02"})
    it.ctx.ghost["data"] = data
    it.ctx.ghost["present"] = present
    return {"cls": HomeKitAdvertisement, "name": it.fresh(Str, "name"), "address": "AA:BB:CC:DD:EE:FF", "manufacturer_data": md}


@contract("aiohomekit.controller.ble.manufacturer_data:HomeKitAdvertisement.from_manufacturer_data", prop="C19")
class ParseAdvertisement:
    """for EVERY manufacturer-data byte string"""

    setup = _adv_setup
    raises = {ValueError: True}  # the only exception; callers ignore the advertisement

    def fields(data, present, name, result):
        """HAP-BLE regular advertisement: type 0x06 | len | status flags | 6-byte device id | category (LE16) |
        state number (LE16) | config number | compatible version [| 4-byte setup hash]"""
        return (
            present == "apple"
            and len(data) >= 15
            and data[0] == 6
            and result.state_num == data[11] + 256 * data[12]
            and result.config_num == data[13]
            and result.category.value == data[9] + 256 * data[10]
            and result.status_flags.value == data[2]
            and result.setup_hash == (data[15:19] if len(data) >= 19 else b"")
            and result.name == name
        )

    ensures = [fields]


# ------------------------------------------------------------------------------------------------- BLE pairing handlers


class _AccState(StubObj):
    def __init__(self, it):
        self.f_state_num = it.fresh(Int, "cached_state_num")

    def sym_setattr(self, it, name, v):
        setattr(self, "f_" + name, v)

    def sym_truth(self, it):
        return True


class _RecCall(StubObj):
    def __init__(self, name):
        self.name = name

    def sym_call(self, it, *a):
        it.ctx.trace.append((self.name,) + tuple(a))


def _ucs_setup(it):
    p = SObj(BlePairing, label="ble-pairing")
    st = _AccState(it) if it.ctx.choose(["cached-state", "no-cached-state"]) == "cached-state" else None
    p.fields.update(_accessories_state=st, _update_accessories_state_cache=_RecCall("_update_accessories_state_cache"))
    return {"self": p, "state_num": it.fresh(Int, "arg_state_num")}


@contract("aiohomekit.controller.ble.pairing:BlePairing._update_cached_state_num", prop="C19")
class UpdateCachedStateNum:
    """runs inside the scanner callback: must not raise whether or not accessory state is cached"""

    setup = _ucs_setup
    raises = {}

    def caches_when_there_is_a_cache(self, state_num, trace):
        return self._accessories_state is None or self._accessories_state.state_num == state_num

    ensures = [caches_when_there_is_a_cache]


def _bdu_setup(it):
    """the pairing-side handler the scanner callback runs for a loaded pairing: connected or not, seen recently or not,
    with / without an earlier description, with / without cached accessory state (the situation in which it used to
    raise), shut down or not"""
    import time
    from aiohomekit.controller.abstract import AbstractPairing

    p = SObj(BlePairing, label="ble-pairing")
    st = _AccState(it) if it.ctx.choose(["cached-state", "no-cached-state"]) == "cached-state" else None
    now = it.fresh(Int, "now")
    it.env.stub(time.monotonic, lambda it: now)
    old_desc = SObj(object, {"state_num": it.fresh(Int, "old_state_num"), "config_num": 1, "name": "N"}, label="old-description") if it.ctx.choose([1, 0]) else None
    new_desc = SObj(object, {"state_num": it.fresh(Int, "adv_state_num"), "config_num": 1, "name": "N"}, label="new-description")

    def super_update(it, self, description):
        it.ctx.trace.append(("super_description_update", description))
        self.fields["description"] = description

    it.env.stub(AbstractPairing._async_description_update, super_update)
    p.fields.update(
        _accessories_state=st, _update_accessories_state_cache=_RecCall("_update_accessories_state_cache"),
        client=None, _encryption_key=None, _last_seen=it.fresh(Int, "last_seen"), description=old_desc, id="aa:bb:cc:dd:ee:ff",
        _callback_availability_changed=_RecCall("availability_changed"),
    )
    it.ctx.ghost.update(new_desc=new_desc, st=st)
    return {"self": p, "description": new_desc}


@contract("aiohomekit.controller.ble.pairing:BlePairing._async_description_update", prop="C19")
class BleDescriptionUpdate:
    setup = _bdu_setup
    raises = {}  # runs inside the scanner callback

    def description_and_state_number_taken(self, ghost, trace):
        """the advertised description reaches the pairing exactly once and the advertised state number is what a cached
        accessory state remembers afterwards"""
        sup = [e for e in trace if e[0] == "super_description_update"]
        return (
            len(sup) == 1
            and sup[0][1] is ghost["new_desc"]
            and (self._accessories_state is None or self._accessories_state.state_num == ghost["new_desc"].state_num)
        )

    ensures = [description_and_state_number_taken]


# ------------------------------------------------------------------------------------------------- BLE detection callback


class _BlePairingStub(StubObj):
    """(the pairing-side handlers have their own contracts: _update_cached_state_num here, _async_notification under C18)"""

    def m__async_description_update(self, it, data):
        it.ctx.trace.append(("pairing_description_update", data))

    def m__async_ble_update(self, it, device, adv):
        it.ctx.trace.append(("pairing_ble_update", device))

    def m__async_notification(self, it, data):
        it.ctx.trace.append(("pairing_notification", data))

    def sym_truth(self, it):
        return True


class _OldDiscovery(StubObj):
    def __init__(self, name):
        self.f_description = SObj(object, {"name": name}, label="old-description")
        self.f_device = SObj(object, {"address": "AA:BB:CC:DD:EE:FF"}, label="old-device")

    def m__async_process_advertisement(self, it, device, data, adv):
        it.ctx.trace.append(("old_discovery_updated", data))

    def sym_truth(self, it):
        return True


BLE_ID = "aa:bb:cc:dd:ee:ff"


def _detected_setup(it):
    """ANY manufacturer data bytes (or none); the parsers are used through their contracts (from_manufacturer_data: a parsed
    object for this id, or ValueError); no / a loaded pairing; no / a known discovery (with a longer, shorter or no name);
    0..2 waiters under the id, each pending or done, plus a pending waiter for another id"""
    from aiohomekit.controller.ble.discovery import BleDiscovery

    mfr = it.fresh(Bytes, "mfr_data")
    has = bool(it.ctx.choose([1, 0]))
    valid = bool(it.ctx.choose([1, 0]))
    adv_name = [None, "N", "LongerName"][it.ctx.choose([0, 1, 2])]
    parsed = SObj(HomeKitAdvertisement, {"id": BLE_ID, "name": adv_name}, label="parsed-advertisement")
    parsed_n = SObj(HomeKitEncryptedNotification, {"id": BLE_ID}, label="parsed-notification")

    def parse_adv(it, cls, name, address, md):
        it.ctx.trace.append(("parse_adv",))
        if not valid:
            it.raise_exc(ValueError, "Not a HomeKit device")
        return parsed

    def parse_notif(it, cls, name, address, md):
        it.ctx.trace.append(("parse_notif",))
        if not valid:
            it.raise_exc(ValueError, "Not a HomeKit encrypted notification")
        return parsed_n

    it.env.stub(HomeKitAdvertisement.from_manufacturer_data.__func__, parse_adv)
    it.env.stub(HomeKitEncryptedNotification.from_manufacturer_data.__func__, parse_notif)

    def mk_discovery(it, controller, device, data, adv):
        d = SObj(object, {"description": data}, label="new-discovery")
        it.ctx.ghost.setdefault("made", []).append(d)
        return d

    it.env.stub(BleDiscovery, mk_discovery)
    c = SObj(BleController, label="ble")
    with_pairing = bool(it.ctx.choose([1, 0]))
    old = [None, _OldDiscovery("LongOldName"), _OldDiscovery("")][it.ctx.choose([0, 1, 2])]
    nw = it.ctx.choose([0, 1, 2])
    waiters = []
    for k in range(nw):
        f = FutureStub(f"waiter{k}")
        f.state = ["pending", "cancelled"][it.ctx.choose([0, 1])]
        f.state0 = f.state
        waiters.append(f)
    other = FutureStub("waiter-for-another-id")
    c.fields.update(
        pairings={BLE_ID: _BlePairingStub()} if with_pairing else {},
        discoveries={BLE_ID: old} if old is not None else {},
        _ble_futures={**({BLE_ID: list(waiters)} if nw else {}), "11:22:33:44:55:66": [other]},
    )
    it.ctx.ghost.update(mfr=mfr, has=has, valid=valid, parsed=parsed, parsed_n=parsed_n, with_pairing=with_pairing, old=old, waiters=waiters, other=other, made=[])
    device = SObj(object, {"name": "N", "address": "AA:BB:CC:DD:EE:FF"}, label="device")
    adv = SObj(object, {"manufacturer_data": {76: mfr} if has else {}}, label="advertisement")
    return {"self": c, "device": device, "advertisement_data": adv}


@contract("aiohomekit.controller.ble.controller:BleController._device_detected", prop="C19")
class BleDetected:
    """the scanner callback, for EVERY manufacturer data"""

    setup = _detected_setup
    raises = {}  # no advertisement makes the scanner callback raise

    def valid_advertisement_wakes_every_waiter(self, ghost, trace):
        """a valid regular advertisement: EVERY pending waiter under its id is completed with one discovery of that
        advertisement, the list is emptied; the discovery is stored (or the known one updated); a loaded pairing hears
        the description; waiters for other ids are untouched"""
        if not (ghost["has"] and ghost["valid"] and any(e[0] == "parse_adv" for e in trace)):
            return True
        ws = ghost["waiters"]
        woken = [w for w in ws if w.state0 == "pending"]
        return (
            all(w.state == "result" and w.value.description is ghost["parsed"] for w in woken)
            and all(w.value is woken[0].value for w in woken)
            and all(w.state == w.state0 for w in ws if w.state0 != "pending")
            and len(self._ble_futures.get(BLE_ID, [])) == 0
            and ghost["other"].state == "pending"
            and len(self._ble_futures["11:22:33:44:55:66"]) == 1
            and (
                (ghost["old"] is None and self.discoveries[BLE_ID].description is ghost["parsed"])
                or (ghost["old"] is not None and self.discoveries[BLE_ID] is ghost["old"] and any(e[0] == "old_discovery_updated" and e[1] is ghost["parsed"] for e in trace))
            )
            and (not ghost["with_pairing"] or any(e[0] == "pairing_description_update" and e[1] is ghost["parsed"] for e in trace))
        )

    def malformed_is_ignored(self, ghost, trace):
        """no Apple data, a parser that rejects it, or an unknown type: nothing is woken, stored or announced"""
        if ghost["has"] and ghost["valid"]:
            return True
        return (
            all(w.state == w.state0 for w in ghost["waiters"])
            and ghost["other"].state == "pending"
            and (BLE_ID in self.discoveries) == (ghost["old"] is not None)
            and not any(e[0] in ("pairing_description_update", "pairing_notification", "old_discovery_updated") for e in trace)
        )

    def notification_goes_to_the_pairing_only(ghost, trace):
        """an encrypted-notification advertisement wakes nobody; it is handed to the loaded pairing, exactly once"""
        if not any(e[0] == "parse_notif" for e in trace):
            return True
        n = [e for e in trace if e[0] == "pairing_notification"]
        return all(w.state == w.state0 for w in ghost["waiters"]) and len(n) == (1 if (ghost["valid"] and ghost["with_pairing"]) else 0)

    ensures = [valid_advertisement_wakes_every_waiter, malformed_is_ignored, notification_goes_to_the_pairing_only]


# ------------------------------------------------------------------------------------------------- mDNS record parsing


class _Addr(StubObj):
    def __init__(self, it, k):
        self.f_is_link_local = it.fresh(Bool, f"addr{k}_is_link_local")
        self.f_is_unspecified = it.fresh(Bool, f"addr{k}_is_unspecified")
        self.k = k


class _ServiceInfo(StubObj):
    def __init__(self, addrs, props, port):
        self.addrs = addrs
        self.f_decoded_properties = props
        self.f_name = "Acc._hap._tcp.local."
        self.f_type = "_hap._tcp.local."
        self.f_port = port

    def m_ip_addresses_by_version(self, it, version):
        return list(self.addrs)


def _record_setup(it):
    """a record with 0..3 addresses (zeroconf's order), each link-local / unspecified or not (symbolic); TXT properties: the
    id under 'id', 'ID' or absent or None, with ARBITRARY text; c# / s# absent or arbitrary text; the other numbers absent"""
    n = it.ctx.choose([0, 1, 2, 3])
    addrs = [_Addr(it, k) for k in range(n)]
    idkey = it.ctx.choose(["id", "ID", "absent", "none"])
    props = {"md": "Model"}
    ident = it.fresh(Str, "txt_id")
    if idkey in ("id", "ID"):
        props[idkey] = ident
    elif idkey == "none":
        props["id"] = None
    nums = bool(it.ctx.choose([1, 0]))
    if nums:
        props["c#"] = it.fresh(Str, "txt_c")
        props["S#"] = it.fresh(Str, "txt_s")
    it.ctx.ghost.update(addrs=addrs, idkey=idkey, ident=ident, nums=nums, props=props)
    return {"cls": HomeKitService, "service": _ServiceInfo(addrs, props, it.fresh(Int, "port"))}


@contract("aiohomekit.zeroconf:HomeKitService.from_service_info", prop="C19")
class ParseRecord:
    """parsing an mDNS record: only ValueError escapes (the caller ignores such a record); an accepted record has a
    usable address, the id lower-cased whatever the case of key and value, and the numbers of its TXT record"""

    setup = _record_setup
    raises = {ValueError: True}

    def usable_addresses_only(ghost, result):
        usable = sum([int((not a.is_link_local) and (not a.is_unspecified)) for a in ghost["addrs"]])
        return usable >= 1 and len(result.addresses) == usable and result.address is result.addresses[0]

    def id_lower_cased(ghost, result):
        return ghost["idkey"] in ("id", "ID") and result.id == ghost["ident"].lower()

    def numbers_from_the_record(ghost, result):
        p = ghost["props"]
        if ghost["nums"]:
            return result.config_num == int(p["c#"]) and result.state_num == int(p["S#"])
        return result.config_num == 0 and result.state_num == 0

    ensures = [usable_addresses_only, id_lower_cased, numbers_from_the_record]

    def rejects_only_malformed_records(ghost, exc):
        """a record with a usable address, an id and no (possibly non-numeric) numbers is never rejected"""
        usable = sum([int((not a.is_link_local) and (not a.is_unspecified)) for a in ghost["addrs"]])
        return usable == 0 or ghost["idkey"] in ("absent", "none") or ghost["nums"]

    exsures = [rejects_only_malformed_records]


# ------------------------------------------------------------------------------------------------- aggregate async_find


class _FindTransport(StubObj):
    def __init__(self, k):
        self.k = k

    def m_async_find(self, it, device_id, timeout):
        it.ctx.trace.append(("transport_find", self.k, device_id, timeout))
        return ("find-coroutine", self.k)


class _WaitAwaitable(StubObj):
    """assumed contract of asyncio.wait(FIRST_COMPLETED): suspends; then a NON-EMPTY subset of the pending tasks is done
    (each with a discovery, with not-found at its timeout, or with another error), returned in either order; or the
    caller is cancelled while suspended"""

    def __init__(self, pending, return_when):
        self.pending = list(pending)
        self.return_when = return_when

    def sym_await(self, it):
        it.ctx.trace.append(("wait", list(self.pending), self.return_when))
        pend = [t for t in self.pending]
        if it.ctx.choose(["resumed", "caller-cancelled"]) == "caller-cancelled":
            it.ctx.ghost["caller_cancelled"] = True
            it.raise_exc(asyncio.CancelledError)
        idx = list(range(len(pend)))
        subsets = [[i] for i in idx] + ([[0, 1], [1, 0]] if len(pend) == 2 else [])
        chosen = subsets[it.ctx.choose(list(range(len(subsets))))]
        done = []
        for i in chosen:
            t = pend[i]
            fate = it.ctx.choose(["found", "not-found", "other-error"])
            if fate == "found":
                t.state, t.value = "result", SObj(object, label=f"discovery-of-transport")
            elif fate == "not-found":
                t.state, t.value = "exception", it.instantiate(AccessoryNotFoundError, ["not found"], {})
            else:
                t.state, t.value = "exception", it.instantiate(RuntimeError, ["transport failed"], {})
            done.append(t)
        rest = [t for i, t in enumerate(pend) if i not in chosen]
        return (done, rest)


def _await_cancelled_task(it, fut):
    """awaiting a task after cancel(): it ends cancelled"""
    if getattr(fut, "cancel_requested", False):
        fut.state = "cancelled"
        it.raise_exc(asyncio.CancelledError)
    # a finder that was NOT cancelled runs until its own timeout: the caller is held up for that long (recorded)
    it.ctx.ghost["held_up_by_a_running_finder"] = True
    fut.state, fut.value = "exception", it.instantiate(AccessoryNotFoundError, ["not found"], {})
    raise RaiseEx(fut.value)


def _agg_setup(it):
    from aiohomekit.controller.controller import Controller

    n = it.ctx.choose([1, 2])
    c = SObj(Controller, label="controller")
    c.fields["transports"] = {f"t{k}": _FindTransport(k) for k in range(n)}
    it.env.stub(asyncio.wait, lambda it, pending, return_when=asyncio.ALL_COMPLETED, **kw: _WaitAwaitable(pending, return_when))

    def create_task(it, coro, name=None):
        t = aio.TaskStub(coro)
        t.f_coro = coro
        it.ctx.trace.append(("create_task", t))
        return t

    it.env.stub(asyncio.create_task, create_task)
    it.ctx.ghost.update(n=n, caller_cancelled=False, held_up_by_a_running_finder=False)
    return {"self": c, "device_id": it.fresh(Str, "arg_device_id"), "timeout": it.fresh(Int, "arg_timeout")}


def _tasks(trace):
    return [e[1] for e in trace if e[0] == "create_task"]


@contract("aiohomekit.controller.controller:Controller.async_find", prop="C19")
class AggregateFind:
    """the aggregate controller over 1..2 transports, every completion order / outcome of their finders"""

    setup = _agg_setup
    await_policy = _await_cancelled_task
    raises = {AccessoryNotFoundError: True, asyncio.CancelledError: True, RuntimeError: True}

    def every_transport_is_asked(device_id, timeout, trace, ghost):
        asked = [e for e in trace if e[0] == "transport_find"]
        return (
            [e[1] for e in asked] == list(range(ghost["n"]))
            and all(e[2] is device_id and e[3] is timeout for e in asked)
            and len(_tasks(trace)) == ghost["n"]
            and [t.coro for t in _tasks(trace)] == [("find-coroutine", k) for k in range(ghost["n"])]
        )

    def no_finder_left_running(trace, ghost):
        """every finder task has ended or was cancelled AND awaited (state cancelled) - none leaks - and the caller never
        sits out the timeout of a finder it no longer needs; each suspension waits for the FIRST finder to complete"""
        return (
            all(t.state != "pending" for t in _tasks(trace))
            and not ghost["held_up_by_a_running_finder"]
            and all(e[2] == asyncio.FIRST_COMPLETED for e in trace if e[0] == "wait")
        )

    def completed_with_a_discovery_that_was_found(trace, result):
        """as soon as ANY transport's finder completes with a discovery (and no finder reported in the same wake-up before
        it failed with another error) the caller gets that discovery"""
        return any(t.state == "result" and t.value is result for t in _tasks(trace))

    ensures = [every_transport_is_asked, no_finder_left_running, completed_with_a_discovery_that_was_found]

    def not_found_only_when_every_transport_timed_out(trace, ghost, exc):
        ts = _tasks(trace)
        if isinstance(exc, AccessoryNotFoundError):
            # (the not-found error of the aggregate: every finder ran to its own end and none found the device)
            return len(ts) == ghost["n"] and all(t.state == "exception" for t in ts)
        if isinstance(exc, asyncio.CancelledError):
            return ghost["caller_cancelled"]
        return any(t.state == "exception" and t.value is exc for t in ts)

    exsures = [every_transport_is_asked, no_finder_left_running, not_found_only_when_every_transport_timed_out]


def _native(tier, seed):
    from harness import discovery

    return discovery.run(tier, seed, "C19/aiohomekit.controller.ble.controller#native")


def _native_replay(env, con, obs):
    r = _native("quick", 0)
    if r["failures"]:
        f = r["failures"][0]
        f.update({"confirmed": True, "source": "native-harness", "key": f["clause"]})
        return f
    return {"confirmed": False, "inputs_tried": r["cases"]}


BleFind.bounded_run = staticmethod(_native)
BleFind.replay = staticmethod(_native_replay)
UpdateCachedStateNum.replay = staticmethod(_native_replay)
