"""C05: encrypted IP session framing is exact outbound and segmentation-proof inbound."""
import z3

from pyvc.api import contract, LoopInv, Int, Bool, Bytes, ByteArray, Str, ListOf, TupleOf, Opaque, implies
from pyvc.values import SObj, SSeq, SBytes
from pyvc.interp import StubObj
from pyvc.stubs_crypto import AEADObj
from specs.framing import frames, nchunks, join, unf_pts, unf_rem, unf_ctr, unf_fail, BList

from aiohomekit.controller.ip.connection import SecureHomeKitProtocol, InsecureHomeKitProtocol
from aiohomekit.crypto.chacha20poly1305 import ChaCha20Poly1305Encryptor, ChaCha20Poly1305Decryptor


class _Conn(StubObj):
    pass


def make_protocol(it):
    """a SecureHomeKitProtocol in an arbitrary state satisfying its representation invariant.  The object is
    built by the REAL constructor (so every field the class has exists, also ones added later); the fields this
    contract knows are then made arbitrary: counters >= 0, any buffer content.  Fields the contract does not
    name stay at their constructor values (stated assumption)."""
    c2a = it.fresh(Bytes, "c2a_key")
    a2c = it.fresh(Bytes, "a2c_key")
    it.ctx.assume(z3.Length(c2a.term) == 32)
    it.ctx.assume(z3.Length(a2c.term) == 32)
    n0 = len(it.ctx.trace)
    p = it.instantiate(SecureHomeKitProtocol, [_Conn(), a2c, c2a], {})
    del it.ctx.trace[n0:]
    p.label = "proto"
    p.fields["c2a_counter"] = it.fresh(Int, "c2a_counter")
    p.fields["a2c_counter"] = it.fresh(Int, "a2c_counter")
    p.fields["_incoming_buffer"] = it.fresh(ByteArray, "incoming_buffer")
    it.env.assumptions_used.add("object fields not named in the contract are at their constructor values")
    return p


@contract("aiohomekit.controller.ip.connection:InsecureHomeKitProtocol._send_lines", prop="C05", modular=True, assumed=True)
class SendLinesAssumed:
    """assumed at the call site in send_bytes (the method itself is under contract in C08): the iterable is
    handed over as it is; the response is whatever the accessory sends"""

    params = {}
    returns = Opaque("HttpResponse")

    def effects(it, ns):
        it.ctx.ghost.setdefault("sent_lines", []).append(ns["payload"])


@contract("aiohomekit.controller.ip.connection:InsecureHomeKitProtocol.data_received", prop="C05", modular=True, assumed=True)
class PlainDataReceivedAssumed:
    """assumed at the call site in SecureHomeKitProtocol.data_received (HTTP layer: C07/C08): records what
    was delivered to the application layer"""

    params = {}
    modifies = ["self.current_response", "self.result_cbs"]

    def effects(it, ns):
        d = it.ctx.ghost.get("delivered")
        d.term = z3.simplify(z3.Concat(d.term, z3.Unit(ns["data"].term if isinstance(ns["data"], SBytes) else BList.elem.box(ns["data"]))))


def _send_setup(it):
    return {"self": make_protocol(it), "payload": it.fresh(Bytes, "arg_payload")}


@contract("aiohomekit.controller.ip.connection:SecureHomeKitProtocol.send_bytes", prop="C05")
class SendBytes:
    setup = _send_setup
    trusted = ["ideal AEAD (DESIGN 3.3)", "assumed contract of _send_lines (C08)"]

    def pre(self, payload):
        return self.c2a_counter >= 0 and self.c2a_counter + len(payload) < 2 ** 64

    requires = [pre]

    def one_write(ghost):
        """exactly one hand-over to the transport layer per request"""
        return len(ghost["sent_lines"]) == 1

    def wire_bytes(self, old, payload, ghost):
        """what is written is exactly the frame sequence of the spec: <=1024-byte chunks, le16 length as AAD,
        nonce 0000|le64(counter), counters consecutive from the old value"""
        return join(ghost["sent_lines"][0]) == frames(self.c2a_key, old.c2a_counter, payload)

    def counter(self, old, payload):
        return self.c2a_counter == old.c2a_counter + nchunks(payload)

    def keys_unchanged(self, old):
        return self.c2a_key == old.c2a_key and self.a2c_counter == old.a2c_counter

    ensures = [one_write, wire_bytes, counter, keys_unchanged]

    def inv(self, old, payload, payload__old, buffer):
        return (
            join(buffer) + frames(self.c2a_key, self.c2a_counter, payload) == frames(self.c2a_key, old.c2a_counter, payload__old)
            and self.c2a_counter + nchunks(payload) == old.c2a_counter + nchunks(payload__old)
            and self.c2a_counter >= old.c2a_counter
            and self.c2a_counter + len(payload) <= old.c2a_counter + len(payload__old)
        )

    loops = {0: LoopInv(inv, vars={"buffer": BList})}


def _recv_setup(it):
    it.ctx.ghost["delivered"] = SSeq(z3.Empty(BList.z3sort()), Bytes, True)
    return {"self": make_protocol(it), "data": it.fresh(Bytes, "arg_data")}


@contract("aiohomekit.controller.ip.connection:SecureHomeKitProtocol.data_received", prop="C05")
class DataReceived:
    setup = _recv_setup
    trusted = ["ideal AEAD (DESIGN 3.3)", "assumed contract of the plain HTTP layer's data_received (C07/C08)"]

    def pre(self, data):
        return self.a2c_counter >= 0 and self.a2c_counter + len(self._incoming_buffer) + len(data) < 2 ** 63

    requires = [pre]

    def delivered_plaintexts(self, old, data, delivered):
        """the application layer gets exactly the plaintexts of the complete authentic frames of
        old buffer | data, in order; no frame fails"""
        return delivered == unf_pts(old.a2c_key, old.a2c_counter, bytes(old._incoming_buffer) + data) and not unf_fail(
            old.a2c_key, old.a2c_counter, bytes(old._incoming_buffer) + data
        )

    def remainder(self, old, data):
        return bytes(self._incoming_buffer) == unf_rem(old.a2c_key, old.a2c_counter, bytes(old._incoming_buffer) + data)

    def counter(self, old, data):
        return self.a2c_counter == unf_ctr(old.a2c_key, old.a2c_counter, bytes(old._incoming_buffer) + data)

    ensures = [delivered_plaintexts, remainder, counter]

    def auth_failure(self, old, data, delivered):
        """RuntimeError iff a complete frame fails authentication: the frames before it were delivered, the
        failing one (and anything after it) was not"""
        return unf_fail(old.a2c_key, old.a2c_counter, bytes(old._incoming_buffer) + data) and delivered == unf_pts(
            old.a2c_key, old.a2c_counter, bytes(old._incoming_buffer) + data
        )

    raises = {RuntimeError: auth_failure}

    def inv(self, old, data, delivered):
        k = old.a2c_key
        b0 = bytes(old._incoming_buffer) + data
        return (
            self.a2c_key == k
            and self.a2c_counter >= old.a2c_counter
            and self.a2c_counter + len(self._incoming_buffer) <= old.a2c_counter + len(b0)
            and delivered + unf_pts(k, self.a2c_counter, bytes(self._incoming_buffer)) == unf_pts(k, old.a2c_counter, b0)
            and unf_rem(k, self.a2c_counter, bytes(self._incoming_buffer)) == unf_rem(k, old.a2c_counter, b0)
            and unf_ctr(k, self.a2c_counter, bytes(self._incoming_buffer)) == unf_ctr(k, old.a2c_counter, b0)
            and unf_fail(k, self.a2c_counter, bytes(self._incoming_buffer)) == unf_fail(k, old.a2c_counter, b0)
        )

    loops = {0: LoopInv(inv, vars={"ghost.delivered": BList})}


def _framing_scenarios(tier, seed, tag):
    from harness import ip_framing

    r = ip_framing.run(tier, seed, tag)
    r["bound"] = "outbound payload lengths incl. 0/1/1023/1024/1025/2048/2049 and random <= 6000; inbound: every single cut (thorough: every double cut) of a small stream, random sizes/cuts and single-bit corruptions beyond"
    return r


def _replay(tagbase):
    def replay(env, con, obs):
        r = _framing_scenarios("quick", 0, tagbase)
        if r["failures"]:
            f = r["failures"][0]
            f.update({"confirmed": True, "source": "native-harness", "key": f["clause"]})
            return f
        return {"confirmed": False, "inputs_tried": r["cases"], "note": "no scenario of the native harness fails on the real code"}

    return replay


SendBytes.replay = staticmethod(_replay("C05/aiohomekit.controller.ip.connection:SecureHomeKitProtocol#native"))
DataReceived.replay = staticmethod(_replay("C05/aiohomekit.controller.ip.connection:SecureHomeKitProtocol#native"))
DataReceived.bounded_run = staticmethod(lambda tier, seed: _framing_scenarios(tier, seed, "C05/aiohomekit.controller.ip.connection:SecureHomeKitProtocol#native"))
