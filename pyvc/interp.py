"""AST interpreter over concrete + symbolic values (one path per run; forks via Ctx.decide)."""
from __future__ import annotations

import ast
import builtins
import enum
import functools
import inspect
import sys
import textwrap
import types
import z3

from . import ops
from .ctx import Ctx, PathEnd, Infeasible, ReturnEx, BreakEx, ContinueEx, RaiseEx
from .values import (
    set_term, ViewList,
    SV, SInt, SBool, SReal, SBytes, SStr, SSeq, SEnum, SOpaque, SObj, SymRecDict, Unsupported, LazyValue,
    Int, Bool, Real, Bytes, ByteArray, Str, ListOf, TupleOf, sort_of, has_sym, ISEQ, Sort, SArr,
)

REPO_PREFIX = "aiohomekit"
MAX_UNROLL = 48
MAX_DEPTH = 40


class Closure:
    """function defined inside interpreted code (def / lambda), or a real function interpreted."""

    def __init__(self, node, frame, name, fn=None, defaults=None, kwdefaults=None):
        self.node = node
        self.frame = frame  # defining frame (for free variables) or None
        self.name = name
        self.fn = fn
        self.defaults = defaults or []
        self.kwdefaults = kwdefaults or {}

    def __repr__(self):
        return f"<Closure {self.name}>"


class BoundMethod:
    def __init__(self, obj, func):
        self.obj = obj
        self.func = func

    def __repr__(self):
        return f"<Bound {self.func!r} of {self.obj!r}>"


class SymMethod:
    def __init__(self, obj, name):
        self.obj = obj
        self.name = name

    def __repr__(self):
        return f"<SymMethod {type(self.obj).__name__}.{self.name}>"


class Coro:
    """the result of calling an async function: body runs when awaited."""

    def __init__(self, run, label):
        self.run = run
        self.label = label

    def __repr__(self):
        return f"<Coro {self.label}>"


class GenObj:
    """generator object of an interpreted generator function (driven lazily by a stub)"""

    def __init__(self, fn, args, kwargs):
        self.fn = fn
        self.args = args
        self.kwargs = kwargs


class StubObj:
    """Base of environment objects (transports, futures, loops ...). Methods are Python methods
    named m_<name>(self, it, *args, **kwargs); fields are plain attributes listed in `fields`."""

    fields: tuple = ()

    def sym_getattr(self, it, name):
        m = getattr(self, "m_" + name, None)
        if m is not None:
            return functools.partial(_stub_method_call, m, it)
        if name in self.fields or hasattr(self, "f_" + name):
            return getattr(self, "f_" + name)
        raise Unsupported(f"stub {type(self).__name__} has no attribute {name}")

    def sym_setattr(self, it, name, value):
        if hasattr(self, "f_" + name):
            setattr(self, "f_" + name, value)
            return
        raise Unsupported(f"stub {type(self).__name__}: cannot set {name}")


def _stub_method_call(m, it, *args, **kwargs):
    return m(it, *args, **kwargs)


class Frame:
    def __init__(self, fn_globals, parent=None, name="?", fn=None):
        self.locals = {}
        self.globals = fn_globals
        self.parent = parent  # enclosing frame for closures
        self.name = name
        self.fn = fn
        self.nonlocals = set()
        self.globals_decl = set()
        self.is_top = False
        self.cls = None  # class for zero-arg super()

    def lookup(self, name):
        f = self
        while f is not None:
            if name in f.locals:
                return f.locals[name]
            f = f.parent
        g = self.globals
        if name in g:
            return g[name]
        b = g.get("__builtins__", builtins)
        if isinstance(b, dict):
            if name in b:
                return b[name]
        elif hasattr(b, name):
            return getattr(b, name)
        raise NameError(name)

    def store(self, name, value):
        if name in self.nonlocals:
            f = self.parent
            while f is not None:
                if name in f.locals:
                    f.locals[name] = value
                    return
                f = f.parent
        if name in self.globals_decl:
            raise Unsupported("assignment to a global")
        self.locals[name] = value


_src_cache = {}


def function_ast(fn):
    """(FunctionDef node, filename, firstlineno, source) of a real function, re-read from disk."""
    code = fn.__code__
    key = (code.co_filename, code.co_firstlineno, fn.__qualname__)
    if key not in _src_cache:
        lines, first = inspect.getsourcelines(fn)
        src = textwrap.dedent("".join(lines))
        tree = ast.parse(src)
        node = tree.body[0]
        if not isinstance(node, (ast.FunctionDef, ast.AsyncFunctionDef)):
            # lambda or something else
            for n in ast.walk(tree):
                if isinstance(n, ast.Lambda):
                    node = n
                    break
        ast.increment_lineno(tree, first - 1)
        _src_cache[key] = (node, code.co_filename, first, src)
    return _src_cache[key]


def is_repo_function(fn):
    mod = getattr(fn, "__module__", None) or ""
    return mod == REPO_PREFIX or mod.startswith(REPO_PREFIX + ".")


def is_generator_node(node):
    for n in _walk_same_scope(node):
        if isinstance(n, (ast.Yield, ast.YieldFrom)):
            return True
    return False


def _walk_same_scope(node):
    """walk a function body without descending into nested function/class scopes"""
    todo = list(ast.iter_child_nodes(node))
    while todo:
        n = todo.pop()
        yield n
        if isinstance(n, (ast.FunctionDef, ast.AsyncFunctionDef, ast.Lambda, ast.ClassDef)):
            continue
        todo.extend(ast.iter_child_nodes(n))


def loops_in_order(fnode):
    ls = [n for n in _walk_same_scope(fnode) if isinstance(n, (ast.For, ast.While, ast.AsyncFor))]
    ls.sort(key=lambda n: (n.lineno, n.col_offset))
    return ls


class Interp:
    def __init__(self, ctx: Ctx, env):
        self.ctx = ctx
        self.env = env  # Env: stubs, contracts, specs
        self.depth = 0
        self.top_contract = None
        self.frames = []
        self.await_hook = None
        self.loop_unroll_counts = {}

    # ------------------------------------------------------------------ helpers
    def native(self, f, *args, **kwargs):
        try:
            return f(*args, **kwargs)
        except Unsupported:
            raise
        except (RaiseEx, ReturnEx, BreakEx, ContinueEx, PathEnd):
            raise
        except RecursionError:
            raise
        except Exception as e:  # a real exception of the interpreted program
            self.raise_native(e)

    def make_exc(self, cls, *args):
        return SObj(cls, {"args": tuple(args)})

    def raise_native(self, e):
        if self.ctx.pure:
            raise Unsupported(f"exception {type(e).__name__} inside pure expression: {e}")
        fields = {"args": tuple(e.args)}
        for k, v in getattr(e, "__dict__", {}).items():
            fields[k] = v
        self.ctx.raise_line = self.top_line()
        raise RaiseEx(SObj(type(e), fields))

    def raise_exc(self, cls, *args):
        if self.ctx.pure:
            raise Unsupported(f"exception {cls.__name__} inside pure expression")
        self.ctx.raise_line = self.top_line()
        raise RaiseEx(self.make_exc(cls, *args))

    def top_line(self):
        """line (in the function under contract) of the statement being executed"""
        return getattr(self.ctx, "top_stmt_line", None)

    def require(self, cond, cls, *args):
        """raise point: the exception is raised on the paths where `cond` is false (no-op in pure mode,
        where partial operations are unspecified rather than raising)"""
        if self.ctx.pure:
            return
        if not self.ctx.branch(cond):
            self.raise_exc(cls, *args)

    def require_native(self, cond, mk):
        if self.ctx.pure:
            return
        if not self.ctx.branch(cond):
            self.raise_native(mk())

    def opaque_str(self, base="str"):
        return SStr(self.ctx.fresh(base, ISEQ))

    def fresh(self, sort: Sort, base):
        return ops.normalize(self, sort.fresh(self.ctx.fresh, base))

    def truth(self, v):
        if isinstance(v, z3.ExprRef):
            raise TypeError("raw z3 term passed to Interp.truth(): wrap it (ops.mk_bool) or use ctx.branch")
        if not isinstance(v, (SV, SObj, SymRecDict)):
            if isinstance(v, StubObj) and hasattr(v, "sym_truth"):
                return self.truth(v.sym_truth(self))
            return bool(v)
        if isinstance(v, SObj):
            for name in ("__bool__", "__len__"):
                m = self.class_lookup(v.cls, name)
                if m is not None and is_repo_function(m):
                    r = self.call(BoundMethod(v, m), [], {})
                    return self.truth(r)
            return True
        if isinstance(v, SymRecDict):
            raise Unsupported("truth of SymRecDict")
        return self.ctx.branch(ops.truth_term(v))

    def recdict_entry(self, d: SymRecDict, k):
        if k not in d.entries:
            if d.closed:
                d.entries[k] = (False, None)
            else:
                # deterministic names: two records with the same name denote the same map
                has = z3.Const(f"{d.name}_has_{k}", z3.BoolSort())
                val = ops.normalize(self, d.valsort.unbox(z3.Const(f"{d.name}_val_{k}", d.valsort.z3sort())))
                d.entries[k] = (has, val)
        return d.entries[k]

    def recdict_has(self, d, k):
        return self.recdict_entry(d, k)[0]

    # ------------------------------------------------------------------ attribute access
    def class_lookup(self, cls, name):
        for c in cls.__mro__:
            if name in c.__dict__:
                return c.__dict__[name]
        return None

    def getattr_(self, obj, name):
        if isinstance(obj, SObj):
            if name in obj.fields:
                v = obj.fields[name]
                if isinstance(v, LazyValue):
                    v = obj.fields[name] = v.force(self)
                return v
            if name == "__class__":
                return obj.cls
            if name == "__dict__":
                return obj.fields
            a = self.class_lookup(obj.cls, name)
            if a is None:
                ga = self.class_lookup(obj.cls, "__getattr__")
                if ga is not None and is_repo_function(ga):
                    return self.call(BoundMethod(obj, ga), [name], {})
                if self.env.class_assigns_attr(obj.cls, name):
                    # an instance attribute that the class does set somewhere, missing from an object a contract built
                    # by listing fields (e.g. a field added to __init__ later): not modelled, i.e. undecided - not an
                    # AttributeError of the program
                    raise Unsupported(f"field {obj.cls.__name__}.{name} is set by the class but not modelled by the contract's object")
                self.raise_exc(AttributeError, f"'{obj.cls.__name__}' object has no attribute '{name}'")
            return self.bind(obj, a, name)
        if isinstance(obj, StubObj):
            return obj.sym_getattr(self, name)
        if isinstance(obj, SV):
            if isinstance(obj, SEnum):
                if name == "value":
                    return ops.mk_int(obj.term)
                if name in ("name", "description"):
                    return self.env.enum_attr(self, obj, name)
            if isinstance(obj, SInt) and name in ("real",):
                return obj
            return SymMethod(obj, name)
        if isinstance(obj, SymRecDict):
            return SymMethod(obj, name)
        if isinstance(obj, (Closure, BoundMethod)):
            raise Unsupported(f"attribute {name} of function object")
        if obj is None:
            self.raise_exc(AttributeError, f"'NoneType' object has no attribute '{name}'")
        try:
            v = getattr(obj, name)
        except AttributeError as e:
            self.raise_native(e)
        return v

    def bind(self, obj, a, name):
        if isinstance(a, types.FunctionType):
            return BoundMethod(obj, a)
        if isinstance(a, property):
            stub = self.env.lookup_stub(a.fget)
            if stub is not None:
                return stub(self, obj)
            return self.call_function(a.fget, [obj], {})
        if isinstance(a, staticmethod):
            return a.__func__
        if isinstance(a, classmethod):
            return BoundMethod(obj.cls, a.__func__)
        if isinstance(a, functools.cached_property):
            v = self.call_function(a.func, [obj], {})
            obj.fields[name] = v
            return v
        if hasattr(a, "__get__") and not isinstance(a, (type,)) and type(a).__name__ in (
            "member_descriptor", "getset_descriptor", "wrapper_descriptor", "method_descriptor"
        ):
            if type(a).__name__ == "member_descriptor":
                self.raise_exc(AttributeError, name)
            if type(a).__name__ in ("wrapper_descriptor", "method_descriptor"):
                return BoundMethod(obj, a)
            raise Unsupported(f"descriptor {name} on SObj")
        return a

    def setattr_(self, obj, name, value):
        if isinstance(obj, SObj):
            a = self.class_lookup(obj.cls, name)
            if isinstance(a, property):
                if a.fset is None:
                    self.raise_exc(AttributeError, f"can't set attribute {name}")
                self.call_function(a.fset, [obj, value], {})
                return
            obj.fields[name] = value
            return
        if isinstance(obj, StubObj):
            obj.sym_setattr(self, name, value)
            return
        if obj is None:
            self.raise_exc(AttributeError, f"'NoneType' object has no attribute '{name}'")
        raise Unsupported(f"attribute store on {type(obj).__name__}.{name}")

    # ------------------------------------------------------------------ calls
    def call(self, fn, args, kwargs):
        env = self.env
        if isinstance(fn, SymMethod):
            return env.sym_method(self, fn.obj, fn.name, args, kwargs)
        if isinstance(fn, BoundMethod):
            return self.call(fn.func, [fn.obj] + list(args), kwargs)
        if isinstance(fn, Closure):
            return self.call_closure(fn, args, kwargs)
        if isinstance(fn, functools.partial) and fn.func is _stub_method_call:
            return fn(*args, **kwargs)
        if isinstance(fn, functools.partial):
            return self.call(fn.func, list(fn.args) + list(args), {**fn.keywords, **kwargs})
        stub = env.lookup_stub(fn)
        if stub is not None:
            return stub(self, *args, **kwargs)
        if isinstance(fn, types.MethodType):
            # bound method of a concrete object
            return self.call_concrete_method(fn, args, kwargs)
        if isinstance(fn, types.BuiltinMethodType) and getattr(fn, "__self__", None) is not None and not isinstance(
            fn.__self__, types.ModuleType
        ):
            return self.call_concrete_method(fn, args, kwargs)
        if isinstance(fn, types.FunctionType):
            if is_repo_function(fn) or env.is_spec_module(fn):
                return self.call_function(fn, args, kwargs)
            if any(isinstance(a, (SV, SObj, SymRecDict)) for a in args) or any(
                isinstance(a, (SV, SObj, SymRecDict)) for a in kwargs.values()
            ):
                raise Unsupported(f"call of non-repo function {fn.__module__}.{fn.__qualname__} with symbolic args")
            return self.native(fn, *args, **kwargs)
        if isinstance(fn, type):
            return self.instantiate(fn, args, kwargs)
        if isinstance(fn, (types.WrapperDescriptorType, types.MethodDescriptorType)) and args and isinstance(args[0], SObj):
            if fn.__name__ == "__init__":
                if issubclass(args[0].cls, BaseException):
                    args[0].fields["args"] = tuple(args[1:])
                return None
            raise Unsupported(f"builtin method {fn.__qualname__} on an interpreted object")
        if isinstance(fn, SObj):
            m = self.class_lookup(fn.cls, "__call__")
            if m is not None:
                return self.call(BoundMethod(fn, m), args, kwargs)
        if isinstance(fn, StubObj) and hasattr(fn, "sym_call"):
            return fn.sym_call(self, *args, **kwargs)
        if callable(fn):
            if any(isinstance(a, (SV, SObj, SymRecDict)) for a in args) or any(
                isinstance(a, (SV, SObj, SymRecDict)) for a in kwargs.values()
            ):
                raise Unsupported(f"call of {fn!r} with symbolic args (no stub)")
            return self.native(fn, *args, **kwargs)
        self.raise_exc(TypeError, f"object is not callable: {fn!r}")

    def call_concrete_method(self, fn, args, kwargs):
        selfobj = fn.__self__
        name = fn.__name__
        if isinstance(selfobj, (bytes, bytearray, str)) and (
            any(isinstance(a, SV) for a in args) or isinstance(selfobj, bytearray)
        ):
            lifted = (
                SBytes(ops.bytes_term(selfobj), isinstance(selfobj, bytearray))
                if isinstance(selfobj, (bytes, bytearray))
                else SStr(ops.str_term(selfobj))
            )
            if isinstance(selfobj, bytearray) and name in self.env.MUTATORS:
                raise Unsupported("mutation of a concrete (global) bytearray")
            return self.env.sym_method(self, lifted, name, args, kwargs)
        st = self.env.lookup_method_stub(type(selfobj), name)
        if st is not None:
            return st(self, selfobj, *args, **kwargs)
        f = getattr(fn, "__func__", None)
        if isinstance(f, types.FunctionType) and is_repo_function(f):
            return self.call_function(f, [selfobj] + list(args), kwargs)
        if isinstance(selfobj, (list, dict, set, tuple)) or not any(isinstance(a, SV) for a in args):
            return self.native(fn, *args, **kwargs)
        raise Unsupported(f"method {type(selfobj).__name__}.{name} with symbolic args")

    def instantiate(self, cls, args, kwargs):
        env = self.env
        st = env.lookup_stub(cls)
        if st is not None:
            return st(self, *args, **kwargs)
        if issubclass(cls, BaseException):
            obj = SObj(cls, {"args": tuple(args)})
            init = self.class_lookup(cls, "__init__")
            if isinstance(init, types.FunctionType) and is_repo_function(init):
                self.call_function(init, [obj] + list(args), kwargs)
            return obj
        if issubclass(cls, enum.Enum):
            return env.enum_construct(self, cls, args[0])
        if type(cls).__name__ == "_TypedDictMeta" and not args:
            # typing.TypedDict: calling the class is dict(**kwargs) (PEP 589), no validation at run time
            return dict(kwargs)
        mod = getattr(cls, "__module__", "") or ""
        if mod == REPO_PREFIX or mod.startswith(REPO_PREFIX + "."):
            obj = SObj(cls)
            new = self.class_lookup(cls, "__new__")
            init = self.class_lookup(cls, "__init__")
            if isinstance(init, types.FunctionType):
                generated = getattr(cls, "__dataclass_fields__", None) is not None and init.__code__.co_filename.startswith("<")
                if is_repo_function(init) and not generated:
                    self.call_function(init, [obj] + list(args), kwargs)
                elif getattr(cls, "__dataclass_fields__", None) is not None:
                    env.dataclass_init(self, obj, cls, args, kwargs)
                else:
                    raise Unsupported(f"__init__ of {cls.__name__} is not interpretable")
            elif args or kwargs:
                raise Unsupported(f"constructor args for {cls.__name__} without __init__")
            return obj
        if has_sym(args) or has_sym(list(kwargs.values())):
            raise Unsupported(f"constructor {cls.__module__}.{cls.__name__} with symbolic args (no stub)")
        return self.native(cls, *args, **kwargs)

    def call_function(self, fn, args, kwargs):
        """call a real Python function by contract (modular) or by interpreting its source."""
        env = self.env
        con = env.modular_contract(fn, self)
        if con is not None:
            return env.apply_contract(self, con, fn, args, kwargs)
        node, filename, first, src = function_ast(fn)
        clo = Closure(node, None, fn.__qualname__, fn=fn)
        return self.call_closure(clo, args, kwargs)

    def bind_args(self, clo, args, kwargs, frame):
        node = clo.node
        a = node.args
        fn = clo.fn
        params = [p.arg for p in a.posonlyargs + a.args]
        if fn is not None:
            defaults = list(fn.__defaults__ or ())
            kwdefaults = dict(fn.__kwdefaults__ or {})
        else:
            defaults = clo.defaults
            kwdefaults = clo.kwdefaults
        args = list(args)
        kwargs = dict(kwargs)
        n = len(params)
        for i, p in enumerate(params):
            if i < len(args):
                if p in kwargs:
                    self.raise_exc(TypeError, f"multiple values for argument {p}")
                frame.locals[p] = args[i]
            elif p in kwargs:
                frame.locals[p] = kwargs.pop(p)
            else:
                di = i - (n - len(defaults))
                if di < 0:
                    self.raise_exc(TypeError, f"{clo.name}() missing required argument '{p}'")
                frame.locals[p] = defaults[di]
        if a.vararg:
            frame.locals[a.vararg.arg] = tuple(args[n:])
        elif len(args) > n:
            self.raise_exc(TypeError, f"{clo.name}() takes {n} positional arguments but {len(args)} were given")
        for p in a.kwonlyargs:
            if p.arg in kwargs:
                frame.locals[p.arg] = kwargs.pop(p.arg)
            elif p.arg in kwdefaults:
                frame.locals[p.arg] = kwdefaults[p.arg]
            else:
                self.raise_exc(TypeError, f"{clo.name}() missing keyword argument '{p.arg}'")
        if a.kwarg:
            frame.locals[a.kwarg.arg] = kwargs
        elif kwargs:
            self.raise_exc(TypeError, f"{clo.name}() got unexpected keyword arguments {list(kwargs)}")

    def call_closure(self, clo, args, kwargs):
        node = clo.node
        fn = clo.fn
        g = fn.__globals__ if fn is not None else clo.frame.globals
        frame = Frame(g, parent=clo.frame, name=clo.name, fn=fn)
        if fn is not None and "." in fn.__qualname__:
            frame.cls = self.env.owner_class(fn)
        elif clo.frame is not None:
            frame.cls = clo.frame.cls
        if fn is not None and getattr(fn, "__closure__", None):
            # free variables of a real closure (e.g. contract clauses generated in a loop)
            for name, cell in zip(fn.__code__.co_freevars, fn.__closure__):
                try:
                    frame.locals[name] = cell.cell_contents
                except ValueError:
                    pass
        self.bind_args(clo, args, kwargs, frame)
        if isinstance(node, ast.Lambda):
            return self.with_frame(frame, lambda: self.eval(node.body, frame))
        is_async = isinstance(node, ast.AsyncFunctionDef)
        is_gen = is_generator_node(node)
        if is_gen and not is_async:
            return self.env.make_generator(self, clo, frame)
        if is_async:
            return Coro(lambda: self.run_body(node, frame), clo.name)
        return self.run_body(node, frame)

    def with_frame(self, frame, thunk):
        if self.depth > MAX_DEPTH:
            raise Unsupported("interpretation depth exceeded (recursion?)")
        self.depth += 1
        self.frames.append(frame)
        try:
            return thunk()
        finally:
            self.frames.pop()
            self.depth -= 1

    def run_body(self, node, frame):
        def thunk():
            try:
                self.exec_block(node.body, frame)
            except ReturnEx as r:
                return r.value
            return None

        return self.with_frame(frame, thunk)

    # ------------------------------------------------------------------ statements
    def exec_block(self, stmts, frame):
        for s in stmts:
            self.exec(s, frame)

    def exec(self, node, frame):
        if frame.is_top:
            self.ctx.top_stmt_line = node.lineno
        m = getattr(self, "x_" + type(node).__name__, None)
        if m is None:
            raise Unsupported(f"statement {type(node).__name__} at line {getattr(node, 'lineno', '?')}")
        return m(node, frame)

    def x_Expr(self, node, frame):
        if isinstance(node.value, ast.Constant):
            return
        self.eval(node.value, frame)

    def x_Pass(self, node, frame):
        pass

    def x_Global(self, node, frame):
        frame.globals_decl.update(node.names)

    def x_Nonlocal(self, node, frame):
        frame.nonlocals.update(node.names)

    def x_Import(self, node, frame):
        for a in node.names:
            mod = self.native(__import__, a.name)
            frame.store((a.asname or a.name).split(".")[0], mod if not a.asname else sys.modules[a.name])

    def x_ImportFrom(self, node, frame):
        import importlib

        pkg = frame.globals.get("__package__")
        mod = self.native(importlib.import_module, ("." * node.level) + (node.module or ""), pkg if node.level else None)
        for a in node.names:
            frame.store(a.asname or a.name, getattr(mod, a.name))

    def x_Assign(self, node, frame):
        v = self.eval(node.value, frame)
        for t in node.targets:
            self.assign(t, v, frame)

    def x_AnnAssign(self, node, frame):
        if node.value is not None:
            self.assign(node.target, self.eval(node.value, frame), frame)

    def x_AugAssign(self, node, frame):
        t = node.target
        if isinstance(t, ast.Name):
            cur = frame.lookup(t.id)
            new = self.aug(node.op, cur, self.eval(node.value, frame))
            if new is not cur:
                frame.store(t.id, new)
        elif isinstance(t, ast.Attribute):
            obj = self.eval(t.value, frame)
            cur = self.getattr_(obj, t.attr)
            new = self.aug(node.op, cur, self.eval(node.value, frame))
            self.setattr_(obj, t.attr, new)
        elif isinstance(t, ast.Subscript):
            obj = self.eval(t.value, frame)
            idx = self.eval_index(t.slice, frame)
            cur = self.subscript(obj, idx)
            new = self.aug(node.op, cur, self.eval(node.value, frame))
            self.store_subscript(obj, idx, new)
        else:
            raise Unsupported("augassign target")

    def aug(self, op, cur, val):
        # in-place semantics for mutable sequences
        if isinstance(op, ast.Add):
            if isinstance(cur, SBytes) and cur.mutable:
                if not ops.is_byteslike(val):
                    raise Unsupported("bytearray += non-bytes")
                set_term(cur, z3.Concat(cur.term, ops.bytes_term(val)))
                return cur
            if isinstance(cur, list):
                if isinstance(val, (list, tuple)):
                    cur.extend(val)
                    return cur
                raise Unsupported("list += symbolic")
            if isinstance(cur, SSeq) and cur.mutable:
                r = ops.binop(self, op, cur, val)
                set_term(cur, r.term)
                return cur
            if isinstance(cur, bytearray):
                raise Unsupported("+= on concrete bytearray")
        if isinstance(cur, (set, dict)) and isinstance(op, (ast.BitOr, ast.Sub, ast.BitAnd)):
            raise Unsupported("in-place set/dict operator")
        return ops.binop(self, op, cur, val)

    def assign(self, target, v, frame):
        if isinstance(target, ast.Name):
            frame.store(target.id, v)
        elif isinstance(target, (ast.Tuple, ast.List)):
            items = self.unpack(v, len(target.elts), any(isinstance(e, ast.Starred) for e in target.elts))
            if any(isinstance(e, ast.Starred) for e in target.elts):
                k = next(i for i, e in enumerate(target.elts) if isinstance(e, ast.Starred))
                after = len(target.elts) - k - 1
                head = items[:k]
                mid = items[k: len(items) - after]
                tail = items[len(items) - after:] if after else []
                for e, x in zip(target.elts[:k], head):
                    self.assign(e, x, frame)
                self.assign(target.elts[k].value, list(mid), frame)
                for e, x in zip(target.elts[k + 1:], tail):
                    self.assign(e, x, frame)
            else:
                for e, x in zip(target.elts, items):
                    self.assign(e, x, frame)
        elif isinstance(target, ast.Attribute):
            obj = self.eval(target.value, frame)
            self.setattr_(obj, target.attr, v)
        elif isinstance(target, ast.Subscript):
            obj = self.eval(target.value, frame)
            idx = self.eval_index(target.slice, frame)
            self.store_subscript(obj, idx, v)
        else:
            raise Unsupported(f"assign target {type(target).__name__}")

    def unpack(self, v, n, starred=False):
        if isinstance(v, (tuple, list)):
            if (len(v) != n and not starred) or (starred and len(v) < n - 1):
                self.raise_exc(ValueError, f"not enough/too many values to unpack (expected {n}, got {len(v)})")
            return list(v)
        if isinstance(v, (SV, SymRecDict)):
            return self.env.sym_unpack(self, v, n, starred)
        if isinstance(v, SObj):
            raise Unsupported("unpack of object")
        try:
            items = list(v)
        except TypeError as e:
            self.raise_native(e)
        if len(items) != n and not starred:
            self.raise_exc(ValueError, f"unpack expected {n}, got {len(items)}")
        return items

    def x_Return(self, node, frame):
        v = self.eval(node.value, frame) if node.value is not None else None
        if frame.is_top:
            self.ctx.exit_line = node.lineno
        raise ReturnEx(v)

    def x_Break(self, node, frame):
        raise BreakEx()

    def x_Continue(self, node, frame):
        raise ContinueEx()

    def x_If(self, node, frame):
        self.ctx.path_lines.append(node.lineno)
        if self.truth(self.eval(node.test, frame)):
            self.exec_block(node.body, frame)
        else:
            self.exec_block(node.orelse, frame)

    def x_Assert(self, node, frame):
        if self.env.is_type_narrowing_assert(node):
            return
        if frame.fn is not None and (getattr(frame.fn, "__module__", "") or "").startswith("lemmas"):
            # an intermediate assertion of a proof: proved here, usable afterwards
            from .verify import contract_tag

            self.ctx.pure += 1
            try:
                r = self.eval(node.test, frame)
            finally:
                self.ctx.pure -= 1
            # (an intermediate assertion usually follows from the few facts established just before it: the discharger
            # first tries it from the last dozen hypotheses alone - proving from fewer hypotheses is sound)
            prev_mark = getattr(self.ctx, "pc_mark", None)
            self.ctx.pc_mark = max(0, len(self.ctx.pc) - 12)
            try:
                self.ctx.oblige(f"{contract_tag(self.top_contract)}/assert.L{node.lineno - frame.fn.__code__.co_firstlineno}", ops.truth_term(r))
            finally:
                self.ctx.pc_mark = prev_mark
            return
        if not self.truth(self.eval(node.test, frame)):
            self.raise_exc(AssertionError)

    def x_Delete(self, node, frame):
        for t in node.targets:
            if isinstance(t, ast.Name):
                frame.locals.pop(t.id, None)
            elif isinstance(t, ast.Subscript):
                obj = self.eval(t.value, frame)
                idx = self.eval_index(t.slice, frame)
                self.del_subscript(obj, idx)
            elif isinstance(t, ast.Attribute):
                obj = self.eval(t.value, frame)
                if isinstance(obj, SObj):
                    if t.attr not in obj.fields:
                        self.raise_exc(AttributeError, t.attr)
                    del obj.fields[t.attr]
                else:
                    raise Unsupported("del attribute")
            else:
                raise Unsupported("del target")

    def x_Raise(self, node, frame):
        if node.exc is None:
            cur = getattr(frame, "handling", None)
            f = frame
            if not cur:
                raise Unsupported("bare raise outside handler")
            raise RaiseEx(cur[-1])
        e = self.eval(node.exc, frame)
        if isinstance(e, type) and issubclass(e, BaseException):
            e = self.instantiate(e, [], {})
        if not isinstance(e, SObj):
            if isinstance(e, BaseException):
                self.raise_native(e)
            raise Unsupported(f"raise of {e!r}")
        cause = None
        if node.cause is not None:
            cause = self.eval(node.cause, frame)
            e.fields["__cause__"] = cause
        self.ctx.raise_line = self.top_line()
        raise RaiseEx(e, cause)

    def exc_matches(self, exc, spec):
        if isinstance(spec, tuple):
            return any(self.exc_matches(exc, s) for s in spec)
        if isinstance(spec, type):
            return issubclass(exc.cls, spec)
        raise Unsupported(f"except clause with non-class {spec!r}")

    def x_Try(self, node, frame):
        def body():
            try:
                self.exec_block(node.body, frame)
            except RaiseEx as r:
                for h in node.handlers:
                    if h.type is None or self.exc_matches(r.exc, self.eval(h.type, frame)):
                        if h.name:
                            frame.store(h.name, r.exc)
                        if not hasattr(frame, "handling"):
                            frame.handling = []
                        frame.handling.append(r.exc)
                        try:
                            self.exec_block(h.body, frame)
                        finally:
                            frame.handling.pop()
                            if h.name:
                                frame.locals.pop(h.name, None)
                        return
                raise
            else:
                self.exec_block(node.orelse, frame)

        if node.finalbody:
            try:
                body()
            except (RaiseEx, ReturnEx, BreakEx, ContinueEx):
                self.exec_block(node.finalbody, frame)
                raise
            else:
                self.exec_block(node.finalbody, frame)
        else:
            body()

    def x_With(self, node, frame, is_async=False):
        self.exec_with(node.items, node.body, frame, is_async)

    def x_AsyncWith(self, node, frame):
        self.exec_with(node.items, node.body, frame, True)

    def exec_with(self, items, body, frame, is_async):
        if not items:
            self.exec_block(body, frame)
            return
        item = items[0]
        mgr = self.eval(item.context_expr, frame)
        enter, exit_ = self.env.context_manager(self, mgr, is_async)
        v = enter()
        if item.optional_vars is not None:
            self.assign(item.optional_vars, v, frame)
        try:
            self.exec_with(items[1:], body, frame, is_async)
        except RaiseEx as r:
            suppressed = exit_(r.exc)
            if not (suppressed is True):
                raise
        except (ReturnEx, BreakEx, ContinueEx):
            exit_(None)
            raise
        else:
            exit_(None)

    def x_FunctionDef(self, node, frame):
        defaults = [self.eval(d, frame) for d in node.args.defaults]
        kwdefaults = {
            a.arg: self.eval(d, frame) for a, d in zip(node.args.kwonlyargs, node.args.kw_defaults) if d is not None
        }
        clo = Closure(node, frame, node.name, defaults=defaults, kwdefaults=kwdefaults)
        if node.decorator_list:
            raise Unsupported("decorated nested function")
        frame.store(node.name, clo)

    x_AsyncFunctionDef = x_FunctionDef

    # loops ---------------------------------------------------------------------------
    def x_While(self, node, frame):
        inv = self.env.loop_invariant(self, frame, node)
        if inv is not None:
            return self.env.run_loop_with_invariant(self, frame, node, inv, None)
        n = 0
        while True:
            if not self.truth(self.eval(node.test, frame)):
                self.exec_block(node.orelse, frame)
                return
            n += 1
            if n > MAX_UNROLL:
                raise Unsupported(f"while loop at line {node.lineno} needs an invariant (unrolled {n}x)")
            try:
                self.exec_block(node.body, frame)
            except BreakEx:
                return
            except ContinueEx:
                continue

    def x_For(self, node, frame):
        it = self.eval(node.iter, frame)
        inv = self.env.loop_invariant(self, frame, node)
        if inv is not None and (getattr(inv[2], "inductive", False) or not (isinstance(it, (range, list, tuple)) and len(it) <= 16)):
            return self.env.run_loop_with_invariant(self, frame, node, inv, it)
        # (a short CONCRETE iterable is simply unrolled, invariant or not)
        for item in self.iterate(it, node.lineno):
            self.assign(node.target, item, frame)
            try:
                self.exec_block(node.body, frame)
            except BreakEx:
                return
            except ContinueEx:
                continue
        self.exec_block(node.orelse, frame)

    def iterate(self, it, lineno=0):
        """concrete-length iteration; symbolic sequences are unrolled while feasible up to a bound."""
        if isinstance(it, (SBytes, SStr, SSeq)):
            n = 0
            while True:
                ln = z3.Length(it.term)
                if not self.ctx.branch(z3.IntVal(n) < ln):
                    return
                if n >= MAX_UNROLL:
                    raise Unsupported(f"for loop at line {lineno} over a symbolic sequence needs an invariant")
                yield ops.index(self, it, n)
                n += 1
            return
        if isinstance(it, SymRecDict):
            raise Unsupported("iteration over SymRecDict")
        if isinstance(it, SObj):
            raise Unsupported("iteration over object")
        if isinstance(it, StubObj) and hasattr(it, "sym_iter"):
            yield from it.sym_iter(self)
            return
        if isinstance(it, GenObj):
            yield from self.env.drain_generator(self, it)
            return
        if isinstance(it, SV):
            raise Unsupported(f"iteration over {type(it).__name__}")
        try:
            iterator = iter(it)
        except TypeError as e:
            self.raise_native(e)
        if isinstance(it, dict):
            # dictionary changed size during iteration is a real RuntimeError; iterate a snapshot
            # but detect modification
            keys = list(it.keys())
            n0 = len(it)
            for k in keys:
                if len(it) != n0:
                    self.raise_exc(RuntimeError, "dictionary changed size during iteration")
                yield k
            return
        if isinstance(it, (set, frozenset)):
            n0 = len(it)
            for k in list(it):
                if len(it) != n0:
                    self.raise_exc(RuntimeError, "Set changed size during iteration")
                yield k
            return
        if isinstance(it, list):
            i = 0
            while i < len(it):
                yield it[i]
                i += 1
            return
        yield from iterator

    # ------------------------------------------------------------------ expressions
    def eval(self, node, frame):
        m = getattr(self, "e_" + type(node).__name__, None)
        if m is None:
            raise Unsupported(f"expression {type(node).__name__} at line {getattr(node, 'lineno', '?')}")
        return m(node, frame)

    def e_Constant(self, node, frame):
        return node.value

    def e_Name(self, node, frame):
        try:
            return frame.lookup(node.id)
        except NameError:
            if self.ctx.pure:
                raise Unsupported(f"name {node.id} not available in contract expression")
            self.raise_exc(UnboundLocalError if node.id in self.assigned_names(frame) else NameError, node.id)

    def assigned_names(self, frame):
        return set()

    def e_Attribute(self, node, frame):
        return self.getattr_(self.eval(node.value, frame), node.attr)

    def e_Tuple(self, node, frame):
        return tuple(self.eval_elts(node.elts, frame))

    def e_List(self, node, frame):
        return list(self.eval_elts(node.elts, frame))

    def e_Set(self, node, frame):
        vals = self.eval_elts(node.elts, frame)
        if any(isinstance(v, SV) for v in vals):
            raise Unsupported("set display with symbolic members")
        return set(vals)

    def eval_elts(self, elts, frame):
        out = []
        for e in elts:
            if isinstance(e, ast.Starred):
                out.extend(self.iterate(self.eval(e.value, frame)))
            else:
                out.append(self.eval(e, frame))
        return out

    def concrete_key(self, k):
        """a dict key with symbolic integers that the path condition pins to single values (e.g. after `x == 10` was
        taken) becomes the concrete key; anything else is not modelled"""
        if isinstance(k, tuple):
            return tuple(self.concrete_key(x) if (isinstance(x, SV) or (isinstance(x, tuple) and has_sym(x))) else x for x in k)
        if isinstance(k, SInt):
            v = self.ctx.pinned_int(k.term)
            if v is not None:
                return v
        raise Unsupported(f"dict display with symbolic key {type(k).__name__} {str(getattr(k, 'term', k))[:200]}")

    def e_Dict(self, node, frame):
        d = {}
        for k, v in zip(node.keys, node.values):
            if k is None:
                other = self.eval(v, frame)
                if not isinstance(other, dict):
                    raise Unsupported("** of non-dict in dict display")
                d.update(other)
            else:
                kk = self.eval(k, frame)
                if isinstance(kk, SV) or (isinstance(kk, tuple) and has_sym(kk)):
                    kk = self.concrete_key(kk)
                d[kk] = self.eval(v, frame)
        return d

    def e_JoinedStr(self, node, frame):
        parts = []
        for v in node.values:
            if isinstance(v, ast.Constant):
                parts.append(v.value)
            else:
                parts.append(self.e_FormattedValue(v, frame))
        if all(isinstance(p, str) for p in parts):
            return "".join(parts)
        t = None
        for p in parts:
            pt = ops.str_term(p)
            t = pt if t is None else z3.Concat(t, pt)
        return ops.mk_str(t)

    def e_FormattedValue(self, node, frame):
        v = self.eval(node.value, frame)
        spec = None
        if node.format_spec is not None:
            spec = self.eval(node.format_spec, frame)
        return self.env.format_value(self, v, node.conversion, spec)

    def e_BinOp(self, node, frame):
        a = self.eval(node.left, frame)
        b = self.eval(node.right, frame)
        return self.binop(node.op, a, b)

    def binop(self, op, a, b):
        if isinstance(a, SObj) or isinstance(b, SObj) or isinstance(a, StubObj) or isinstance(b, StubObj):
            return self.env.obj_binop(self, op, a, b)
        return ops.binop(self, op, a, b)

    def e_UnaryOp(self, node, frame):
        return ops.unaryop(self, node.op, self.eval(node.operand, frame))

    def e_BoolOp(self, node, frame):
        is_and = isinstance(node.op, ast.And)
        if self.ctx.pure:
            vals = []
            for e in node.values:
                v = self.eval(e, frame)
                if not isinstance(v, SV):
                    # concrete: Python short-circuit semantics decide
                    if bool(v) != is_and:
                        # and: falsy stops; or: truthy stops
                        if not vals:
                            return v
                        vals.append(v)
                        break
                    continue
                vals.append(v)
            if not vals:
                return is_and if not node.values else v
            terms = [ops.truth_term(v) for v in vals]
            return ops.mk_bool(ops.t_and(*terms) if is_and else ops.t_or(*terms))
        v = None
        for e in node.values:
            v = self.eval(e, frame)
            t = self.truth(v)
            if is_and and not t:
                return v if not isinstance(v, SV) else self._falsy_of(v)
            if not is_and and t:
                return v
        return v

    def _falsy_of(self, v):
        return v

    def e_Compare(self, node, frame):
        left = self.eval(node.left, frame)
        result = True
        terms = []
        for op, rn in zip(node.ops, node.comparators):
            right = self.eval(rn, frame)
            r = self.compare(op, left, right)
            if len(node.ops) == 1:
                return r
            if self.ctx.pure:
                terms.append(r)
            else:
                if not self.truth(r):
                    return False
            left = right
        if self.ctx.pure:
            return ops.mk_bool(ops.t_and(*[t if not isinstance(t, SBool) else t.term for t in terms]))
        return True

    def compare(self, op, a, b):
        if isinstance(a, StubObj) and hasattr(a, "sym_compare"):
            return a.sym_compare(self, op, b)
        if isinstance(b, StubObj) and hasattr(b, "sym_rcompare"):
            return b.sym_rcompare(self, op, a)
        if isinstance(op, (ast.In, ast.NotIn)) and isinstance(b, SObj):
            m = self.class_lookup(b.cls, "__contains__")
            if m is not None:
                r = self.call(BoundMethod(b, m), [a], {})
                return r if isinstance(op, ast.In) else ops.unaryop(self, ast.Not(), r)
        if isinstance(op, (ast.Eq, ast.NotEq)) and (isinstance(a, SObj) or isinstance(b, SObj)):
            o = a if isinstance(a, SObj) else b
            m = self.class_lookup(o.cls, "__eq__")
            if m is not None and isinstance(m, types.FunctionType) and is_repo_function(m):
                r = self.call(BoundMethod(o, m), [b if o is a else a], {})
                return r if isinstance(op, ast.Eq) else ops.unaryop(self, ast.Not(), r)
        return ops.compare(self, op, a, b)

    def e_IfExp(self, node, frame):
        c = self.eval(node.test, frame)
        if self.ctx.pure and isinstance(c, SV):
            a = self.eval(node.body, frame)
            b = self.eval(node.orelse, frame)
            return self.env.ite(self, ops.truth_term(c), a, b)
        if self.truth(c):
            return self.eval(node.body, frame)
        return self.eval(node.orelse, frame)

    def e_NamedExpr(self, node, frame):
        v = self.eval(node.value, frame)
        self.assign(node.target, v, frame)
        return v

    def e_Lambda(self, node, frame):
        defaults = [self.eval(d, frame) for d in node.args.defaults]
        return Closure(node, frame, "<lambda>", defaults=defaults)

    def e_Starred(self, node, frame):
        raise Unsupported("starred expression here")

    def e_Slice(self, node, frame):
        lo = self.eval(node.lower, frame) if node.lower is not None else None
        hi = self.eval(node.upper, frame) if node.upper is not None else None
        st = self.eval(node.step, frame) if node.step is not None else None
        return ("slice", lo, hi, st)

    def eval_index(self, node, frame):
        if isinstance(node, ast.Slice):
            return self.e_Slice(node, frame)
        return self.eval(node, frame)

    def e_Subscript(self, node, frame):
        obj = self.eval(node.value, frame)
        idx = self.eval_index(node.slice, frame)
        return self.subscript(obj, idx)

    def subscript(self, obj, idx):
        is_slice = isinstance(idx, tuple) and len(idx) == 4 and idx[0] == "slice"
        if isinstance(obj, (SBytes, SStr, SSeq)):
            if is_slice:
                return ops.slice_(self, obj, idx[1], idx[2], idx[3])
            return ops.index(self, obj, idx)
        if isinstance(obj, SArr):
            return ops.normalize(self, obj.vsort.unbox(z3.Select(obj.term, obj.isort.box(idx))))
        if isinstance(obj, SymRecDict):
            if isinstance(idx, SV):
                raise Unsupported("symbolic key in SymRecDict")
            has, val = self.recdict_entry(obj, idx)
            if not self.ctx.pure:
                if not self.ctx.branch(has):
                    self.raise_exc(KeyError, idx)
            return val
        if isinstance(obj, SObj):
            m = self.class_lookup(obj.cls, "__getitem__")
            if m is None:
                self.raise_exc(TypeError, "object is not subscriptable")
            return self.call(BoundMethod(obj, m), [slice(*idx[1:]) if is_slice else idx], {})
        if isinstance(obj, StubObj):
            return obj.sym_getitem(self, idx)
        if obj is None:
            self.raise_exc(TypeError, "'NoneType' object is not subscriptable")
        if isinstance(obj, SV):
            raise Unsupported(f"subscript of {type(obj).__name__}")
        # concrete container
        if is_slice:
            lo, hi, st = idx[1:]
            if any(isinstance(x, SV) for x in (lo, hi, st)):
                if isinstance(obj, (bytes, bytearray, str)):
                    return ops.slice_(self, obj, lo, hi, st)
                raise Unsupported("symbolic slice bounds on concrete list")
            return self.native(lambda: obj[slice(lo, hi, st)])
        if isinstance(idx, SV):
            if isinstance(obj, (bytes, bytearray, str)):
                return ops.index(self, obj, idx)
            if isinstance(obj, dict):
                return self.env.dict_sym_lookup(self, obj, idx)
            if isinstance(obj, (list, tuple)) and ops.is_intlike(idx):
                return self.env.list_sym_index(self, obj, idx)
            raise Unsupported(f"symbolic index into {type(obj).__name__}")
        if isinstance(idx, tuple) and has_sym(idx) and isinstance(obj, dict):
            return self.env.dict_sym_lookup(self, obj, idx)
        return self.native(lambda: obj[idx])

    def store_subscript(self, obj, idx, v):
        is_slice = isinstance(idx, tuple) and len(idx) == 4 and idx[0] == "slice"
        if isinstance(obj, SBytes):
            if not obj.mutable:
                self.raise_exc(TypeError, "'bytes' object does not support item assignment")
            return self.env.bytearray_store(self, obj, idx, v, is_slice)
        if isinstance(obj, SymRecDict):
            if isinstance(idx, SV):
                raise Unsupported("symbolic key store in SymRecDict")
            obj.entries[idx] = (True, v)
            return
        if isinstance(obj, SSeq):
            return self.env.sseq_store(self, obj, idx, v, is_slice)
        if isinstance(obj, SObj):
            m = self.class_lookup(obj.cls, "__setitem__")
            if m is None:
                self.raise_exc(TypeError, "object does not support item assignment")
            return self.call(BoundMethod(obj, m), [idx, v], {})
        if isinstance(obj, StubObj):
            return obj.sym_setitem(self, idx, v)
        if isinstance(obj, (list, dict)):
            if is_slice:
                lo, hi, st = idx[1:]
                if any(isinstance(x, SV) for x in (lo, hi, st)):
                    raise Unsupported("symbolic slice store")
                obj[slice(lo, hi, st)] = v
                return
            if isinstance(idx, SV) or (isinstance(idx, tuple) and has_sym(idx)):
                if isinstance(obj, dict):
                    return self.env.dict_sym_store(self, obj, idx, v)
                raise Unsupported("symbolic index store")

            def do():
                obj[idx] = v

            return self.native(do)
        if obj is None:
            self.raise_exc(TypeError, "'NoneType' object does not support item assignment")
        raise Unsupported(f"subscript store on {type(obj).__name__}")

    def del_subscript(self, obj, idx):
        is_slice = isinstance(idx, tuple) and len(idx) == 4 and idx[0] == "slice"
        if isinstance(obj, SBytes) and obj.mutable and is_slice:
            n = z3.Length(obj.term)
            a, b = ops.slice_bounds(self, n, idx[1], idx[2])
            # del s[a:b]  ==  s[:a] + s[max(a,b):]
            bb = z3.If(b < a, a, b)
            set_term(obj, z3.Concat(z3.Extract(obj.term, z3.IntVal(0), a), z3.Extract(obj.term, bb, n - bb)))
            return
        if isinstance(obj, (list, dict)) and not has_sym(idx):
            def do():
                if is_slice:
                    del obj[slice(*idx[1:])]
                else:
                    del obj[idx]

            return self.native(do)
        if isinstance(obj, SymRecDict) and not isinstance(idx, SV):
            has, _ = self.recdict_entry(obj, idx)
            if not self.ctx.branch(has):
                self.raise_exc(KeyError, idx)
            obj.entries[idx] = (False, None)
            return
        if isinstance(obj, dict):
            return self.env.dict_sym_delete(self, obj, idx)
        raise Unsupported(f"del subscript on {type(obj).__name__}")

    def e_Call(self, node, frame):
        # zero-arg super()
        if isinstance(node.func, ast.Name) and node.func.id == "super" and not node.args:
            selfobj = frame.locals.get(next(iter(frame.locals), None)) if frame.locals else None
            fnode = None
            cls = frame.cls
            f = frame
            while cls is None and f is not None:
                cls = f.cls
                f = f.parent
            first = None
            fr = frame
            while fr is not None and fr.fn is None and fr.parent is not None:
                fr = fr.parent
            if fr.fn is not None:
                n0, *_ = function_ast(fr.fn)
                if n0.args.args:
                    first = fr.locals.get(n0.args.args[0].arg)
            return self.env.make_super(self, cls, first)
        if isinstance(node.func, ast.Attribute) and self.env.is_logger_call(self, node, frame):
            # the call itself has no effect, but its ARGUMENTS are evaluated like any others (they are computed whether or
            # not the level is enabled, and computing them can raise: TLV.to_string did).  An argument outside the
            # supported subset is skipped and listed as an assumption in the evidence.
            if not self.ctx.pure:
                for a in list(node.args) + [k.value for k in node.keywords]:
                    if isinstance(a, (ast.Constant, ast.Name, ast.Attribute)):
                        continue
                    try:
                        txt = ast.unparse(a)[:80]
                    except Exception:  # noqa: BLE001
                        txt = "<expr>"
                    # a call of a function that has a contract for call sites is evaluated (by that contract: cheap, and
                    # its `raises` are taken into account); anything else is skipped and listed as an assumption
                    fn = None
                    if isinstance(a, ast.Call):
                        try:
                            fn = self.eval(a.func, frame)
                        except Unsupported:
                            fn = None
                    target = getattr(fn, "__func__", fn)
                    if isinstance(target, types.FunctionType) and self.env.modular_contract(target, self) is not None:
                        self.eval(a, frame)
                    else:
                        self.env.assumptions_used.add(f"argument of a logging call not evaluated (assumed not to raise): {txt}")
            return None
        fn = self.eval(node.func, frame)
        args = []
        for a in node.args:
            if isinstance(a, ast.Starred):
                args.extend(self.iterate(self.eval(a.value, frame)))
            else:
                args.append(self.eval(a, frame))
        kwargs = {}
        for k in node.keywords:
            if k.arg is None:
                d = self.eval(k.value, frame)
                if not isinstance(d, dict):
                    raise Unsupported("** of non-dict")
                kwargs.update(d)
            else:
                kwargs[k.arg] = self.eval(k.value, frame)
        self.ctx.cur_line = node.lineno
        return self.call(fn, args, kwargs)

    def e_Await(self, node, frame):
        v = self.eval(node.value, frame)
        return self.env.do_await(self, v, node)

    def e_Yield(self, node, frame):
        v = self.eval(node.value, frame) if node.value is not None else None
        return self.env.do_yield(self, v, frame)

    def e_YieldFrom(self, node, frame):
        raise Unsupported("yield from")

    # comprehensions ------------------------------------------------------------------
    def _comp(self, node, frame, emit):
        inner = Frame(frame.globals, parent=frame, name="<comp>")
        inner.cls = frame.cls

        def rec(i):
            if i == len(node.generators):
                emit(inner)
                return
            g = node.generators[i]
            if g.is_async:
                raise Unsupported("async comprehension")
            src = self.eval(g.iter, inner if i else frame)
            for item in self.iterate(src, node.lineno):
                self.assign(g.target, item, inner)
                if all(self.truth(self.eval(c, inner)) for c in g.ifs):
                    rec(i + 1)

        self.with_frame(inner, lambda: rec(0))

    def e_ListComp(self, node, frame):
        r = self.env.comprehension_hook(self, node, frame)
        if r is not NotImplemented:
            return r
        out = []
        self._comp(node, frame, lambda fr: out.append(self.eval(node.elt, fr)))
        return out

    def e_GeneratorExp(self, node, frame):
        r = self.env.comprehension_hook(self, node, frame)
        if r is not NotImplemented:
            return r
        out = []
        self._comp(node, frame, lambda fr: out.append(self.eval(node.elt, fr)))
        return out

    def e_SetComp(self, node, frame):
        out = []
        self._comp(node, frame, lambda fr: out.append(self.eval(node.elt, fr)))
        if any(isinstance(v, SV) for v in out):
            raise Unsupported("set comprehension with symbolic members")
        return set(out)

    def e_DictComp(self, node, frame):
        out = {}

        def emit(fr):
            k = self.eval(node.key, fr)
            if isinstance(k, SV) or (isinstance(k, tuple) and has_sym(k)):
                raise Unsupported("dict comprehension with symbolic key")
            out[k] = self.eval(node.value, fr)

        self._comp(node, frame, emit)
        return out
