"""Symbolic values and sort descriptors for pyvc.

A value manipulated by the interpreter is either an ordinary (concrete) Python object
or one of the wrappers below around a z3 term.  Containers (list/tuple/dict) are real
Python containers holding such values, so aliasing and mutation of containers come for
free from CPython; only *symbolic-length* sequences use SSeq.
"""
from __future__ import annotations

import itertools
import z3

INT = z3.IntSort()
BOOL = z3.BoolSort()
REAL = z3.RealSort()
ISEQ = z3.SeqSort(INT)


class Unsupported(Exception):
    """The function under contract left the supported subset: verdict 'undecided', never a violation."""


class SV:
    """Base of symbolic values.  Native truthiness / equality / hashing are traps so that a
    native library call can never silently decide something about a symbolic value."""

    __slots__ = ()

    def __bool__(self):
        raise Unsupported(f"native truth test of symbolic {type(self).__name__}")

    def __eq__(self, other):
        raise Unsupported(f"native == on symbolic {type(self).__name__}")

    def __ne__(self, other):
        raise Unsupported(f"native != on symbolic {type(self).__name__}")

    __hash__ = object.__hash__

    def __iter__(self):
        raise Unsupported(f"native iteration of symbolic {type(self).__name__}")

    def __len__(self):
        raise Unsupported(f"native len of symbolic {type(self).__name__}")

    def __index__(self):
        raise Unsupported(f"native index of symbolic {type(self).__name__}")


class SInt(SV):
    __slots__ = ("term", "nonneg")

    def __init__(self, term, nonneg=False):
        self.term = term
        self.nonneg = nonneg  # known >= 0 (bound variable of a quantifier over a range starting at >= 0)

    def __repr__(self):
        return f"SInt({self.term})"


class SBool(SV):
    __slots__ = ("term",)

    def __init__(self, term):
        self.term = term

    def __repr__(self):
        return f"SBool({self.term})"


class SReal(SV):
    __slots__ = ("term",)

    def __init__(self, term):
        self.term = term

    def __repr__(self):
        return f"SReal({self.term})"


class SBytes(SV):
    """bytes (mutable=False) or bytearray (mutable=True): a Seq Int whose elements are 0..255."""

    __slots__ = ("term", "mutable", "wb")

    def __init__(self, term, mutable=False):
        self.term = term
        self.mutable = mutable
        self.wb = None  # write-back hook when this value is an element of a symbolic list

    def __repr__(self):
        return f"SBytes({'ba' if self.mutable else 'b'}:{self.term})"


class SStr(SV):
    """str as a Seq Int of code points."""

    __slots__ = ("term",)

    def __init__(self, term):
        self.term = term

    def __repr__(self):
        return f"SStr({self.term})"


class SSeq(SV):
    """list (mutable) / tuple (immutable) of symbolic length over element sort `elem`."""

    __slots__ = ("term", "elem", "mutable", "wb", "version")

    def __init__(self, term, elem, mutable=True):
        self.term = term
        self.elem = elem
        self.mutable = mutable
        self.wb = None
        self.version = 0

    def __repr__(self):
        return f"SSeq({self.term})"


class SEnum(SV):
    """member of an Enum class whose value is an int term."""

    __slots__ = ("cls", "term")

    def __init__(self, cls, term):
        self.cls = cls
        self.term = term

    def __repr__(self):
        return f"SEnum({self.cls.__name__},{self.term})"


class SOpaque(SV):
    """a value of an uninterpreted sort (keys, handles, JSON blobs ...)."""

    __slots__ = ("term", "kind")

    def __init__(self, term, kind):
        self.term = term
        self.kind = kind

    def __repr__(self):
        return f"SOpaque({self.kind}:{self.term})"


class SArr(SV):
    """total map (z3 Array) from an index sort to a value sort; used for ghost heaps (e.g. future states)"""

    __slots__ = ("term", "isort", "vsort")

    def __init__(self, term, isort, vsort):
        self.term = term
        self.isort = isort
        self.vsort = vsort

    def __repr__(self):
        return f"SArr({self.term})"


_obj_ids = itertools.count(1)


class SObj:
    """A heap object: instance of a real class `cls` with interpreter-managed fields."""

    def __init__(self, cls, fields=None, label=None):
        self.cls = cls
        self.fields = dict(fields or {})
        self.oid = next(_obj_ids)
        self.label = label

    def __repr__(self):
        return f"<SObj {self.cls.__name__}#{self.label or self.oid}>"


class LazyValue:
    """a field value that is decided (possibly by forking) when the code under contract first reads it; contracts
    must not read it (forking inside a pure clause is rejected), they talk about it through ghost symbols"""

    _UNSET = object()

    def __init__(self, make):
        self.make = make
        self.value = LazyValue._UNSET

    def force(self, it):
        if self.value is LazyValue._UNSET:
            self.value = self.make(it)
        return self.value


class SymRecDict:
    """dict with concrete (literal) keys that are looked up lazily: each key k has a presence
    flag and a value.  Models `dict(<arbitrary list of pairs>)`: an arbitrary finite map."""

    def __init__(self, name, valsort, entries=None, closed=False):
        self.name = name
        self.valsort = valsort
        self.entries = dict(entries or {})  # key -> (has: z3 Bool | bool, value)
        self.closed = closed  # closed: keys not in entries are absent

    def __repr__(self):
        return f"<SymRecDict {self.name} {list(self.entries)}>"


# --------------------------------------------------------------------------------------
# sort descriptors


class Sort:
    name = "?"

    def z3sort(self):
        raise NotImplementedError

    def fresh(self, mk, name):
        """mk(name, z3sort) -> fresh constant"""
        return self.unbox(mk(name, self.z3sort()))

    def box(self, v):
        raise NotImplementedError

    def unbox(self, t):
        raise NotImplementedError

    def __repr__(self):
        return self.name


class _Int(Sort):
    name = "Int"

    def z3sort(self):
        return INT

    def box(self, v):
        if isinstance(v, SInt):
            return v.term
        if isinstance(v, SBool):
            return z3.If(v.term, z3.IntVal(1), z3.IntVal(0))
        if isinstance(v, bool):
            return z3.IntVal(int(v))
        if isinstance(v, int):
            return z3.IntVal(v)
        if isinstance(v, SEnum):
            return v.term
        raise Unsupported(f"box Int from {type(v).__name__}")

    def unbox(self, t):
        return SInt(t)


class _Bool(Sort):
    name = "Bool"

    def z3sort(self):
        return BOOL

    def box(self, v):
        if isinstance(v, SBool):
            return v.term
        if isinstance(v, bool):
            return z3.BoolVal(v)
        raise Unsupported(f"box Bool from {type(v).__name__}")

    def unbox(self, t):
        return SBool(t)


class _Real(Sort):
    name = "Real"

    def z3sort(self):
        return REAL

    def box(self, v):
        if isinstance(v, SReal):
            return v.term
        if isinstance(v, SInt):
            return z3.ToReal(v.term)
        if isinstance(v, (int, float)) and not isinstance(v, bool):
            from fractions import Fraction

            f = Fraction(v)
            return z3.RealVal(f"{f.numerator}/{f.denominator}")
        raise Unsupported(f"box Real from {type(v).__name__}")

    def unbox(self, t):
        return SReal(t)


def bytes_lit(b):
    if len(b) == 0:
        return z3.Empty(ISEQ)
    units = [z3.Unit(z3.IntVal(x)) for x in b]
    return units[0] if len(units) == 1 else z3.Concat(*units)


def str_lit(s):
    return bytes_lit([ord(c) for c in s])


class _Bytes(Sort):
    def __init__(self, mutable=False):
        self.mutable = mutable
        self.name = "ByteArray" if mutable else "Bytes"

    def z3sort(self):
        return ISEQ

    def box(self, v):
        if isinstance(v, SBytes):
            return v.term
        if isinstance(v, (bytes, bytearray)):
            return bytes_lit(v)
        raise Unsupported(f"box Bytes from {type(v).__name__}")

    def unbox(self, t):
        return SBytes(t, self.mutable)


class _Str(Sort):
    name = "Str"

    def z3sort(self):
        return ISEQ

    def box(self, v):
        if isinstance(v, SStr):
            return v.term
        if isinstance(v, str):
            return str_lit(v)
        raise Unsupported(f"box Str from {type(v).__name__}")

    def unbox(self, t):
        return SStr(t)


Int = _Int()
Bool = _Bool()
Real = _Real()
Bytes = _Bytes(False)
ByteArray = _Bytes(True)
Str = _Str()

_dt_cache = {}


class TupleOf(Sort):
    """fixed-arity tuple; Python-side a real tuple (or 2-list when aslist) of unboxed components."""

    def __init__(self, *elems, aslist=False):
        self.elems = elems
        self.aslist = aslist
        self.name = "Tup_" + "_".join(e.name for e in elems)
        key = self.name
        if key not in _dt_cache:
            dt = z3.Datatype(key)
            dt.declare("mk_" + key, *[(f"{key}_f{i}", e.z3sort()) for i, e in enumerate(elems)])
            _dt_cache[key] = dt.create()
        self.dt = _dt_cache[key]

    def z3sort(self):
        return self.dt

    def box(self, v):
        if isinstance(v, (tuple, list)) and len(v) == len(self.elems):
            return self.dt.constructor(0)(*[e.box(x) for e, x in zip(self.elems, v)])
        raise Unsupported(f"box {self.name} from {v!r}")

    def unbox(self, t):
        comps = [e.unbox(self.dt.accessor(0, i)(t)) for i, e in enumerate(self.elems)]
        return list(comps) if self.aslist else tuple(comps)


class ListOf(Sort):
    def __init__(self, elem, mutable=True):
        self.elem = elem
        self.mutable = mutable
        self.name = f"List_{elem.name}"

    def z3sort(self):
        return z3.SeqSort(self.elem.z3sort())

    def box(self, v):
        if isinstance(v, SSeq):
            return v.term
        if isinstance(v, (list, tuple)):
            if not v:
                return z3.Empty(self.z3sort())
            units = [z3.Unit(self.elem.box(x)) for x in v]
            return units[0] if len(units) == 1 else z3.Concat(*units)
        raise Unsupported(f"box {self.name} from {type(v).__name__}")

    def unbox(self, t):
        return SSeq(t, self.elem, self.mutable)


class EnumOf(Sort):
    def __init__(self, cls):
        self.cls = cls
        self.name = f"Enum_{cls.__name__}"

    def z3sort(self):
        return INT

    def box(self, v):
        if isinstance(v, SEnum):
            return v.term
        if isinstance(v, self.cls):
            return z3.IntVal(int(v.value))
        raise Unsupported(f"box {self.name} from {v!r}")

    def unbox(self, t):
        return SEnum(self.cls, t)


_opaque_sorts = {}


class Opaque(Sort):
    def __init__(self, kind):
        self.kind = kind
        self.name = f"Opq_{kind}"
        if kind not in _opaque_sorts:
            _opaque_sorts[kind] = z3.DeclareSort(kind)
        self.s = _opaque_sorts[kind]

    def z3sort(self):
        return self.s

    def box(self, v):
        if isinstance(v, SOpaque) and v.kind == self.kind:
            return v.term
        raise Unsupported(f"box {self.name} from {v!r}")

    def unbox(self, t):
        return SOpaque(t, self.kind)


def set_term(obj, term, structural=False):
    """in-place mutation of a mutable symbolic sequence (bytearray / list); propagates to the
    enclosing symbolic list when the value was obtained as one of its elements."""
    obj.term = z3.simplify(term)
    if structural and isinstance(obj, SSeq):
        obj.version += 1
    if obj.wb is not None:
        obj.wb()


class ViewList(list):
    """a 2-list (or n-list) element of a symbolic list; stores write through."""

    wb = None

    def __setitem__(self, i, v):
        list.__setitem__(self, i, v)
        if self.wb is not None:
            self.wb()


class ArrayOf(Sort):
    def __init__(self, isort, vsort):
        self.isort, self.vsort = isort, vsort
        self.name = f"Arr_{isort.name}_{vsort.name}"

    def z3sort(self):
        return z3.ArraySort(self.isort.z3sort(), self.vsort.z3sort())

    def box(self, v):
        if isinstance(v, SArr):
            return v.term
        raise Unsupported(f"box {self.name} from {v!r}")

    def unbox(self, t):
        return SArr(t, self.isort, self.vsort)


def sort_of(v):
    """Sort descriptor matching the dynamic type of a value (for havoc)."""
    if isinstance(v, SInt) or (isinstance(v, int) and not isinstance(v, bool)):
        return Int
    if isinstance(v, (SBool, bool)):
        return Bool
    if isinstance(v, (SReal, float)):
        return Real
    if isinstance(v, SBytes):
        return ByteArray if v.mutable else Bytes
    if isinstance(v, bytes):
        return Bytes
    if isinstance(v, bytearray):
        return ByteArray
    if isinstance(v, (SStr, str)):
        return Str
    if isinstance(v, SSeq):
        return ListOf(v.elem, v.mutable)
    if isinstance(v, SEnum):
        return EnumOf(v.cls)
    if isinstance(v, SOpaque):
        return Opaque(v.kind)
    if isinstance(v, SArr):
        return ArrayOf(v.isort, v.vsort)
    if isinstance(v, tuple) and v:
        return TupleOf(*[sort_of(x) for x in v])
    raise Unsupported(f"no sort for {type(v).__name__} value {v!r}")


def is_sym(v):
    return isinstance(v, SV)


def has_sym(v, depth=0):
    if isinstance(v, (SV, SObj, SymRecDict)):
        return True
    if depth > 4:
        return False
    if isinstance(v, (list, tuple, set, frozenset)):
        return any(has_sym(x, depth + 1) for x in v)
    if isinstance(v, dict):
        return any(has_sym(k, depth + 1) or has_sym(x, depth + 1) for k, x in v.items())
    return False
