"""Operations on symbolic values (arithmetic, sequences, comparison).  All functions take the
interpreter `it` first when they may fork or raise into the interpreted program."""
from __future__ import annotations

import enum
import operator
import ast
import z3

from .values import (
    SV, SInt, SBool, SReal, SBytes, SStr, SSeq, SEnum, SOpaque, SObj, SymRecDict, Unsupported,
    Int, Bool, Real, Bytes, ByteArray, Str, ListOf, TupleOf, bytes_lit, str_lit, sort_of, ISEQ,
)

# ---------------------------------------------------------------------------------------
# normalisation


def mk_int(t):
    t = z3.simplify(t)
    if z3.is_int_value(t):
        return t.as_long()
    return SInt(t)


def mk_bool(t):
    if isinstance(t, bool):
        return t
    t = z3.simplify(t)
    if z3.is_true(t):
        return True
    if z3.is_false(t):
        return False
    return SBool(t)


def mk_real(t):
    t = z3.simplify(t)
    if z3.is_rational_value(t):
        return float(t.numerator_as_long()) / float(t.denominator_as_long())
    return SReal(t)


def seq_literal(t):
    """if t (simplified) is a literal Seq Int, return list of ints, else None"""
    t = z3.simplify(t)
    out = []

    def walk(x):
        if x.decl().kind() == z3.Z3_OP_SEQ_EMPTY:
            return True
        if x.decl().kind() == z3.Z3_OP_SEQ_UNIT:
            a = x.arg(0)
            if z3.is_int_value(a):
                out.append(a.as_long())
                return True
            return False
        if x.decl().kind() == z3.Z3_OP_SEQ_CONCAT:
            return all(walk(c) for c in x.children())
        return False

    return out if walk(t) else None


def mk_bytes(t, mutable=False):
    t = z3.simplify(t)
    if not mutable:
        lit = seq_literal(t)
        if lit is not None and all(0 <= x <= 255 for x in lit):
            return bytes(lit)
    return SBytes(t, mutable)


def mk_str(t):
    t = z3.simplify(t)
    lit = seq_literal(t)
    if lit is not None and all(0 <= x < 0x110000 for x in lit):
        return "".join(chr(x) for x in lit)
    return SStr(t)


def is_intlike(v):
    return isinstance(v, (SInt, SBool, int)) or (isinstance(v, SEnum) and issubclass(v.cls, int))


def is_reallike(v):
    return isinstance(v, (SReal, float))


def is_byteslike(v):
    return isinstance(v, (SBytes, bytes, bytearray))


def is_strlike(v):
    return isinstance(v, (SStr, str))


def int_term(v):
    return Int.box(v)


def real_term(v):
    return Real.box(v)


def bool_term(v):
    if isinstance(v, SBool):
        return v.term
    if isinstance(v, bool):
        return z3.BoolVal(v)
    raise Unsupported(f"bool_term of {type(v).__name__}")


def bytes_term(v):
    return Bytes.box(v)


def str_term(v):
    return Str.box(v)


def seq_term(v):
    if isinstance(v, (SBytes, SStr, SSeq)):
        return v.term
    if isinstance(v, (bytes, bytearray)):
        return bytes_lit(v)
    if isinstance(v, str):
        return str_lit(v)
    raise Unsupported(f"seq_term of {type(v).__name__}")


def is_mutable_bytes(v):
    return isinstance(v, bytearray) or (isinstance(v, SBytes) and v.mutable)


def length(v):
    return mk_int(z3.Length(seq_term(v)))


# ---------------------------------------------------------------------------------------
# equality


def sym_eq(a, b):
    """Python `a == b` as a Python bool or a z3 Bool term."""
    if not isinstance(a, (SV, SObj, SymRecDict)) and not isinstance(b, (SV, SObj, SymRecDict)):
        if isinstance(a, (list, tuple)) and isinstance(b, (list, tuple)):
            if type(a) is not type(b) and not (isinstance(a, list) and isinstance(b, list)) and not (
                isinstance(a, tuple) and isinstance(b, tuple)
            ):
                return False
            if len(a) != len(b):
                return False
            parts = [sym_eq(x, y) for x, y in zip(a, b)]
            if any(p is False for p in parts):
                return False
            terms = [p for p in parts if p is not True]
            if not terms:
                return True
            return z3.And(*terms) if len(terms) > 1 else terms[0]
        if isinstance(a, dict) and isinstance(b, dict):
            if set(a.keys()) != set(b.keys()):
                return False
            parts = [sym_eq(a[k], b[k]) for k in a]
            if any(p is False for p in parts):
                return False
            terms = [p for p in parts if p is not True]
            if not terms:
                return True
            return z3.And(*terms) if len(terms) > 1 else terms[0]
        return a == b
    if a is None or b is None:
        return False
    if isinstance(a, SObj) or isinstance(b, SObj):
        return a is b
    if is_intlike(a) and is_intlike(b):
        return int_term(a) == int_term(b)
    if (is_intlike(a) or is_reallike(a)) and (is_intlike(b) or is_reallike(b)):
        return real_term(a) == real_term(b)
    if isinstance(a, (SBool, bool)) and isinstance(b, (SBool, bool)):
        return bool_term(a) == bool_term(b)
    if is_byteslike(a) and is_byteslike(b):
        return bytes_term(a) == bytes_term(b)
    if is_strlike(a) and is_strlike(b):
        return str_term(a) == str_term(b)
    if isinstance(a, SEnum) or isinstance(b, SEnum):
        if isinstance(a, SEnum) and isinstance(b, SEnum):
            return a.term == b.term if a.cls is b.cls else False
        e, o = (a, b) if isinstance(a, SEnum) else (b, a)
        if isinstance(o, e.cls):
            return e.term == z3.IntVal(int(o.value))
        if issubclass(e.cls, int) and is_intlike(o):
            return e.term == int_term(o)
        return False
    if isinstance(a, SOpaque) and isinstance(b, SOpaque) and a.kind == b.kind:
        return a.term == b.term
    from .values import SArr

    if isinstance(a, SArr) and isinstance(b, SArr):
        return a.term == b.term
    if isinstance(a, SSeq) or isinstance(b, SSeq):
        s, o = (a, b) if isinstance(a, SSeq) else (b, a)
        if isinstance(o, SSeq):
            if s.term.sort() != o.term.sort():
                raise Unsupported("== between sequences of different element sorts")
            return s.term == o.term
        if isinstance(o, (list, tuple)):
            return s.term == ListOf(s.elem).box(o)
        return False
    if isinstance(a, (list, tuple)) and isinstance(b, (list, tuple)):
        if len(a) != len(b):
            return False
        parts = [sym_eq(x, y) for x, y in zip(a, b)]
        if any(p is False for p in parts):
            return False
        terms = [p for p in parts if p is not True]
        if not terms:
            return True
        return z3.And(*terms) if len(terms) > 1 else terms[0]
    # a str never equals a non-str object (e.g. an Enum member that is not a str subclass), same for bytes
    for x, y in ((a, b), (b, a)):
        if isinstance(x, SStr) and not isinstance(y, (SV, str)):
            return False
        if isinstance(x, SBytes) and not isinstance(y, (SV, bytes, bytearray)):
            return False
    # different kinds (bytes vs str, int vs bytes ...) are unequal in Python
    kinds = [is_intlike, is_reallike, is_byteslike, is_strlike]
    ka = [k(a) for k in kinds]
    kb = [k(b) for k in kinds]
    if any(ka) and any(kb) and ka != kb:
        return False
    if isinstance(a, (list, tuple, dict, set)) != isinstance(b, (list, tuple, dict, set)):
        return False
    raise Unsupported(f"== between {type(a).__name__} and {type(b).__name__}")


def t_not(t):
    if isinstance(t, bool):
        return not t
    return z3.Not(t)


def t_and(*ts):
    out = []
    for t in ts:
        if isinstance(t, SBool):
            t = t.term
        if t is False:
            return False
        if t is True:
            continue
        out.append(t)
    if not out:
        return True
    return z3.And(*out) if len(out) > 1 else out[0]


def t_or(*ts):
    out = []
    for t in ts:
        if isinstance(t, SBool):
            t = t.term
        if t is True:
            return True
        if t is False:
            continue
        out.append(t)
    if not out:
        return False
    return z3.Or(*out) if len(out) > 1 else out[0]


# ---------------------------------------------------------------------------------------
# arithmetic

_ARITH = {
    ast.Add: operator.add, ast.Sub: operator.sub, ast.Mult: operator.mul, ast.Div: operator.truediv,
    ast.FloorDiv: operator.floordiv, ast.Mod: operator.mod, ast.Pow: operator.pow,
    ast.LShift: operator.lshift, ast.RShift: operator.rshift, ast.BitOr: operator.or_,
    ast.BitXor: operator.xor, ast.BitAnd: operator.and_, ast.MatMult: operator.matmul,
}


def _bit_and_const(x, mask):
    """x & mask for a concrete non-negative mask, via floor div/mod (valid for all Python ints)."""
    if mask < 0:
        raise Unsupported("& with negative mask")
    total = None
    b = 0
    m = mask
    # contiguous runs are cheaper: ((x div 2^lo) mod 2^(hi-lo)) * 2^lo
    while m:
        if m & 1:
            lo = b
            while m & 1:
                m >>= 1
                b += 1
            width = b - lo
            part = ((x / z3.IntVal(1 << lo)) % z3.IntVal(1 << width)) * z3.IntVal(1 << lo) if lo else (
                x % z3.IntVal(1 << width)
            )
            total = part if total is None else total + part
        else:
            m >>= 1
            b += 1
    return total if total is not None else z3.IntVal(0)


def binop(it, op, a, b):
    opt = type(op)
    if not isinstance(a, (SV, SObj)) and not isinstance(b, (SV, SObj)):
        if isinstance(a, (list, tuple)) or not _needs_sym(a, b):
            return it.native(_ARITH[opt], a, b)
    # numbers
    if is_intlike(a) and is_intlike(b):
        x, y = int_term(a), int_term(b)
        if opt is ast.Add:
            return mk_int(x + y)
        if opt is ast.Sub:
            return mk_int(x - y)
        if opt is ast.Mult:
            return mk_int(x * y)
        if opt in (ast.FloorDiv, ast.Mod):
            if isinstance(b, int):
                if b == 0:
                    it.raise_native(ZeroDivisionError("integer division or modulo by zero"))
                if b > 0:
                    return mk_int(x / y if opt is ast.FloorDiv else x % y)
                q = (-x) / z3.IntVal(-b)
                return mk_int(q if opt is ast.FloorDiv else x - y * q)
            it.require_native(y != 0, lambda: ZeroDivisionError("integer division or modulo by zero"))
            if it.ctx.pure:
                q = z3.If(y > 0, x / y, (-x) / (-y))
                return mk_int(q if opt is ast.FloorDiv else x - y * q)
            if it.ctx.branch(y > 0):
                return mk_int(x / y if opt is ast.FloorDiv else x % y)
            q = (-x) / (-y)
            return mk_int(q if opt is ast.FloorDiv else x - y * q)
        if opt is ast.Div:
            if isinstance(b, int) and b == 0:
                it.raise_native(ZeroDivisionError("division by zero"))
            if not isinstance(b, int):
                it.require_native(y != 0, lambda: ZeroDivisionError("division by zero"))
            return mk_real(z3.ToReal(x) / z3.ToReal(y))
        if opt is ast.Pow and isinstance(b, int) and 0 <= b <= 64:
            r = z3.IntVal(1)
            for _ in range(b):
                r = r * x
            return mk_int(r)
        if opt is ast.Pow and isinstance(a, int) and a == 2:
            raise Unsupported("2 ** symbolic")
        if opt is ast.LShift and isinstance(b, int) and b >= 0:
            return mk_int(x * z3.IntVal(1 << b))
        if opt is ast.RShift and isinstance(b, int) and b >= 0:
            return mk_int(x / z3.IntVal(1 << b))
        if opt is ast.BitAnd:
            if isinstance(b, int) and not isinstance(b, bool):
                return mk_int(_bit_and_const(x, b))
            if isinstance(a, int) and not isinstance(a, bool):
                return mk_int(_bit_and_const(y, a))
            if isinstance(a, (SBool, bool)) and isinstance(b, (SBool, bool)):
                return mk_bool(z3.And(bool_term(a), bool_term(b)))
        if opt is ast.BitOr:
            if isinstance(b, int) and not isinstance(b, bool) and b >= 0:
                return mk_int(x + z3.IntVal(b) - _bit_and_const(x, b))
            if isinstance(a, int) and not isinstance(a, bool) and a >= 0:
                return mk_int(y + z3.IntVal(a) - _bit_and_const(y, a))
            if isinstance(a, (SBool, bool)) and isinstance(b, (SBool, bool)):
                return mk_bool(z3.Or(bool_term(a), bool_term(b)))
        if opt is ast.BitXor and isinstance(a, (SBool, bool)) and isinstance(b, (SBool, bool)):
            return mk_bool(z3.Xor(bool_term(a), bool_term(b)))
        raise Unsupported(f"int op {opt.__name__} on symbolic operands")
    if (is_intlike(a) or is_reallike(a)) and (is_intlike(b) or is_reallike(b)):
        x, y = real_term(a), real_term(b)
        if opt is ast.Add:
            return mk_real(x + y)
        if opt is ast.Sub:
            return mk_real(x - y)
        if opt is ast.Mult:
            return mk_real(x * y)
        if opt is ast.Div:
            it.require_native(y != 0, lambda: ZeroDivisionError("float division by zero"))
            return mk_real(x / y)
        raise Unsupported(f"real op {opt.__name__}")
    # sequences
    if is_byteslike(a) and is_byteslike(b) and opt is ast.Add:
        return mk_bytes(z3.Concat(bytes_term(a), bytes_term(b)), is_mutable_bytes(a))
    if is_strlike(a) and is_strlike(b) and opt is ast.Add:
        return mk_str(z3.Concat(str_term(a), str_term(b)))
    if (is_byteslike(a) or is_strlike(a)) and isinstance(b, int) and opt is ast.Mult:
        t = seq_term(a)
        r = z3.Empty(ISEQ)
        for _ in range(max(b, 0)):
            r = z3.Concat(r, t)
        return mk_bytes(r, is_mutable_bytes(a)) if is_byteslike(a) else mk_str(r)
    if isinstance(a, SSeq) and opt is ast.Add:
        if isinstance(b, SSeq):
            if a.term.sort() != b.term.sort():
                raise Unsupported("+ between sequences of different element sorts")
            return SSeq(z3.Concat(a.term, b.term), a.elem, a.mutable)
        if isinstance(b, (list, tuple)):
            return SSeq(z3.simplify(z3.Concat(a.term, ListOf(a.elem).box(b))), a.elem, a.mutable) if b else SSeq(
                a.term, a.elem, a.mutable
            )
    if isinstance(b, SSeq) and isinstance(a, (list, tuple)) and opt is ast.Add:
        return SSeq(z3.simplify(z3.Concat(ListOf(b.elem).box(a), b.term)), b.elem, b.mutable) if a else SSeq(
            b.term, b.elem, b.mutable
        )
    if is_strlike(a) and opt is ast.Mod:
        return it.opaque_str("fmt")
    raise Unsupported(f"binop {opt.__name__} on {type(a).__name__}, {type(b).__name__}")


def _needs_sym(a, b):
    return isinstance(a, SV) or isinstance(b, SV)


def unaryop(it, op, a):
    opt = type(op)
    if opt is ast.Not:
        if it.ctx.pure and isinstance(a, SV):
            return mk_bool(z3.Not(truth_term(a)))
        return not it.truth(a)
    if not isinstance(a, SV):
        return it.native({ast.USub: operator.neg, ast.UAdd: operator.pos, ast.Invert: operator.invert}[opt], a)
    if is_intlike(a):
        x = int_term(a)
        if opt is ast.USub:
            return mk_int(-x)
        if opt is ast.UAdd:
            return mk_int(x)
        if opt is ast.Invert:
            return mk_int(-x - 1)
    if is_reallike(a):
        if opt is ast.USub:
            return mk_real(-real_term(a))
        if opt is ast.UAdd:
            return a
    raise Unsupported(f"unary {opt.__name__} on {type(a).__name__}")


def truth_term(v):
    """truthiness as a term / bool, without forking."""
    if isinstance(v, SBool):
        return v.term
    if isinstance(v, SInt):
        return v.term != 0
    if isinstance(v, SReal):
        return v.term != 0
    if isinstance(v, (SBytes, SStr, SSeq)):
        return z3.Length(v.term) > 0
    if isinstance(v, SEnum):
        if issubclass(v.cls, int):
            return v.term != 0
        return True
    if isinstance(v, SOpaque):
        return True
    if isinstance(v, SV):
        raise Unsupported(f"truth of {type(v).__name__}")
    return bool(v)


_CMP = {
    ast.Lt: operator.lt, ast.LtE: operator.le, ast.Gt: operator.gt, ast.GtE: operator.ge,
}


def compare(it, op, a, b):
    """single comparison; returns Python bool or SBool (no fork)."""
    opt = type(op)
    if opt is ast.Is:
        return _identity(a, b)
    if opt is ast.IsNot:
        return not _identity(a, b)
    if opt is ast.Eq:
        return mk_bool(sym_eq(a, b))
    if opt is ast.NotEq:
        return mk_bool(t_not(sym_eq(a, b)))
    if opt in (ast.In, ast.NotIn):
        r = contains(it, b, a)
        return mk_bool(r if opt is ast.In else t_not(r))
    if not isinstance(a, SV) and not isinstance(b, SV):
        return it.native(_CMP[opt], a, b)
    if is_intlike(a) and is_intlike(b):
        return mk_bool(_CMP[opt](int_term(a), int_term(b)))
    if (is_intlike(a) or is_reallike(a)) and (is_intlike(b) or is_reallike(b)):
        return mk_bool(_CMP[opt](real_term(a), real_term(b)))
    raise Unsupported(f"compare {opt.__name__} on {type(a).__name__}, {type(b).__name__}")


def _identity(a, b):
    if a is None or b is None:
        return a is b
    if isinstance(a, SV) or isinstance(b, SV):
        if isinstance(a, SV) and isinstance(b, SV):
            return a is b
        if isinstance(a, (bool,)) or isinstance(b, (bool,)):
            # `x is True` with symbolic bool
            s, o = (a, b) if isinstance(a, SV) else (b, a)
            if isinstance(s, SBool):
                return mk_bool(s.term == z3.BoolVal(o))
        if isinstance(a, SEnum) or isinstance(b, SEnum):
            return mk_bool(sym_eq(a, b))
        return False
    return a is b


def contains(it, container, x):
    """x in container -> bool / term"""
    if isinstance(container, SymRecDict):
        if isinstance(x, SV):
            raise Unsupported("symbolic key lookup in SymRecDict")
        return it.recdict_has(container, x)
    if isinstance(container, (SBytes, bytes, bytearray)):
        if is_intlike(x):
            return z3.Contains(bytes_term(container), z3.Unit(int_term(x)))
        if is_byteslike(x):
            return z3.Contains(bytes_term(container), bytes_term(x))
        raise Unsupported("in bytes")
    if isinstance(container, (SStr,)) or (isinstance(container, str) and isinstance(x, SStr)):
        return z3.Contains(str_term(container), str_term(x))
    if isinstance(container, SSeq):
        return z3.Contains(container.term, z3.Unit(container.elem.box(x)))
    if isinstance(container, dict):
        if not isinstance(x, SV):
            try:
                return x in container
            except Unsupported:
                pass
        return t_or(*[sym_eq(x, k) for k in container.keys()])
    if isinstance(container, (list, tuple, set, frozenset)):
        if not isinstance(x, SV) and not any(isinstance(k, SV) for k in container):
            return x in container
        return t_or(*[sym_eq(x, k) for k in container])
    if hasattr(container, "sym_contains"):
        return container.sym_contains(it, x)
    if isinstance(container, SV):
        raise Unsupported(f"in {type(container).__name__}")
    if isinstance(x, SV):
        raise Unsupported(f"symbolic in {type(container).__name__}")
    return it.native(operator.contains, container, x)


# ---------------------------------------------------------------------------------------
# indexing and slicing


def _norm_index(it, idx, n):
    """Python index normalisation; returns (term, in_range_term)."""
    if isinstance(idx, int) and not isinstance(idx, bool):
        i = z3.IntVal(idx) if idx >= 0 else n + z3.IntVal(idx)
    else:
        i0 = int_term(idx)
        if getattr(idx, "nonneg", False):
            i = i0
        elif it.ctx.pure:
            i = z3.If(i0 < 0, n + i0, i0)
        elif it.ctx.branch(i0 < 0):
            i = n + i0
        else:
            i = i0
    return i, z3.And(i >= 0, i < n)


def index(it, s, idx):
    """s[idx] for symbolic sequences (raise point IndexError)."""
    t = seq_term(s)
    n = z3.Length(t)
    i, ok = _norm_index(it, idx, n)
    if not it.ctx.pure:
        it.require_native(ok, lambda: IndexError("index out of range"))
    if isinstance(s, (SBytes, bytes, bytearray)):
        e = z3.simplify(t[i])
        if not z3.is_int_value(e):
            it.ctx.assume(z3.And(e >= 0, e <= 255))
        return mk_int(e)
    if isinstance(s, (SStr, str)):
        return mk_str(z3.Unit(t[i]))
    if isinstance(s, SSeq):
        v = unbox_elem(it, s.elem, z3.simplify(t[i]))
        if s.mutable and not it.ctx.pure:
            v = attach_view(s, i, v)
        return v
    raise Unsupported("index")


def attach_view(seq, i, v):
    """make in-place mutations of a mutable element of a symbolic list write through to the list"""
    from .values import ViewList, set_term

    if isinstance(v, list):
        v = ViewList(v)
    elif not (isinstance(v, (SBytes, SSeq)) and v.mutable):
        return v
    ver = seq.version

    def wb():
        if seq.version != ver:
            raise Unsupported("write through a stale view of a symbolic list element")
        n = z3.Length(seq.term)
        set_term(seq, z3.Concat(z3.Extract(seq.term, z3.IntVal(0), i), z3.Unit(seq.elem.box(v)), z3.Extract(seq.term, i + 1, n - i - 1)))

    if isinstance(v, ViewList):
        v.wb = wb
        for x in v:
            if isinstance(x, (SBytes, SSeq)) and x.mutable:
                x.wb = wb
    else:
        v.wb = wb
    return v


def unbox_elem(it, sort, term):
    v = sort.unbox(term)
    return normalize(it, v)


def normalize(it, v):
    """simplify leaves; assume byte ranges are not needed here."""
    if isinstance(v, SInt):
        return mk_int(v.term)
    if isinstance(v, SBool):
        return mk_bool(v.term)
    if isinstance(v, SBytes):
        return mk_bytes(v.term, v.mutable)
    if isinstance(v, SStr):
        return mk_str(v.term)
    if isinstance(v, tuple):
        return tuple(normalize(it, x) for x in v)
    if isinstance(v, list):
        return [normalize(it, x) for x in v]
    return v


def slice_bounds(it, n, lo, hi):
    """normalised (start, stop) terms for s[lo:hi], step 1; Python clamping semantics."""

    def norm(x, default, is_hi):
        if x is None:
            return default
        if isinstance(x, int) and not isinstance(x, bool):
            if x >= 0:
                return z3.IntVal(x)
            v = n + z3.IntVal(x)
            if is_hi:
                # s[a:-k]: a stop below the start yields the empty sequence with or without clamping
                return v
            return z3.If(v < 0, z3.IntVal(0), v)
        t = int_term(x)
        if it.ctx.pure:
            return z3.If(t < 0, z3.If(n + t < 0, z3.IntVal(0), n + t), t)
        if it.ctx.branch(t < 0):
            v = n + t
            return z3.If(v < 0, z3.IntVal(0), v)
        return t

    return norm(lo, z3.IntVal(0), False), norm(hi, n, True)


def slice_(it, s, lo, hi, step=None):
    if step is not None and step != 1:
        raise Unsupported("slice step on symbolic sequence")
    t = seq_term(s)
    n = z3.Length(t)
    a, b = slice_bounds(it, n, lo, hi)
    r = z3.Extract(t, a, b - a)
    if isinstance(s, (SBytes, bytes, bytearray)):
        return mk_bytes(r, is_mutable_bytes(s))
    if isinstance(s, (SStr, str)):
        return mk_str(r)
    return SSeq(z3.simplify(r), s.elem, s.mutable)
