"""Models of builtins and stdlib functions on symbolic values (trusted base section 3.1)."""
from __future__ import annotations

import binascii
import builtins
import struct
import types
import z3

from . import ops
from .ctx import RaiseEx
from .interp import Closure, BoundMethod, SymMethod, StubObj, Coro
from .values import (
    set_term, ViewList,
    SV, SInt, SBool, SReal, SBytes, SStr, SSeq, SEnum, SOpaque, SObj, SymRecDict, Unsupported,
    Int, Bool, Real, Bytes, ByteArray, Str, ListOf, TupleOf, sort_of, has_sym, ISEQ, bytes_lit,
)

I = z3.IntSort()

# uninterpreted symbols (each one is listed in the evidence when used)
F_utf8enc = z3.Function("utf8enc", ISEQ, ISEQ)
F_utf8dec = z3.Function("utf8dec", ISEQ, ISEQ)
P_utf8ok = z3.Function("utf8ok", ISEQ, z3.BoolSort())
F_hexenc = z3.Function("hexenc", ISEQ, ISEQ)  # bytes -> str (lowercase hex)
F_hexdec = z3.Function("hexdec", ISEQ, ISEQ)  # str -> bytes
P_hexok = z3.Function("hexok", ISEQ, z3.BoolSort())
F_os2ip_le = z3.Function("os2ip_le", ISEQ, I)
F_ieee = z3.Function("ieee754", I, I, z3.RealSort())  # (size in bytes, bit pattern as an unsigned integer) -> value
F_os2ip_be = z3.Function("os2ip_be", ISEQ, I)
F_i2osp_le = z3.Function("i2osp_le", I, I, ISEQ)
F_i2osp_be = z3.Function("i2osp_be", I, I, ISEQ)
F_atoi = z3.Function("atoi", ISEQ, I)
P_atoi_ok = z3.Function("atoi_ok", ISEQ, z3.BoolSort())
F_lower = z3.Function("str_lower", ISEQ, ISEQ)
F_upper = z3.Function("str_upper", ISEQ, ISEQ)


def pytype_of(v):
    if isinstance(v, SInt):
        return int
    if isinstance(v, SBool):
        return bool
    if isinstance(v, SReal):
        return float
    if isinstance(v, SBytes):
        return bytearray if v.mutable else bytes
    if isinstance(v, SStr):
        return str
    if isinstance(v, SSeq):
        return list if v.mutable else tuple
    if isinstance(v, SEnum):
        return v.cls
    if isinstance(v, SObj):
        return v.cls
    if isinstance(v, SymRecDict):
        return dict
    if isinstance(v, (Closure, BoundMethod)):
        return types.FunctionType
    if isinstance(v, StubObj) and hasattr(v, "pytype"):
        return v.pytype
    return type(v)


def install(env):
    stub = env.stub
    method = env.method

    # ------------------------------------------------------------------ quantifiers of the contract language
    from . import api as _api

    def _quant(it, lo, hi, pred, is_forall):
        if not any(isinstance(x, SV) for x in (lo, hi)):
            if hi - lo <= 64:
                vals = [ops.truth_term(it.call(pred, [j], {})) for j in range(lo, hi)]
                return ops.mk_bool(ops.t_and(*vals) if is_forall else ops.t_or(*vals))
        j = it.ctx.fresh("q", z3.IntSort())
        it.ctx.pure += 1
        try:
            lo_nonneg = (isinstance(lo, int) and lo >= 0) or (isinstance(lo, SV) and getattr(lo, "nonneg", False))
            body = ops.truth_term(it.call(pred, [SInt(j, nonneg=lo_nonneg)], {}))
        finally:
            it.ctx.pure -= 1
        if isinstance(body, bool):
            body = z3.BoolVal(body)
        rng = z3.And(ops.int_term(lo) <= j, j < ops.int_term(hi))
        if is_forall:
            return SBool(z3.ForAll([j], z3.Implies(rng, body)))
        return SBool(z3.Exists([j], z3.And(rng, body)))

    def _sub(it, s, start, n):
        if not has_sym(s) and not has_sym(start) and not has_sym(n):
            return _api.sub(s, start, n)
        r = z3.Extract(ops.seq_term(s), ops.int_term(start), ops.int_term(n))
        if isinstance(s, (SBytes, bytes, bytearray)):
            return ops.mk_bytes(r, False)
        if isinstance(s, (SStr, str)):
            return ops.mk_str(r)
        return SSeq(r, s.elem, False)

    stub(_api.sub, _sub)
    stub(_api.forall, lambda it, lo, hi, pred: _quant(it, lo, hi, pred, True))
    stub(_api.exists, lambda it, lo, hi, pred: _quant(it, lo, hi, pred, False))

    import dataclasses as _dc

    def _dc_fields(it, obj):
        if isinstance(obj, SObj):
            return _dc.fields(obj.cls)
        return it.native(_dc.fields, obj)

    stub(_dc.fields, _dc_fields)

    # ------------------------------------------------------------------ len / bool / type
    @stub(len)
    def _len(it, x):
        if isinstance(x, (SBytes, SStr, SSeq)):
            return ops.length(x)
        if isinstance(x, SObj):
            m = it.class_lookup(x.cls, "__len__")
            if m is None:
                it.raise_exc(TypeError, "object has no len()")
            return it.call(BoundMethod(x, m), [], {})
        if isinstance(x, StubObj):
            return x.sym_len(it)
        if isinstance(x, SymRecDict):
            raise Unsupported("len of SymRecDict")
        if isinstance(x, SV):
            it.raise_exc(TypeError, f"object of type {pytype_of(x).__name__} has no len()")
        return it.native(len, x)

    @stub(bool)
    def _bool(it, x=False):
        if isinstance(x, SV):
            if it.ctx.pure:
                return ops.mk_bool(ops.truth_term(x))
        return it.truth(x)

    @stub(isinstance)
    def _isinstance(it, x, t):
        pt = pytype_of(x)
        if isinstance(t, tuple):
            return any(_isinstance(it, x, u) for u in t)
        if not isinstance(t, type):
            if t is types.FunctionType or True:
                return it.native(isinstance, x, t) if not isinstance(x, (SV, SObj)) else False
        if isinstance(x, (SV, SObj, SymRecDict, Closure, BoundMethod)) or hasattr(x, "pytype"):
            return issubclass(pt, t)
        return isinstance(x, t)

    @stub(issubclass)
    def _issubclass(it, a, b):
        return it.native(issubclass, a, b)

    @stub(type)
    def _type(it, x, *rest):
        if rest:
            raise Unsupported("3-arg type()")
        return pytype_of(x)

    @stub(callable)
    def _callable(it, x):
        if isinstance(x, (Closure, BoundMethod, SymMethod)):
            return True
        if isinstance(x, SV):
            return False
        if isinstance(x, SObj):
            return it.class_lookup(x.cls, "__call__") is not None
        return callable(x)

    @stub(id)
    def _id(it, x):
        return id(x)

    @stub(hasattr)
    def _hasattr(it, obj, name):
        if isinstance(obj, SObj):
            return name in obj.fields or it.class_lookup(obj.cls, name) is not None
        if isinstance(obj, (SV, StubObj)):
            raise Unsupported("hasattr on symbolic value")
        return hasattr(obj, name)

    @stub(getattr)
    def _getattr(it, obj, name, *default):
        if default:
            try:
                return it.getattr_(obj, name)
            except RaiseEx as r:
                if issubclass(r.exc.cls, AttributeError):
                    return default[0]
                raise
        return it.getattr_(obj, name)

    @stub(setattr)
    def _setattr(it, obj, name, v):
        it.setattr_(obj, name, v)

    # ------------------------------------------------------------------ numbers
    @stub(int)
    def _int(it, x=0, base=None):
        if base is not None:
            if isinstance(x, (SStr, SBytes)):
                t = x.term
                f = z3.Function(f"atoi_base{base}", ISEQ, I)
                p = z3.Function(f"atoi_base{base}_ok", ISEQ, z3.BoolSort())
                it.require(p(t), ValueError, "invalid literal for int()")
                return ops.mk_int(f(t))
            return it.native(int, x, base)
        if isinstance(x, SInt):
            return x
        if isinstance(x, SBool):
            return ops.mk_int(z3.If(x.term, z3.IntVal(1), z3.IntVal(0)))
        if isinstance(x, SEnum) and issubclass(x.cls, int):
            return ops.mk_int(x.term)
        if isinstance(x, SReal):
            t = x.term
            fl = z3.ToInt(t)
            return ops.mk_int(z3.If(t >= 0, fl, -z3.ToInt(-t)))
        if isinstance(x, (SStr, SBytes)):
            it.require(P_atoi_ok(x.term), ValueError, "invalid literal for int() with base 10")
            return ops.mk_int(F_atoi(x.term))
        if isinstance(x, SV):
            it.raise_exc(TypeError, "int() argument must be a string, a bytes-like object or a real number")
        if isinstance(x, SObj):
            m = it.class_lookup(x.cls, "__int__")
            if m is None:
                it.raise_exc(TypeError, "int() argument must be a string, a bytes-like object or a real number")
            return it.call(BoundMethod(x, m), [], {})
        return it.native(int, x)

    @stub(float)
    def _float(it, x=0.0):
        if isinstance(x, SReal):
            return x
        if isinstance(x, (SInt, SBool)):
            return ops.mk_real(ops.real_term(x))
        if isinstance(x, SV):
            raise Unsupported("float() of symbolic non-number")
        return it.native(float, x)

    @stub(abs)
    def _abs(it, x):
        if isinstance(x, SInt):
            return ops.mk_int(z3.If(x.term >= 0, x.term, -x.term))
        if isinstance(x, SReal):
            return ops.mk_real(z3.If(x.term >= 0, x.term, -x.term))
        return it.native(abs, x)

    def _minmax(it, is_min, *args, **kw):
        if kw:
            raise Unsupported("min/max with key/default")
        if len(args) == 1:
            args = list(it.iterate(args[0]))
            if not args:
                it.raise_exc(ValueError, "min()/max() arg is an empty sequence")
        if not any(isinstance(a, SV) for a in args):
            return it.native(min if is_min else max, *args)
        cur = args[0]
        for a in args[1:]:
            if ops.is_intlike(cur) and ops.is_intlike(a):
                x, y = ops.int_term(cur), ops.int_term(a)
                cur = ops.mk_int(z3.If((y < x) if is_min else (y > x), y, x))
            elif (ops.is_intlike(cur) or ops.is_reallike(cur)) and (ops.is_intlike(a) or ops.is_reallike(a)):
                x, y = ops.real_term(cur), ops.real_term(a)
                cur = ops.mk_real(z3.If((y < x) if is_min else (y > x), y, x))
            else:
                raise Unsupported("min/max of non-numbers")
        return cur

    stub(min, lambda it, *a, **k: _minmax(it, True, *a, **k))
    stub(max, lambda it, *a, **k: _minmax(it, False, *a, **k))

    @stub(sum)
    def _sum(it, xs, start=0):
        tot = start
        for x in it.iterate(xs):
            tot = ops.binop(it, __import__("ast").Add(), tot, x)
        return tot

    @stub(divmod)
    def _divmod(it, a, b):
        import ast as _a

        return (ops.binop(it, _a.FloorDiv(), a, b), ops.binop(it, _a.Mod(), a, b))

    # ------------------------------------------------------------------ any / all / iteration helpers
    @stub(any)
    def _any(it, xs):
        if it.ctx.pure:
            return ops.mk_bool(ops.t_or(*[ops.truth_term(x) for x in it.iterate(xs)]))
        for x in it.iterate(xs):
            if it.truth(x):
                return True
        return False

    @stub(all)
    def _all(it, xs):
        if it.ctx.pure:
            return ops.mk_bool(ops.t_and(*[ops.truth_term(x) for x in it.iterate(xs)]))
        for x in it.iterate(xs):
            if not it.truth(x):
                return False
        return True

    @stub(list)
    def _list(it, x=()):
        if isinstance(x, SSeq):
            return SSeq(x.term, x.elem, True)
        if isinstance(x, SBytes):
            return SSeq(x.term, Int, True)
        if isinstance(x, SymRecDict):
            raise Unsupported("list(SymRecDict)")
        return list(it.iterate(x))

    @stub(tuple)
    def _tuple(it, x=()):
        if isinstance(x, SSeq):
            return SSeq(x.term, x.elem, False)
        return tuple(it.iterate(x))

    @stub(set)
    def _set(it, x=()):
        items = list(it.iterate(x))
        if any(isinstance(v, SV) for v in items):
            raise Unsupported("set() of symbolic members")
        return it.native(set, items)

    @stub(frozenset)
    def _frozenset(it, x=()):
        items = list(it.iterate(x))
        if any(isinstance(v, SV) for v in items):
            raise Unsupported("frozenset() of symbolic members")
        return it.native(frozenset, items)

    @stub(dict)
    def _dict(it, x=None, **kw):
        if x is None:
            return dict(**kw)
        if isinstance(x, SSeq):
            # dict(<arbitrary list of pairs>) : an arbitrary finite map (lazy record)
            el = x.elem
            if not isinstance(el, TupleOf) or len(el.elems) != 2:
                raise Unsupported("dict() of a symbolic list whose elements are not pairs")
            # the record is named after the list term: dict() of the same list is the same map
            nm = "D_" + "".join(ch if ch.isalnum() else "_" for ch in str(x.term))[:40] if z3.is_const(x.term) else None
            if nm is None:
                n = it.ctx.counters.get("recdict", 0)
                it.ctx.counters["recdict"] = n + 1
                nm = f"D{n}"
            return SymRecDict(nm, el.elems[1])
        if isinstance(x, SymRecDict):
            return SymRecDict(x.name + "c", x.valsort, x.entries, x.closed)
        if isinstance(x, dict):
            d = dict(x)
            d.update(kw)
            return d
        d = {}
        for item in it.iterate(x):
            k, v = it.unpack(item, 2)
            if isinstance(k, SV):
                raise Unsupported("dict() with symbolic key")
            d[k] = v
        d.update(kw)
        return d

    @stub(range)
    def _range(it, *a):
        if any(isinstance(x, SV) for x in a):
            return SRange(it, *a)
        return it.native(range, *a)

    @stub(enumerate)
    def _enumerate(it, xs, start=0):
        return [(start + i, x) for i, x in enumerate(it.iterate(xs))]

    @stub(zip)
    def _zip(it, *xs, strict=False):
        return list(zip(*[list(it.iterate(x)) for x in xs]))

    @stub(reversed)
    def _reversed(it, xs):
        return list(reversed(list(it.iterate(xs))))

    @stub(sorted)
    def _sorted(it, xs, key=None, reverse=False):
        items = list(it.iterate(xs))
        if key is not None:
            keys = [it.call(key, [x], {}) for x in items]
            if has_sym(keys):
                raise Unsupported("sorted with symbolic keys")
            order = sorted(range(len(items)), key=lambda i: keys[i], reverse=reverse)
            return [items[i] for i in order]
        if has_sym(items):
            raise Unsupported("sorted of symbolic items")
        return it.native(sorted, items, reverse=reverse)

    import itertools as _itertools

    @stub(_itertools.groupby)
    def _groupby(it, xs, key=None):
        """itertools.groupby: maximal runs of ADJACENT items with equal keys (eagerly; forks on key equality)"""
        items = list(it.iterate(xs))
        out = []
        for x in items:
            k = it.call(key, [x], {}) if key is not None else x
            if out and it.truth(ops.mk_bool(ops.sym_eq(out[-1][0], k))):
                out[-1][1].append(x)
            else:
                out.append((k, [x]))
        return out

    @stub(iter)
    def _iter(it, x):
        from .env import EagerGen

        return EagerGen(list(it.iterate(x)), None)

    @stub(next)
    def _next(it, g, *default):
        if isinstance(g, StubObj) and hasattr(g, "m___next__"):
            try:
                return g.m___next__(it)
            except RaiseEx as r:
                if default and issubclass(r.exc.cls, StopIteration):
                    return default[0]
                raise
        raise Unsupported("next() of non-generator")

    @stub(print)
    def _print(it, *a, **k):
        return None

    @stub(repr)
    def _repr(it, x):
        if isinstance(x, (SV, SObj, StubObj)):
            return it.opaque_str("repr")
        return it.native(repr, x)

    # ------------------------------------------------------------------ str
    @stub(str)
    def _str(it, x="", *a):
        if a:
            if isinstance(x, SBytes):
                return sym_decode(it, x)
            return it.native(str, x, *a)
        if isinstance(x, SStr):
            return x
        if isinstance(x, SInt):
            return env.int_to_str(it, x)
        if isinstance(x, (SV, StubObj)):
            return it.opaque_str("str")
        if isinstance(x, SObj):
            m = it.class_lookup(x.cls, "__str__")
            if isinstance(m, types.FunctionType):
                from .interp import is_repo_function

                if is_repo_function(m):
                    return it.call(BoundMethod(x, m), [], {})
            return it.opaque_str("str")
        return it.native(str, x)

    def sym_decode(it, b, encoding="utf-8", errors="strict"):
        t = ops.bytes_term(b)
        if errors == "strict":
            it.require(P_utf8ok(t), UnicodeDecodeError, "utf-8", b"", 0, 1, "invalid start byte")
        s = F_utf8dec(t)
        it.ctx.assume(F_utf8enc(s) == t) if errors == "strict" else None
        return ops.mk_str(s)

    def sym_encode(it, s, encoding="utf-8", errors="strict"):
        t = ops.str_term(s)
        b = F_utf8enc(t)
        it.ctx.assume(P_utf8ok(b))
        it.ctx.assume(F_utf8dec(b) == t)
        return ops.mk_bytes(b, False)

    method(SBytes, "decode")(lambda it, b, *a, **k: sym_decode(it, b, *a, **k))
    method(SStr, "encode")(lambda it, s, *a, **k: sym_encode(it, s, *a, **k))

    @method(SStr, "lower")
    def _lower(it, s):
        return ops.mk_str(F_lower(s.term))

    @method(SStr, "upper")
    def _upper(it, s):
        return ops.mk_str(F_upper(s.term))

    F_strip = z3.Function("str_strip", ISEQ, ISEQ)
    F_title = z3.Function("str_title", ISEQ, ISEQ)
    F_splitn = z3.Function("split_count", ISEQ, ISEQ, I, I)  # (string, separator, maxsplit) -> number of parts
    F_splitp = z3.Function("split_part", ISEQ, ISEQ, I, I, ISEQ)  # (string, separator, maxsplit, index) -> part

    @method(SStr, "strip")
    def _strip(it, s, chars=None):
        if chars is not None:
            raise Unsupported("strip(chars)")
        return ops.mk_str(F_strip(s.term))

    @method(SStr, "title")
    def _title(it, s):
        return ops.mk_str(F_title(s.term))

    def _split(it, s, sep=None, maxsplit=-1):
        """split with a separator and a small maxsplit: the parts are function symbols of (string, separator,
        maxsplit, index); their number (1 .. maxsplit + 1) is decided by forking on a symbol of the same arguments"""
        if sep is None or isinstance(maxsplit, SV) or maxsplit < 0 or maxsplit > 4:
            raise Unsupported("split without separator / without a small maxsplit on a symbolic string")
        st, sp = s.term, ops.seq_term(sep)
        n = F_splitn(st, sp, z3.IntVal(maxsplit))
        it.ctx.assume(z3.And(n >= 1, n <= maxsplit + 1))
        k = 1
        while k < maxsplit + 1 and not it.ctx.branch(n == k):
            k += 1
        it.ctx.assume(n == k)
        mk = ops.mk_str if isinstance(s, SStr) else (lambda t: SBytes(t, isinstance(s, SBytes) and s.mutable))
        return [mk(F_splitp(st, sp, z3.IntVal(maxsplit), z3.IntVal(i))) for i in range(k)]

    method(SStr, "split")(_split)
    method(SBytes, "split")(_split)

    def _split_count(it, s, sep, maxsplit):
        if not isinstance(s, SV):
            return _api.split_count(s, sep, maxsplit)
        return ops.mk_int(F_splitn(s.term, ops.seq_term(sep), z3.IntVal(maxsplit)))

    def _split_part(it, s, sep, maxsplit, i):
        if not isinstance(s, SV):
            return _api.split_part(s, sep, maxsplit, i)
        t = F_splitp(s.term, ops.seq_term(sep), z3.IntVal(maxsplit), z3.IntVal(i))
        return ops.mk_str(t) if isinstance(s, SStr) else SBytes(t, False)

    stub(_api.split_count, _split_count)
    stub(_api.split_part, _split_part)

    @method(SStr, "startswith")
    def _sw(it, s, p):
        return ops.mk_bool(z3.PrefixOf(ops.seq_term(p), s.term))

    @method(SStr, "endswith")
    def _ew(it, s, p):
        return ops.mk_bool(z3.SuffixOf(ops.seq_term(p), s.term))

    method(SBytes, "startswith")(_sw)
    method(SBytes, "endswith")(_ew)

    @method(SStr, "join")
    def _sjoin(it, s, xs):
        items = list(it.iterate(xs))
        return _join(it, s, items, False)

    def _join(it, sep, items, is_bytes):
        if not items:
            return b"" if is_bytes else ""
        t = None
        st = ops.seq_term(sep)
        for x in items:
            if is_bytes and not ops.is_byteslike(x):
                it.raise_exc(TypeError, "sequence item: expected a bytes-like object")
            if not is_bytes and not ops.is_strlike(x):
                it.raise_exc(TypeError, "sequence item: expected str instance")
            xt = ops.seq_term(x)
            t = xt if t is None else z3.Concat(t, st, xt) if z3.simplify(z3.Length(st)).as_long() != 0 else z3.Concat(t, xt)
        return ops.mk_bytes(t) if is_bytes else ops.mk_str(t)

    env.method_stubs[(str, "join")] = lambda it, s, xs: (
        _join(it, s, list(it.iterate(xs)), False)
    )
    env.method_stubs[(bytes, "join")] = lambda it, s, xs: (
        _join(it, s, list(it.iterate(xs)), True)
    )

    # ------------------------------------------------------------------ bytes / bytearray
    def _mk_bytes_from(it, x, mutable, *rest):
        if x is None:
            return SBytes(z3.Empty(ISEQ), True) if mutable else b""
        if rest:
            if isinstance(x, SStr):
                r = sym_encode(it, x)
                return SBytes(ops.bytes_term(r), True) if mutable else r
            r = it.native(bytes, x, *rest)
            return SBytes(bytes_lit(r), True) if mutable else r
        if isinstance(x, SBytes):
            return SBytes(x.term, True) if mutable else ops.mk_bytes(x.term, False)
        if isinstance(x, (bytes, bytearray)):
            return SBytes(bytes_lit(x), True) if mutable else bytes(x)
        if isinstance(x, SInt):
            # n zero bytes (ValueError for a negative count); `zeros` is the symbol of pyvc.stubs_crypto
            from .stubs_crypto import F_zeros

            it.require(x.term >= 0, ValueError, "negative count")
            t = F_zeros(x.term)
            it.ctx.assume(z3.Length(t) == x.term)
            return SBytes(t, mutable) if mutable else ops.mk_bytes(t, False)
        if isinstance(x, int):
            if x < 0:
                it.raise_exc(ValueError, "negative count")
            return SBytes(bytes_lit(bytes(x)), True) if mutable else bytes(x)
        if isinstance(x, SSeq):
            if x.elem is not Int:
                it.raise_exc(TypeError, "cannot convert to bytes")
            raise Unsupported("bytes(symbolic list) needs per-element range")
        if isinstance(x, SStr) or isinstance(x, str):
            it.raise_exc(TypeError, "string argument without an encoding")
        if isinstance(x, SV) or isinstance(x, SObj):
            it.raise_exc(TypeError, f"cannot convert '{pytype_of(x).__name__}' object to bytes")
        items = list(it.iterate(x))
        t = z3.Empty(ISEQ)
        for v in items:
            if not ops.is_intlike(v):
                it.raise_exc(TypeError, "an integer is required")
            vt = ops.int_term(v)
            it.require(z3.And(vt >= 0, vt <= 255), ValueError, "bytes must be in range(0, 256)")
            t = z3.Concat(t, z3.Unit(vt))
        return SBytes(z3.simplify(t), True) if mutable else ops.mk_bytes(t, False)

    stub(bytes, lambda it, x=None, *rest: _mk_bytes_from(it, x, False, *rest))
    stub(bytearray, lambda it, x=None, *rest: _mk_bytes_from(it, x, True, *rest))

    @method(SBytes, "copy")
    def _copy(it, b):
        return SBytes(b.term, b.mutable)

    @method(SBytes, "append")
    def _append(it, b, x):
        if not b.mutable:
            it.raise_exc(AttributeError, "'bytes' object has no attribute 'append'")
        if not ops.is_intlike(x):
            it.raise_exc(TypeError, "an integer is required")
        xt = ops.int_term(x)
        it.require(z3.And(xt >= 0, xt <= 255), ValueError, "byte must be in range(0, 256)")
        set_term(b, z3.Concat(b.term, z3.Unit(xt)))

    @method(SBytes, "extend")
    def _extend(it, b, x):
        if not b.mutable:
            it.raise_exc(AttributeError, "'bytes' object has no attribute 'extend'")
        if ops.is_byteslike(x):
            set_term(b, z3.Concat(b.term, ops.bytes_term(x)))
            return
        for v in it.iterate(x):
            _append(it, b, v)

    @method(SBytes, "pop")
    def _pop(it, b, idx=-1):
        if not b.mutable:
            it.raise_exc(AttributeError, "'bytes' object has no attribute 'pop'")
        n = z3.Length(b.term)
        it.require(n > 0, IndexError, "pop from empty bytearray")
        i, ok = ops._norm_index(it, idx, n)
        it.require(ok, IndexError, "pop index out of range")
        e = z3.simplify(b.term[i])
        if not z3.is_int_value(e):
            it.ctx.assume(z3.And(e >= 0, e <= 255))
        set_term(b, z3.Concat(z3.Extract(b.term, z3.IntVal(0), i), z3.Extract(b.term, i + 1, n - i - 1)))
        return ops.mk_int(e)

    @method(SBytes, "clear")
    def _clear(it, b):
        set_term(b, z3.Empty(ISEQ))

    @method(SBytes, "hex")
    def _hex(it, b, *a):
        if a:
            raise Unsupported("hex with separator")
        return ops.mk_str(F_hexenc(b.term))

    @method(SBytes, "find")
    def _find(it, b, sub, start=0):
        return ops.mk_int(z3.IndexOf(b.term, ops.seq_term(sub), ops.int_term(start)))

    method(SStr, "find")(_find)

    @method(SBytes, "__len__")
    def _blen(it, b):
        return ops.length(b)

    @method(SBytes, "__contains__")
    def _bcontains(it, b, x):
        return ops.mk_bool(ops.contains(it, b, x))

    def _fromhex(it, s):
        if isinstance(s, SStr):
            it.require(P_hexok(s.term), ValueError, "non-hexadecimal number found in fromhex() arg")
            r = F_hexdec(s.term)
            it.ctx.assume(F_hexenc(r) == F_lower(s.term))
            return ops.mk_bytes(r, False)
        return it.native(bytes.fromhex, s)

    stub(bytes.fromhex, _fromhex)
    env.type_stubs.append((lambda fn: getattr(fn, "__name__", "") == "fromhex" and getattr(fn, "__self__", None) in (bytes, bytearray), lambda it, fn, s: _fromhex(it, s)))

    def _hexlify(it, b, *a):
        if isinstance(b, SBytes):
            h = F_hexenc(b.term)
            # hexlify returns bytes (ascii of the hex string)
            r = F_utf8enc(h)
            it.ctx.assume(F_utf8dec(r) == h)
            it.ctx.assume(P_utf8ok(r))
            return ops.mk_bytes(r, False)
        return it.native(binascii.hexlify, b, *a)

    stub(binascii.hexlify, _hexlify)

    # int.from_bytes / to_bytes
    def _from_bytes(it, b, byteorder="big", *, signed=False):
        if signed:
            raise Unsupported("from_bytes signed")
        if not isinstance(b, SV):
            return it.native(int.from_bytes, b, byteorder)
        if isinstance(b, SSeq):
            raise Unsupported("from_bytes of list")
        t = b.term
        n = z3.simplify(z3.Length(t))
        if not z3.is_int_value(n) and not it.ctx.pure:
            # the path condition may fix the length (e.g. a precondition len(value) == 2)
            for k in range(0, 17):
                if it.ctx._feasible(z3.Length(t) == k) and not it.ctx._feasible(z3.Length(t) != k):
                    n = z3.IntVal(k)
                    break
        if z3.is_int_value(n) and n.as_long() <= 16:
            k = n.as_long()
            tot = z3.IntVal(0)
            for j in range(k):
                e = t[z3.IntVal(j)]
                it.ctx.assume(z3.And(e >= 0, e <= 255))
                w = j if byteorder == "little" else k - 1 - j
                tot = tot + e * z3.IntVal(256 ** w)
            return ops.mk_int(tot)
        f = F_os2ip_le if byteorder == "little" else F_os2ip_be
        r = f(t)
        it.ctx.assume(r >= 0)
        # defining equations for the short lengths (ground instances; the length itself stays symbolic)
        ln = z3.Length(t)
        for k in range(0, 5):
            tot = z3.IntVal(0)
            rng = []
            for j in range(k):
                e = t[z3.IntVal(j)]
                rng.append(z3.And(e >= 0, e <= 255))
                w = j if byteorder == "little" else k - 1 - j
                tot = tot + e * z3.IntVal(256 ** w)
            it.ctx.assume(z3.Implies(ln == k, z3.And(r == tot, *rng)))
        return ops.mk_int(r)

    env.type_stubs.append((lambda fn: getattr(fn, "__name__", "") == "from_bytes" and getattr(fn, "__self__", None) is int, lambda it, fn, *a, **k: _from_bytes(it, *a, **k)))

    F_bitlen = z3.Function("bit_length", I, I)

    @method(SInt, "bit_length")
    def _bit_length(it, x):
        """number of bits of |x|, tied to the minimal big-endian encoding: ceil(bits / 8) = len(minbytes(x))"""
        from .stubs_srp import F_minbytes

        r = F_bitlen(x.term)
        it.ctx.assume(z3.And(r >= 0, (r + 7) / 8 == z3.Length(F_minbytes(x.term))))
        return ops.mk_int(r)

    import math as _math

    def _ceil(it, v):
        if isinstance(v, SReal):
            return ops.mk_int(-z3.ToInt(-v.term))
        if isinstance(v, SInt):
            return v
        return it.native(_math.ceil, v)

    stub(_math.ceil, _ceil)

    def _to_bytes_pad(it, x, length, byteorder):
        """big-endian encoding in `length` bytes for large or symbolic lengths, in the vocabulary of RFC 5054's PAD:
        zero bytes followed by the minimal encoding; OverflowError when the minimal encoding is longer"""
        from .stubs_srp import F_minbytes
        from .stubs_crypto import F_zeros

        if byteorder != "big":
            raise Unsupported("to_bytes little-endian with a large / symbolic length")
        xt = x.term
        it.require(xt >= 0, OverflowError, "can't convert negative int to unsigned")
        m = F_minbytes(xt)
        it.ctx.assume(F_os2ip_be(m) == xt)
        lt = ops.int_term(length)
        it.require(lt >= 0, ValueError, "length argument must be non-negative")
        it.require(z3.Length(m) <= lt, OverflowError, "int too big to convert")
        if not it.ctx.pure and not it.ctx._feasible(lt != z3.Length(m)):
            return ops.mk_bytes(m, False)  # exactly the minimal length (e.g. ceil(bit_length / 8)): no padding
        z = F_zeros(lt - z3.Length(m))
        it.ctx.assume(z3.Length(z) == lt - z3.Length(m))
        return ops.mk_bytes(z3.Concat(z, m), False)

    @method(SInt, "to_bytes")
    def _to_bytes(it, x, length=1, byteorder="big", *, signed=False):
        if signed:
            raise Unsupported("to_bytes signed")
        if isinstance(length, SV) or (isinstance(length, int) and length > 16):
            return _to_bytes_pad(it, x, length, byteorder)
        xt = x.term
        it.require(z3.And(xt >= 0, xt < z3.IntVal(256 ** length)), OverflowError, "int too big to convert")
        if length <= 16:
            units = [z3.Unit((xt / z3.IntVal(256 ** j)) % 256) for j in range(length)]
            if byteorder == "big":
                units.reverse()
            return ops.mk_bytes(z3.Concat(*units) if len(units) > 1 else units[0], False)
        f = F_i2osp_le if byteorder == "little" else F_i2osp_be
        r = f(xt, z3.IntVal(length))
        it.ctx.assume(z3.Length(r) == length)
        return ops.mk_bytes(r, False)

    # ------------------------------------------------------------------ symbolic list methods
    @method(SSeq, "append")
    def _sappend(it, s, x):
        set_term(s, z3.Concat(s.term, z3.Unit(s.elem.box(x))))

    @method(SSeq, "extend")
    def _sextend(it, s, xs):
        if isinstance(xs, SSeq):
            set_term(s, z3.Concat(s.term, xs.term))
        else:
            for x in it.iterate(xs):
                _sappend(it, s, x)

    @method(SSeq, "pop")
    def _spop(it, s, idx=-1):
        n = z3.Length(s.term)
        it.require(n > 0, IndexError, "pop from empty list")
        i, ok = ops._norm_index(it, idx, n)
        it.require(ok, IndexError, "pop index out of range")
        e = s.term[i]
        r = ops.unbox_elem(it, s.elem, z3.simplify(e))
        set_term(s, z3.Concat(z3.Extract(s.term, z3.IntVal(0), i), z3.Extract(s.term, i + 1, n - i - 1)), structural=True)
        return r

    @method(SSeq, "copy")
    def _scopy(it, s):
        return SSeq(s.term, s.elem, s.mutable)

    # ------------------------------------------------------------------ SymRecDict methods
    @method(SymRecDict, "get")
    def _dget(it, d, k, default=None):
        if isinstance(k, SV):
            raise Unsupported("symbolic key in SymRecDict.get")
        has, val = it.recdict_entry(d, k)
        if it.ctx.branch(has):
            return val
        return default

    @method(SymRecDict, "pop")
    def _dpop(it, d, k, *default):
        has, val = it.recdict_entry(d, k)
        if it.ctx.branch(has):
            d.entries[k] = (False, None)
            return val
        if default:
            return default[0]
        it.raise_exc(KeyError, k)

    # ------------------------------------------------------------------ struct
    def struct_layout(fmt):
        order = "<"
        if fmt and fmt[0] in "<>=!@":
            order = fmt[0]
            fmt = fmt[1:]
        if order in "=@":
            import sys

            order = "<" if sys.byteorder == "little" else ">"
        if order == "!":
            order = ">"
        items = []
        num = ""
        sizes = {"x": 1, "B": 1, "b": 1, "H": 2, "h": 2, "I": 4, "i": 4, "L": 4, "l": 4, "Q": 8, "q": 8, "?": 1, "f": 4, "d": 8}
        for ch in fmt:
            if ch.isdigit():
                num += ch
                continue
            if ch.isspace():
                continue
            cnt = int(num) if num else 1
            num = ""
            if ch not in sizes:
                raise Unsupported(f"struct format char {ch}")
            for _ in range(cnt):
                items.append((ch, sizes[ch]))
        return order, items

    def struct_pack(it, fmt, *vals):
        if not any(isinstance(v, SV) for v in vals):
            return it.native(struct.pack, fmt, *vals)
        order, items = struct_layout(fmt)
        vals = list(vals)
        nvals = sum(1 for ch, _ in items if ch != "x")
        if nvals != len(vals):
            it.raise_native(struct.error(f"pack expected {nvals} items for packing (got {len(vals)})"))
        parts = []
        for ch, size in items:
            if ch == "x":
                parts.append(z3.Unit(z3.IntVal(0)))
                continue
            v = vals.pop(0)
            if ch == "?":
                parts.append(z3.Unit(z3.If(ops.truth_term(v), z3.IntVal(1), z3.IntVal(0))))
                continue
            if ch in "fd":
                raise Unsupported("struct.pack of a float (IEEE 754 encoding is not modelled)")
            if not ops.is_intlike(v):
                it.raise_native(struct.error("required argument is not an integer"))
            vt = ops.int_term(v)
            signed = ch.islower()
            lo, hi = (-(1 << (8 * size - 1)), (1 << (8 * size - 1)) - 1) if signed else (0, (1 << (8 * size)) - 1)
            it.require_native(z3.And(vt >= lo, vt <= hi), lambda: struct.error(f"'{ch}' format requires {lo} <= number <= {hi}"))
            if signed:
                vt = z3.If(vt < 0, vt + z3.IntVal(1 << (8 * size)), vt)
            units = [z3.Unit((vt / z3.IntVal(256 ** j)) % 256 if j else vt % 256) for j in range(size)]
            if order == ">":
                units.reverse()
            parts.extend(units)
        t = z3.Concat(*parts) if len(parts) > 1 else parts[0]
        return ops.mk_bytes(t, False)

    def struct_unpack(it, fmt, data):
        if not isinstance(data, SV):
            return it.native(struct.unpack, fmt, data)
        order, items = struct_layout(fmt)
        total = sum(s for _, s in items)
        t = ops.bytes_term(data)
        it.require_native(z3.Length(t) == total, lambda: struct.error(f"unpack requires a buffer of {total} bytes"))
        out = []
        off = 0
        for ch, size in items:
            if ch == "x":
                off += size
                continue
            es = []
            for j in range(size):
                e = z3.simplify(t[z3.IntVal(off + j)])
                if not z3.is_int_value(e):
                    it.ctx.assume(z3.And(e >= 0, e <= 255))
                es.append(e)
            if order == ">":
                es.reverse()
            tot = es[0]
            for j in range(1, size):
                tot = tot + es[j] * z3.IntVal(256 ** j)
            if ch == "?":
                out.append(ops.mk_bool(tot != 0))
            elif ch in "fd":
                # IEEE 754 decoding is not modelled: an uninterpreted function of the bit pattern
                out.append(SReal(F_ieee(z3.IntVal(size), tot)))
            else:
                if ch.islower():
                    tot = z3.If(tot >= z3.IntVal(1 << (8 * size - 1)), tot - z3.IntVal(1 << (8 * size)), tot)
                out.append(ops.mk_int(tot))
            off += size
        return tuple(out)

    def struct_unpack_from(it, fmt, buffer, offset=0):
        if not isinstance(buffer, SV):
            return it.native(struct.unpack_from, fmt, buffer, offset)
        if isinstance(offset, SV):
            raise Unsupported("unpack_from with symbolic offset")
        order, items = struct_layout(fmt)
        total = sum(s for _, s in items)
        t = ops.bytes_term(buffer)
        it.require_native(z3.Length(t) - offset >= total, lambda: struct.error(f"unpack_from requires a buffer of at least {total} bytes"))
        return struct_unpack(it, fmt, SBytes(z3.Extract(t, z3.IntVal(offset), z3.IntVal(total)), False))

    stub(struct.pack, struct_pack)
    stub(struct.unpack, struct_unpack)
    stub(struct.unpack_from, struct_unpack_from)
    env.type_stubs.append(
        (
            lambda fn: isinstance(getattr(fn, "__self__", None), struct.Struct) and fn.__name__ in ("pack", "unpack"),
            lambda it, fn, *a: (struct_pack if fn.__name__ == "pack" else struct_unpack)(it, fn.__self__.format, *a),
        )
    )
    env.struct_pack = struct_pack
    env.struct_unpack = struct_unpack


class SRange(StubObj):
    """range with symbolic bounds; usable by for-loops with invariants (as a sequence abstraction)."""

    def __init__(self, it, *a):
        if len(a) == 1:
            self.start, self.stop, self.step = 0, a[0], 1
        elif len(a) == 2:
            self.start, self.stop, self.step = a[0], a[1], 1
        else:
            self.start, self.stop, self.step = a
        if isinstance(self.step, SV):
            st = ops.int_term(self.step)
            if it.ctx.branch(st == 0):
                it.raise_exc(ValueError, "range() arg 3 must not be zero")
            if not it.ctx.branch(st > 0):
                raise Unsupported("range with symbolic negative step")
        elif self.step <= 0:
            raise Unsupported("range with non-positive step and symbolic bounds")

    def count_term(self):
        a, b, s = ops.int_term(self.start), ops.int_term(self.stop), ops.int_term(self.step)
        # number of elements: max(0, ceil((b-a)/s)) for s>0
        d = b - a
        return z3.If(d <= 0, z3.IntVal(0), (d + s - 1) / s)

    # iteration protocol of a for-loop with invariant: the ghost is the *position* (linear
    # arithmetic only; the congruence position = start + k*step is deliberately forgotten)
    def g_init(self):
        return self.start

    def g_constraints(self, g):
        return [g >= ops.int_term(self.start)]

    def g_has_next(self, g):
        return g < ops.int_term(self.stop)

    def g_item(self, it, g):
        return ops.mk_int(ops.int_term(g))

    def g_advance(self, g):
        return g + ops.int_term(self.step)

    def sym_iter(self, it):
        n = 0
        a, s = ops.int_term(self.start), ops.int_term(self.step)
        cnt = self.count_term()
        while True:
            if not it.ctx.branch(z3.IntVal(n) < cnt):
                return
            if n > 300:
                raise Unsupported("range loop needs an invariant")
            yield ops.mk_int(a + z3.IntVal(n) * s)
            n += 1
