"""From a failed obligation to a concrete input replayed on the real code (DESIGN 2.6), native
(run-time) evaluation of contracts, and bounded stand-ins."""
from __future__ import annotations

import copy
import inspect
import json
import random
import time
import traceback
import z3

from . import ops
from .values import Sort, TupleOf, ListOf, EnumOf, _Int, _Bool, _Bytes, _Str, _Real
from .verify import resolve_target, spec_instances
from .interp import function_ast


def concretize(sort, val):
    """z3 model value -> Python value of the given sort (None if not representable)"""
    val = z3.simplify(val)
    if isinstance(sort, _Int):
        return val.as_long() if z3.is_int_value(val) else None
    if isinstance(sort, _Bool):
        return z3.is_true(val)
    if isinstance(sort, _Real):
        if z3.is_rational_value(val):
            return val.numerator_as_long() / val.denominator_as_long()
        return None
    if isinstance(sort, _Bytes):
        lit = ops.seq_literal(val)
        if lit is None:
            return None
        lit = [x % 256 for x in lit]
        return bytearray(lit) if sort.mutable else bytes(lit)
    if isinstance(sort, _Str):
        lit = ops.seq_literal(val)
        if lit is None:
            return None
        return "".join(chr(x % 0x110000) for x in lit)
    if isinstance(sort, EnumOf):
        if z3.is_int_value(val):
            try:
                return sort.cls(val.as_long())
            except ValueError:
                return None
        return None
    if isinstance(sort, TupleOf):
        if z3.is_app(val) and val.num_args() == len(sort.elems):
            comps = [concretize(e, val.arg(i)) for i, e in enumerate(sort.elems)]
            if any(c is None for c in comps):
                return None
            return list(comps) if sort.aslist else tuple(comps)
        return None
    if isinstance(sort, ListOf):
        out = []

        def walk(x):
            k = x.decl().kind()
            if k == z3.Z3_OP_SEQ_EMPTY:
                return True
            if k == z3.Z3_OP_SEQ_UNIT:
                c = concretize(sort.elem, x.arg(0))
                if c is None:
                    return False
                out.append(c)
                return True
            if k == z3.Z3_OP_SEQ_CONCAT:
                return all(walk(c) for c in x.children())
            return False

        return out if walk(val) else None
    return None


import sys

sys.setrecursionlimit(max(sys.getrecursionlimit(), 30000))


def call_clause_native(f, ns):
    if isinstance(f, staticmethod):
        f = f.__func__
    params = list(inspect.signature(f).parameters)
    return f(*[ns[p] for p in params])


def native_check(con, fn, args, tag=None):
    """run the real function on concrete args and evaluate the executable contract.
    returns None (holds / precondition not met) or a dict describing the violated clause."""
    from .verify import contract_tag

    tag = tag or contract_tag(con)
    ns = {k: copy.deepcopy(v) for k, v in args.items()}
    try:
        for f in con.clause_list("requires"):
            if not call_clause_native(f, ns):
                return None
    except Exception:
        return None
    call_args = copy.deepcopy(args)
    driver = getattr(con, "native_call", None)
    try:
        if driver is not None:
            if isinstance(driver, staticmethod):
                driver = driver.__func__
            result = driver(fn, call_args)
        else:
            result = fn(**call_args)
            if inspect.isgenerator(result):
                result = list(result)
        exc = None
    except BaseException as e:  # noqa: BLE001 - we are checking which exception escapes
        exc = e
        result = None
    if exc is not None:
        match = None
        for c in type(exc).__mro__:
            if c in con.raises:
                match = c
                break
        if match is None:
            return {"clause": f"{tag}/no-raise.{type(exc).__name__}", "args": repr(args)[:2000], "raised": repr(exc)[:500]}
        cond = con.raises[match]
        if callable(cond):
            ns2 = dict(ns)
            ns2["exc"] = exc
            try:
                ok = call_clause_native(cond, ns2)
            except Exception as e2:
                ok = True
            if not ok:
                return {"clause": f"{tag}/raises.{match.__name__}", "args": repr(args)[:2000], "raised": repr(exc)[:500]}
        return None
    ns2 = dict(ns)
    ns2["result"] = result
    ns2["yielded"] = result if isinstance(result, list) else None
    for k in args:
        ns2[k + "__post"] = call_args[k]
    for f in con.clause_list("ensures"):
        try:
            ok = call_clause_native(f, ns2)
        except KeyError:
            continue
        except Exception:
            continue  # the executable contract itself failed (e.g. recursion depth): not a verdict
        if not ok:
            return {"clause": f"{tag}/ensures.{f.__name__}", "args": repr(args)[:2000], "result": repr(result)[:1000]}
    return None


def concretize_value(m, v):
    """evaluate a (symbolic) entry value in a model -> concrete Python value, or raise ValueError"""
    from .values import SV, SInt, SBool, SReal, SBytes, SStr, SSeq, SEnum, Int, Bool, Real, Bytes, ByteArray, Str, ListOf, EnumOf

    def ev(sort, term):
        r = concretize(sort, m.eval(term, model_completion=True))
        if r is None:
            raise ValueError(f"model value of {term} not representable")
        return r

    if isinstance(v, SInt):
        return ev(Int, v.term)
    if isinstance(v, SBool):
        return ev(Bool, v.term)
    if isinstance(v, SReal):
        return ev(Real, v.term)
    if isinstance(v, SBytes):
        return ev(ByteArray if v.mutable else Bytes, v.term)
    if isinstance(v, SStr):
        return ev(Str, v.term)
    if isinstance(v, SEnum):
        return ev(EnumOf(v.cls), v.term)
    if isinstance(v, SSeq):
        r = ev(ListOf(v.elem), v.term)
        return r if v.mutable else tuple(r)
    if isinstance(v, SV):
        raise ValueError("opaque value")
    if isinstance(v, tuple):
        return tuple(concretize_value(m, x) for x in v)
    if isinstance(v, list):
        return [concretize_value(m, x) for x in v]
    if isinstance(v, dict):
        return {k: concretize_value(m, x) for k, x in v.items()}
    from .values import SObj, SymRecDict

    if isinstance(v, (SObj, SymRecDict)):
        raise ValueError("heap object")
    return v


def model_args(env, con, ob, timeout_ms=8000):
    if ob.entry is None:
        return None
    insts = spec_instances(env, list(ob.pc) + [ob.goal])
    s = z3.Solver()
    s.set("timeout", timeout_ms)
    s.add(*ob.pc)
    s.add(*insts)
    s.add(z3.Not(ob.goal))
    if s.check() != z3.sat:
        return None
    m = s.model()
    try:
        return {k: concretize_value(m, v) for k, v in ob.entry.items()}
    except ValueError:
        return None


def find_witness(env, con, obs, budget):
    """search for a concrete input on which the REAL function violates the executable contract."""
    if getattr(con, "replay", None) is not None:
        r = con.replay
        if isinstance(r, staticmethod):
            r = r.__func__
        return r(env, con, obs)
    if getattr(con, "recv", None) is not None or getattr(con, "setup", None) is not None:
        # generators / methods on heap objects need a scenario driver (Contract.replay)
        return {"confirmed": False, "inputs_tried": 0, "note": "no generic native replay for generator/heap contracts"}
    fn, _ = resolve_target(con.target)
    fn_params = set(inspect.signature(fn).parameters)
    tried = 0
    first_spurious = None
    for ob in obs[:3]:
        try:
            a = model_args(env, con, ob)
        except Exception:
            a = None
        if a is None:
            continue
        a = {k: v for k, v in a.items() if k in fn_params}
        tried += 1
        v = native_check(con, fn, a)
        if v is not None:
            v.update({"confirmed": True, "source": "solver-model", "key": v["clause"]})
            return v
        first_spurious = first_spurious or repr(a)[:500]
    corpus = getattr(con, "corpus", None)
    if corpus is not None:
        if isinstance(corpus, staticmethod):
            corpus = corpus.__func__
        t0 = time.time()
        for a in corpus():
            tried += 1
            v = native_check(con, fn, a)
            if v is not None:
                v.update({"confirmed": True, "source": "boundary-corpus", "key": v["clause"]})
                return v
            if time.time() - t0 > max(20, budget):
                break
    return {"confirmed": False, "inputs_tried": tried, "model_input_not_failing_natively": first_spurious}


def run_bounded(env, con, tier, seed):
    """bounded stand-in: run-time contract checking of the real function over the contract's corpus"""
    br = getattr(con, "bounded_run", None)
    if br is not None:
        if isinstance(br, staticmethod):
            br = br.__func__
        t0 = time.time()
        r = br(tier, seed)
        r.setdefault("function", con.target)
        r.setdefault("kind", "bounded")
        r["time_s"] = round(time.time() - t0, 2)
        return r
    fn, _ = resolve_target(con.target)
    b = con.bounded
    if isinstance(b, staticmethod):
        b = b.__func__
    rnd = random.Random(seed)
    n = 0
    failures = []
    t0 = time.time()
    limit = 120 if tier == "thorough" else 25
    distinct = set()
    for a in b(tier, rnd):
        n += 1
        distinct.add(repr(a)[:200])
        v = native_check(con, fn, a)
        if v is not None:
            failures.append(v)
            break
        if time.time() - t0 > limit:
            break
    return {"function": con.target, "kind": "bounded", "bound": getattr(con, "bound_note", "corpus of the contract"), "cases": n, "distinct": len(distinct), "failures": failures, "time_s": round(time.time() - t0, 2)}


def replay_file(path):
    """./check <id> --replay <file>: show the recorded violation and RE-EXECUTE its failing input against the current
    /repo tree where there is one (native harness witness: the harness is run again and must report the same clause;
    solver-model / corpus witness of a function contract: the real function is called again under run-time checking of
    the contract).  Exit 1: the failure reproduces now; 0: it does not (or no input was recorded)."""
    import importlib
    import glob
    import os

    d = json.load(open(path))
    print(json.dumps(d, indent=1)[:4000])
    w = d.get("witness") or {}
    if not w.get("confirmed"):
        print("REPLAY: no failing input was recorded for this obligation (no-failing-input-found)")
        return 0
    prop = d.get("property")
    root = os.path.dirname(os.path.dirname(os.path.abspath(__file__)))
    from . import api

    for m in sorted(glob.glob(os.path.join(root, "contracts", f"{prop.lower()}_*.py"))):
        importlib.import_module("contracts." + os.path.basename(m)[:-3])
    key = w.get("key") or w.get("clause") or d.get("obligation")
    if w.get("source") == "native-harness" or "#native" in str(key):
        runs = []
        for con in api.CONTRACTS:
            br = getattr(con, "bounded_run", None)
            if con.prop == prop and br is not None:
                br = br.__func__ if isinstance(br, staticmethod) else br
                if br not in runs:
                    runs.append(br)
        # stand-ins attached as replay only
        for con in api.CONTRACTS:
            rp = getattr(con, "replay", None)
            if con.prop == prop and rp is not None and not runs:
                rp = rp.__func__ if isinstance(rp, staticmethod) else rp
                r = rp(None, con, [])
                again = bool(r.get("confirmed"))
                print(f"REPLAY: native harness run again on the current tree -> {'FAILS again: ' + str(r.get('clause')) if again else 'does not fail now'}")
                return 1 if again else 0
        failing = []
        for br in runs:
            r = br("quick", 0)
            failing += [f["clause"] for f in r.get("failures", [])]
        again = key in failing or (d.get("obligation") in failing)
        print(f"REPLAY: native harness run again on the current tree -> failing clauses now: {failing[:6]}")
        print("REPLAY: " + ("the recorded failure reproduces" if again else "the recorded clause does not fail now"))
        return 1 if again else 0
    # a concrete argument tuple for a function contract
    args = w.get("args") or w.get("inputs")
    if args is not None:
        for con in api.CONTRACTS:
            if con.prop == prop and d.get("obligation", "").startswith(f"{prop}/{con.target}#{con.__name__}/"):
                fn, _ = resolve_target(con.target)
                try:
                    v = native_check(con, fn, args)
                except Exception as e:  # noqa: BLE001
                    print(f"REPLAY: could not re-run the recorded arguments: {e!r}")
                    return 0
                print("REPLAY: " + (f"the real function fails the contract again: {v}" if v else "the recorded input passes now"))
                return 1 if v else 0
    print("REPLAY: recorded witness shown above; no re-executable input in this file")
    return 1
