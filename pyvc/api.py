"""Contract-writing API used by the sidecar files in /verif/contracts and /verif/specs."""
from __future__ import annotations

import inspect

from .values import (  # noqa: F401  (re-exported for contract files)
    Int, Bool, Real, Bytes, ByteArray, Str, ListOf, TupleOf, EnumOf, Opaque, Sort,
)

CONTRACTS = []
SPECS = {}
LEMMAS = []


class LoopInv:
    """Invariant of the loop with a given ordinal (source order) in the function under contract.

    inv: function or list of functions; parameters are resolved by name:
        <local>          current value of a local variable / parameter
        <name>__entry    value on entry to the loop
        <name>__old      value on entry to the function
        i (or `index`)   ghost iteration counter of a `for` loop (0-based)
        self, yielded, trace, ghost names ...
    vars: declared sorts for locals that must be abstracted (e.g. a Python list that grows)
    decreases: optional variant function (int), proved to decrease and stay >= 0
    """

    def __init__(self, inv, vars=None, index="i", decreases=None, modifies=None, seq=None, step=None, inductive=False, hints=None):
        # hints: clauses about ONE arbitrary iteration (same namespace as `step`) that are proved, in order, BEFORE the
        # invariant is re-established and may then be used for it (intermediate assertions of the proof)
        self.hints = [] if hints is None else (hints if isinstance(hints, (list, tuple)) else [hints])
        # inductive=True: also a loop over a CONCRETE list/tuple is checked by invariant (init, one arbitrary
        # position chosen among all positions, exit) instead of being unrolled - linear instead of exponential
        # in the number of independent branches in the body
        self.inductive = inductive
        self.step = [] if step is None else (step if isinstance(step, (list, tuple)) else [step])
        self.inv = inv if isinstance(inv, (list, tuple)) else [inv]
        self.vars = vars or {}
        self.index = index
        self.decreases = decreases
        self.modifies = modifies
        self.seq = seq


class Contract:
    target = None  # "module:qualname"
    prop = None
    params = {}
    modular = False  # call sites use this contract instead of the body
    loops = {}
    raises = {}
    recv = None
    yielded_sort = None
    max_paths = 4000

    @classmethod
    def clause_list(cls, name):
        v = cls.__dict__.get(name)
        if v is None:
            for b in cls.__mro__[1:]:
                if name in b.__dict__:
                    v = b.__dict__[name]
                    break
        if v is None:
            return []
        if isinstance(v, (list, tuple)):
            return [x.__func__ if isinstance(x, staticmethod) else x for x in v]
        if isinstance(v, staticmethod):
            v = v.__func__
        return [v]


def contract(target, prop, **kw):
    def deco(cls):
        ns = dict(cls.__dict__)
        ns.pop("__dict__", None)
        ns.pop("__weakref__", None)
        bases = tuple(b for b in cls.__bases__ if isinstance(b, type) and issubclass(b, Contract)) or (Contract,)
        c = type(cls.__name__, bases, ns)
        c.target = target
        c.prop = prop
        for k, v in kw.items():
            setattr(c, k, v)
        c.source_file = inspect.getsourcefile(cls)
        CONTRACTS.append(c)
        return c

    return deco


class SpecFn:
    """A specification function: executable Python (used natively on concrete values, e.g. in
    replay) and an uninterpreted SMT symbol plus defining-equation instances in VCs."""

    def __init__(self, fn, args, ret, fuel=1, decreases=None):
        self.fn = fn
        self.name = fn.__name__
        self.args = args
        self.ret = ret
        self.fuel = fuel
        self.decreases = decreases
        self.decl = None
        self.summary = None
        self.__name__ = fn.__name__

    def __call__(self, *a, **k):
        return self.fn(*a, **k)

    def __repr__(self):
        return f"<spec {self.name}>"


def spec(args, ret, fuel=1, decreases=None, uninterpreted=False):
    def deco(fn):
        s = SpecFn(fn, args, ret, fuel, decreases)
        s.uninterpreted = uninterpreted
        SPECS[fn.__name__] = s
        return s

    return deco


class Lemma:
    def __init__(self, fn, params, requires, ensures, prop):
        self.fn = fn
        self.params = params
        self.requires = requires
        self.ensures = ensures
        self.prop = prop
        self.name = fn.__name__


def implies(a, b):
    return (not a) or b


def iff(a, b):
    return bool(a) == bool(b)


def sub(s, start, n):
    """s[start:start+n] for 0 <= start, 0 <= n (clamped at the end of s); the empty sequence when start or n is
    negative or start is past the end - exactly SMT-LIB seq.extract, so no Python negative-index wrap-around."""
    if start < 0 or n <= 0 or start >= len(s):
        return s[0:0]
    return s[start:start + n]


def split_count(s, sep, maxsplit):
    """len(s.split(sep, maxsplit)) - in VCs the function symbol the model of split() forks on"""
    return len(s.split(sep, maxsplit))


def split_part(s, sep, maxsplit, i):
    """s.split(sep, maxsplit)[i] - in VCs the function symbol the model of split() returns"""
    return s.split(sep, maxsplit)[i]


def forall(lo, hi, pred):
    """for all integers j with lo <= j < hi: pred(j).  Executable natively; a quantifier in VCs."""
    return all(pred(j) for j in range(lo, hi))


def exists(lo, hi, pred):
    return any(pred(j) for j in range(lo, hi))
