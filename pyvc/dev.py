"""developer runner: explore one contract and discharge in-process with z3 (debug aid)"""
import sys, time, importlib
sys.path.insert(0, "/verif")
import z3
from pyvc import api
from pyvc.env import Env
from pyvc import stubs_builtin
from pyvc.verify import explore, obligation_smt2, spec_instances


def main():
    mod = sys.argv[1]
    which = sys.argv[2] if len(sys.argv) > 2 else None
    importlib.import_module(mod)
    env = Env()
    stubs_builtin.install(env)
    for s in api.SPECS.values():
        env.spec_decl(s)
    for con in api.CONTRACTS:
        if which and which not in con.target:
            continue
        rep = explore(env, con)
        print(f"== {con.target}: paths={rep.paths} obligations={len(rep.obligations)} undecided={rep.undecided} exits={rep.exits} {rep.explore_s:.1f}s")
        for ob in rep.obligations:
            insts = spec_instances(env, list(ob.pc) + [ob.goal])
            s = z3.Solver()
            s.set("timeout", 10000)
            s.add(*ob.pc)
            s.add(*insts)
            s.add(z3.Not(ob.goal))
            t0 = time.time()
            r = s.check()
            print(f"   {r}  {time.time()-t0:.2f}s  {ob.clause}  path={ob.path} meta={ob.meta}")
            if r == z3.sat and "-m" in sys.argv:
                print(s.model())


main()
