"""Assumed contracts of asyncio objects (DESIGN 3.2): futures, timers, transports, locks, tasks.

The event loop is trusted to run callbacks one at a time; `await` is the only interference point.  What
the environment may do at an await is chosen by the contract (Contract.await_policy / await_hook);
the objects here record every externally visible effect in the path's effect trace."""
from __future__ import annotations

import asyncio
import z3

from . import ops
from .ctx import RaiseEx
from .interp import StubObj, Coro, BoundMethod, Closure
from .values import SV, SBool, SInt, SReal, SObj, Unsupported, Bool, Real

_ids = [0]


def _nid():
    _ids[0] += 1
    return _ids[0]


class TimerStub(StubObj):
    def __init__(self, kind, when, cb, args):
        self.kind, self.when, self.cb, self.args = kind, when, cb, args
        self.cancelled = False
        self.tid = _nid()

    def m_cancel(self, it):
        self.cancelled = True
        it.ctx.trace.append(("timer_cancel", self))

    def m_cancelled(self, it):
        return self.cancelled


class FutureStub(StubObj):
    pytype = asyncio.Future

    def __init__(self, label="fut"):
        self.state = "pending"  # pending | result | exception | cancelled
        self.value = None
        self.label = label
        self.fid = _nid()
        self.env_done = None  # symbolic "done" flag for futures whose state the environment controls
        self.callbacks = []

    def m_done(self, it):
        if self.env_done is not None and self.state == "pending":
            return self.env_done
        return self.state != "pending"

    def m_cancelled(self, it):
        return self.state == "cancelled"

    def _check_pending(self, it):
        if self.env_done is not None and self.state == "pending":
            raise Unsupported("set_* on a future with environment-controlled state")
        if self.state != "pending":
            it.raise_exc(asyncio.InvalidStateError, "invalid state")

    def m_set_result(self, it, v):
        self._check_pending(it)
        self.state, self.value = "result", v
        it.ctx.trace.append(("set_result", self, v))

    def m_set_exception(self, it, e):
        self._check_pending(it)
        if isinstance(e, type):
            e = it.instantiate(e, [], {})
        self.state, self.value = "exception", e
        it.ctx.trace.append(("set_exception", self, e))

    def m_cancel(self, it, msg=None):
        if self.state != "pending":
            return False
        self.state = "cancelled"
        it.ctx.trace.append(("cancel", self))
        return True

    def m_result(self, it):
        if self.state == "result":
            return self.value
        if self.state == "exception":
            raise RaiseEx(self.value)
        if self.state == "cancelled":
            it.raise_exc(asyncio.CancelledError)
        it.raise_exc(asyncio.InvalidStateError, "Result is not ready.")

    def m_exception(self, it):
        if self.state == "exception":
            return self.value
        if self.state == "result":
            return None
        if self.state == "cancelled":
            it.raise_exc(asyncio.CancelledError)
        it.raise_exc(asyncio.InvalidStateError, "Exception is not set.")

    def m_add_done_callback(self, it, cb):
        self.callbacks.append(cb)

    def sym_await(self, it):
        if self.state == "result":
            return self.value
        if self.state == "exception":
            raise RaiseEx(self.value)
        if self.state == "cancelled":
            it.raise_exc(asyncio.CancelledError)
        pol = getattr(it.top_contract, "await_policy", None)
        if pol is None:
            raise Unsupported("await of a pending future without Contract.await_policy")
        if isinstance(pol, staticmethod):
            pol = pol.__func__
        return pol(it, self)

    def sym_truth(self, it):
        return True


class TaskStub(FutureStub):
    pytype = asyncio.Task

    def __init__(self, coro, label="task"):
        super().__init__(label)
        self.coro = coro

    def m_cancel(self, it, msg=None):
        it.ctx.trace.append(("task_cancel", self))
        if self.state != "pending":
            return False
        self.cancel_requested = True
        return True


class TransportStub(StubObj):
    def __init__(self, label="transport", closing=False):
        self.closing = closing
        self.label = label
        self.tid = _nid()
        self.protocol = None

    def m_is_closing(self, it):
        return self.closing

    def m_write(self, it, data):
        it.ctx.trace.append(("write", self, data))

    def m_writelines(self, it, lines):
        from .env import snapshot

        it.ctx.trace.append(("writelines", self, snapshot(lines)))

    def m_write_eof(self, it):
        it.ctx.trace.append(("write_eof", self))

    def m_close(self, it):
        self.closing = True
        it.ctx.trace.append(("transport_close", self))
        opn = it.ctx.ghost.get("open")
        if opn is not None and self in opn:
            opn.remove(self)

    def m_set_protocol(self, it, p):
        self.protocol = p
        it.ctx.trace.append(("set_protocol", self, p))

    def m_get_extra_info(self, it, name, default=None):
        return default

    def sym_truth(self, it):
        return True


class LockStub(StubObj):
    def __init__(self, locked=False):
        self.is_locked = locked

    def m_locked(self, it):
        return self.is_locked

    def cm_enter(self, it, is_async):
        if isinstance(self.is_locked, SV) or self.is_locked:
            raise Unsupported("acquire of a lock that may be held (needs await model)")
        self.is_locked = True
        it.ctx.trace.append(("lock_acquire", self))
        return None

    def cm_exit(self, it, exc, is_async):
        self.is_locked = False
        it.ctx.trace.append(("lock_release", self))
        return False


class SemaphoreStub(StubObj):
    def __init__(self, value=1):
        self.value = value

    def cm_enter(self, it, is_async):
        it.ctx.trace.append(("sem_acquire", self))
        hook = it.await_hook
        if hook:
            hook(it, "after", self)
        return None

    def cm_exit(self, it, exc, is_async):
        it.ctx.trace.append(("sem_release", self))
        return False


class TimeoutCM(StubObj):
    def __init__(self, delay):
        self.delay = delay

    def cm_enter(self, it, is_async):
        it.ctx.trace.append(("timeout_enter", self.delay))
        it.ctx.ghost.setdefault("timeouts", []).append(self)
        return self

    def cm_exit(self, it, exc, is_async):
        it.ctx.ghost["timeouts"].remove(self)
        it.ctx.trace.append(("timeout_exit", self.delay))
        return False


class SleepAwaitable(StubObj):
    def __init__(self, delay):
        self.delay = delay

    def sym_await(self, it):
        it.ctx.trace.append(("sleep", self.delay))
        pol = getattr(it.top_contract, "sleep_policy", None)
        if pol is not None:
            if isinstance(pol, staticmethod):
                pol = pol.__func__
            return pol(it, self)
        return None


class ShieldAwaitable(StubObj):
    def __init__(self, inner):
        self.inner = inner

    def sym_await(self, it):
        it.ctx.trace.append(("await_shield", self.inner))
        return it.env.do_await(it, self.inner, None)


class LoopStub(StubObj):
    def __init__(self):
        self.now = None

    def m_create_future(self, it):
        f = FutureStub()
        it.ctx.trace.append(("create_future", f))
        return f

    def m_time(self, it):
        t = it.ctx.fresh("loop_time", z3.RealSort())
        it.ctx.assume(t >= 0)
        return SReal(t)

    def m_call_at(self, it, when, cb, *args):
        h = TimerStub("call_at", when, cb, args)
        it.ctx.trace.append(("call_at", when, cb, args, h))
        return h

    def m_call_later(self, it, delay, cb, *args):
        h = TimerStub("call_later", delay, cb, args)
        it.ctx.trace.append(("call_later", delay, cb, args, h))
        return h

    def m_call_soon(self, it, cb, *args):
        h = TimerStub("call_soon", 0, cb, args)
        it.ctx.trace.append(("call_soon", cb, args, h))
        return h

    def m_create_task(self, it, coro, **kw):
        t = TaskStub(coro)
        it.ctx.trace.append(("create_task", t))
        return t


def get_loop(it):
    lp = it.ctx.ghost.get("loop")
    if lp is None:
        lp = it.ctx.ghost["loop"] = LoopStub()
    return lp


def install(env):
    env.stub(asyncio.get_running_loop, lambda it: get_loop(it))
    env.stub(asyncio.get_event_loop, lambda it: get_loop(it))
    env.stub(asyncio.Lock, lambda it: LockStub())
    env.stub(asyncio.Semaphore, lambda it, value=1: SemaphoreStub(value))
    env.stub(asyncio.sleep, lambda it, delay, result=None: SleepAwaitable(delay))
    env.stub(asyncio.shield, lambda it, aw: ShieldAwaitable(aw))
    env.stub(asyncio.Protocol.connection_made, lambda it, self, transport: None)
    env.stub(asyncio.BaseProtocol.connection_made, lambda it, self, transport: None)
    from aiohomekit import utils

    env.stub(utils.asyncio_timeout, lambda it, delay: TimeoutCM(delay))

    def create_task(it, coro, name=None):
        t = TaskStub(coro)
        it.ctx.trace.append(("create_task", t))
        return t

    env.stub(utils.async_create_task, create_task)
    env.stub(asyncio.create_task, create_task)
    env.stub(asyncio.ensure_future, create_task)
    env.aio = {
        "Future": FutureStub, "Task": TaskStub, "Transport": TransportStub, "Lock": LockStub, "Semaphore": SemaphoreStub,
        "Loop": LoopStub, "Timer": TimerStub, "get_loop": get_loop,
    }
