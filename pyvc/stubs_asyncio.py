"""Assumed contracts of asyncio objects (DESIGN 3.2): futures, timers, transports, locks, tasks.

The event loop is trusted to run callbacks one at a time; `await` is the only interference point.  What
the environment may do at an await is chosen by the contract (Contract.await_policy / await_hook);
the objects here record every externally visible effect in the path's effect trace."""
from __future__ import annotations

import asyncio
import z3

from . import ops
from .ctx import RaiseEx
from .interp import StubObj, Coro, BoundMethod, Closure
from .values import SV, SBool, SInt, SReal, SObj, Unsupported, Bool, Real

_ids = [0]


def _nid():
    _ids[0] += 1
    return _ids[0]


class TimerStub(StubObj):
    def __init__(self, kind, when, cb, args):
        self.kind, self.when, self.cb, self.args = kind, when, cb, args
        self.cancelled = False
        self.tid = _nid()

    def m_cancel(self, it):
        self.cancelled = True
        it.ctx.trace.append(("timer_cancel", self))

    def m_cancelled(self, it):
        return self.cancelled


class FutureStub(StubObj):
    pytype = asyncio.Future

    def __init__(self, label="fut"):
        self.state = "pending"  # pending | result | exception | cancelled
        self.value = None
        self.label = label
        self.fid = _nid()
        self.env_done = None  # symbolic "done" flag for futures whose state the environment controls
        self.callbacks = []

    @property
    def f_state(self):
        return self.state

    @property
    def f_value(self):
        return self.value

    @property
    def f_state0(self):
        return getattr(self, "state0", None)

    def m_done(self, it):
        if self.env_done is not None and self.state == "pending":
            return self.env_done
        return self.state != "pending"

    def m_cancelled(self, it):
        return self.state == "cancelled"

    def _check_pending(self, it):
        if self.env_done is not None and self.state == "pending":
            raise Unsupported("set_* on a future with environment-controlled state")
        if self.state != "pending":
            it.raise_exc(asyncio.InvalidStateError, "invalid state")

    def m_set_result(self, it, v):
        self._check_pending(it)
        self.state, self.value = "result", v
        it.ctx.trace.append(("set_result", self, v))

    def m_set_exception(self, it, e):
        self._check_pending(it)
        if isinstance(e, type):
            e = it.instantiate(e, [], {})
        self.state, self.value = "exception", e
        it.ctx.trace.append(("set_exception", self, e))

    def m_cancel(self, it, msg=None):
        if self.state != "pending":
            return False
        self.state = "cancelled"
        it.ctx.trace.append(("cancel", self))
        return True

    def m_result(self, it):
        if self.state == "result":
            return self.value
        if self.state == "exception":
            raise RaiseEx(self.value)
        if self.state == "cancelled":
            it.raise_exc(asyncio.CancelledError)
        it.raise_exc(asyncio.InvalidStateError, "Result is not ready.")

    def m_exception(self, it):
        if self.state == "exception":
            return self.value
        if self.state == "result":
            return None
        if self.state == "cancelled":
            it.raise_exc(asyncio.CancelledError)
        it.raise_exc(asyncio.InvalidStateError, "Exception is not set.")

    def m_add_done_callback(self, it, cb):
        self.callbacks.append(cb)

    def sym_await(self, it):
        if self.state == "result":
            return self.value
        if self.state == "exception":
            raise RaiseEx(self.value)
        if self.state == "cancelled":
            it.raise_exc(asyncio.CancelledError)
        pol = getattr(it.top_contract, "await_policy", None)
        if pol is None:
            raise Unsupported("await of a pending future without Contract.await_policy")
        if isinstance(pol, staticmethod):
            pol = pol.__func__
        return pol(it, self)

    def sym_truth(self, it):
        return True


class TaskStub(FutureStub):
    pytype = asyncio.Task

    def __init__(self, coro, label="task"):
        super().__init__(label)
        self.coro = coro

    def m_cancel(self, it, msg=None):
        it.ctx.trace.append(("task_cancel", self))
        if self.state != "pending":
            return False
        self.cancel_requested = True
        return True


class TransportStub(StubObj):
    def __init__(self, label="transport", closing=False):
        self.closing = closing
        self.closing0 = closing  # value at creation (for `old` in contracts)
        self.label = label
        self.tid = _nid()
        self.protocol = None

    @property
    def f_closing(self):
        return self.closing

    @property
    def f_closing0(self):
        return self.closing0

    def m_is_closing(self, it):
        return self.closing

    def m_write(self, it, data):
        it.ctx.trace.append(("write", self, data))

    def m_writelines(self, it, lines):
        from .env import snapshot

        it.ctx.trace.append(("writelines", self, snapshot(lines)))

    def m_write_eof(self, it):
        it.ctx.trace.append(("write_eof", self))

    def m_close(self, it):
        self.closing = True
        it.ctx.trace.append(("transport_close", self))
        opn = it.ctx.ghost.get("open")
        if opn is not None and self in opn:
            opn.remove(self)

    def m_set_protocol(self, it, p):
        self.protocol = p
        it.ctx.trace.append(("set_protocol", self, p))

    def m_get_extra_info(self, it, name, default=None):
        return default

    def sym_truth(self, it):
        return True


class LockStub(StubObj):
    def __init__(self, locked=False):
        self.is_locked = locked

    @property
    def f_is_locked(self):
        return self.is_locked

    def m_locked(self, it):
        return self.is_locked

    def cm_enter(self, it, is_async):
        if isinstance(self.is_locked, SV) or self.is_locked:
            raise Unsupported("acquire of a lock that may be held (needs await model)")
        self.is_locked = True
        it.ctx.trace.append(("lock_acquire", self))
        return None

    def cm_exit(self, it, exc, is_async):
        self.is_locked = False
        it.ctx.trace.append(("lock_release", self))
        return False


class SemaphoreStub(StubObj):
    def __init__(self, value=1):
        self.value = value

    def cm_enter(self, it, is_async):
        it.ctx.trace.append(("sem_acquire", self))
        hook = it.await_hook
        if hook:
            hook(it, "after", self)
        return None

    def cm_exit(self, it, exc, is_async):
        it.ctx.trace.append(("sem_release", self))
        return False


class TimeoutCM(StubObj):
    def __init__(self, delay):
        self.delay = delay

    def cm_enter(self, it, is_async):
        it.ctx.trace.append(("timeout_enter", self.delay))
        it.ctx.ghost.setdefault("timeouts", []).append(self)
        return self

    def cm_exit(self, it, exc, is_async):
        it.ctx.ghost["timeouts"].remove(self)
        it.ctx.trace.append(("timeout_exit", self.delay))
        return False


class SleepAwaitable(StubObj):
    def __init__(self, delay):
        self.delay = delay

    def sym_await(self, it):
        it.ctx.trace.append(("sleep", self.delay))
        pol = getattr(it.top_contract, "sleep_policy", None)
        if pol is not None:
            if isinstance(pol, staticmethod):
                pol = pol.__func__
            return pol(it, self)
        return None


class ShieldAwaitable(StubObj):
    def __init__(self, inner):
        self.inner = inner

    def sym_await(self, it):
        it.ctx.trace.append(("await_shield", self.inner))
        return it.env.do_await(it, self.inner, None)


class LoopStub(StubObj):
    def __init__(self):
        self.now = None

    def m_create_future(self, it):
        f = FutureStub()
        it.ctx.trace.append(("create_future", f))
        return f

    def m_time(self, it):
        t = it.ctx.fresh("loop_time", z3.RealSort())
        it.ctx.assume(t >= 0)
        it.ctx.trace.append(("loop_time", SReal(t)))
        return SReal(t)

    def m_call_at(self, it, when, cb, *args):
        h = TimerStub("call_at", when, cb, args)
        it.ctx.trace.append(("call_at", when, cb, args, h))
        return h

    def m_call_later(self, it, delay, cb, *args):
        h = TimerStub("call_later", delay, cb, args)
        it.ctx.trace.append(("call_later", delay, cb, args, h))
        return h

    def m_call_soon(self, it, cb, *args):
        h = TimerStub("call_soon", 0, cb, args)
        it.ctx.trace.append(("call_soon", cb, args, h))
        return h

    def m_create_task(self, it, coro, **kw):
        t = TaskStub(coro)
        it.ctx.trace.append(("create_task", t))
        return t


def get_loop(it):
    lp = it.ctx.ghost.get("loop")
    if lp is None:
        lp = it.ctx.ghost["loop"] = LoopStub()
    return lp


def install(env):
    env.stub(asyncio.get_running_loop, lambda it: get_loop(it))
    env.stub(asyncio.get_event_loop, lambda it: get_loop(it))
    env.stub(asyncio.Lock, lambda it: LockStub())
    env.stub(asyncio.Semaphore, lambda it, value=1: SemaphoreStub(value))
    env.stub(asyncio.sleep, lambda it, delay, result=None: SleepAwaitable(delay))
    env.stub(asyncio.shield, lambda it, aw: ShieldAwaitable(aw))
    env.stub(asyncio.Protocol.connection_made, lambda it, self, transport: None)
    env.stub(asyncio.BaseProtocol.connection_made, lambda it, self, transport: None)
    from aiohomekit import utils

    env.stub(utils.asyncio_timeout, lambda it, delay: TimeoutCM(delay))

    def create_task(it, coro, name=None):
        t = TaskStub(coro)
        it.ctx.trace.append(("create_task", t))
        return t

    env.stub(utils.async_create_task, create_task)
    env.stub(asyncio.create_task, create_task)
    env.stub(asyncio.ensure_future, create_task)
    env.aio = {
        "Future": FutureStub, "Task": TaskStub, "Transport": TransportStub, "Lock": LockStub, "Semaphore": SemaphoreStub,
        "Loop": LoopStub, "Timer": TimerStub, "get_loop": get_loop,
    }


# ----------------------------------------------------------------------------------------------------
# Futures as references into a ghost heap (unbounded collections of futures, e.g. result_cbs).
#   ghost["fut_state"] : Array Int -> Int   0 pending, 1 result, 2 exception, 3 cancelled
#   ghost["fut_val"]   : Array Int -> Int   identity of the result value / kind of the exception
#   ghost["fut_alloc"] : Int                references >= fut_alloc are not allocated yet
# Exception kinds: 1 asyncio.TimeoutError, 2 AccessoryDisconnectedError, 3 other.

from .values import SArr, Int as _IntSort, SOpaque  # noqa: E402

PENDING, RESULT, EXCEPTION, CANCELLED = 0, 1, 2, 3
EXC_TIMEOUT, EXC_DISCONNECTED, EXC_OTHER = 1, 2, 3


def heap_init(it):
    g = it.ctx.ghost
    if "fut_state" not in g:
        g["fut_state"] = SArr(it.ctx.fresh("fut_state", z3.ArraySort(z3.IntSort(), z3.IntSort())), _IntSort, _IntSort)
        g["fut_val"] = SArr(it.ctx.fresh("fut_val", z3.ArraySort(z3.IntSort(), z3.IntSort())), _IntSort, _IntSort)
        a = it.ctx.fresh("fut_alloc", z3.IntSort())
        it.ctx.assume(a >= 0)
        g["fut_alloc"] = SInt(a)
        g["values"] = {}
    return g


def value_id(it, v):
    """an integer identity for an arbitrary result value (objects by identity)"""
    g = it.ctx.ghost
    tab = g.setdefault("values", {})
    for k, (obj, _) in tab.items():
        if obj is v:
            return z3.IntVal(k)
    k = len(tab) + 1
    tab[k] = (v, None)
    return z3.IntVal(k)


def exc_kind(e):
    from aiohomekit.exceptions import AccessoryDisconnectedError

    cls = e.cls if isinstance(e, SObj) else (e if isinstance(e, type) else type(e))
    if issubclass(cls, asyncio.TimeoutError):
        return EXC_TIMEOUT
    if issubclass(cls, AccessoryDisconnectedError):
        return EXC_DISCONNECTED
    return EXC_OTHER


class SymFuture(StubObj):
    """a future identified by a (possibly symbolic) reference into the ghost heap"""

    pytype = asyncio.Future

    def __init__(self, ref):
        self.ref = ref  # z3 Int term
        self.f_ref = SInt(ref)

    def _st(self, it):
        return z3.Select(it.ctx.ghost["fut_state"].term, self.ref)

    def m_done(self, it):
        return ops.mk_bool(self._st(it) != PENDING)

    def m_cancelled(self, it):
        return ops.mk_bool(self._st(it) == CANCELLED)

    def _set(self, it, st, val):
        g = it.ctx.ghost
        it.require(self._st(it) == PENDING, asyncio.InvalidStateError, "invalid state")
        g["fut_state"].term = z3.Store(g["fut_state"].term, self.ref, z3.IntVal(st))
        g["fut_val"].term = z3.Store(g["fut_val"].term, self.ref, val)

    def m_set_result(self, it, v):
        self._set(it, RESULT, value_id(it, v))
        it.ctx.trace.append(("set_result", self, v))

    def m_set_exception(self, it, e):
        self._set(it, EXCEPTION, z3.IntVal(exc_kind(e)))
        it.ctx.trace.append(("set_exception", self, e))

    def m_cancel(self, it, msg=None):
        g = it.ctx.ghost
        if it.ctx.branch(self._st(it) == PENDING):
            g["fut_state"].term = z3.Store(g["fut_state"].term, self.ref, z3.IntVal(CANCELLED))
            return True
        return False

    def sym_compare(self, it, op, other):
        import ast as _ast

        if isinstance(op, (_ast.Eq, _ast.Is)):
            return ops.mk_bool(self.ref == other.ref) if isinstance(other, SymFuture) else False
        if isinstance(op, (_ast.NotEq, _ast.IsNot)):
            return ops.mk_bool(self.ref != other.ref) if isinstance(other, SymFuture) else True
        raise Unsupported("ordering of futures")

    def sym_await(self, it):
        pol = getattr(it.top_contract, "await_policy", None)
        if pol is None:
            raise Unsupported("await of a heap future without Contract.await_policy")
        if isinstance(pol, staticmethod):
            pol = pol.__func__
        return pol(it, self)

    def sym_truth(self, it):
        return True


class FutRefSort:
    """element sort of a symbolic list of futures: boxed as the Int reference"""

    name = "FutRef"

    def z3sort(self):
        return z3.IntSort()

    def box(self, v):
        if isinstance(v, SymFuture):
            return v.ref
        raise Unsupported(f"box FutRef from {v!r}")

    def unbox(self, t):
        return SymFuture(t)

    def fresh(self, mk, name):
        return self.unbox(mk(name, self.z3sort()))


from .values import Sort as _Sort  # noqa: E402

FutRef = type("FutRefSortT", (FutRefSort, _Sort), {})()


def new_heap_future(it):
    g = heap_init(it)
    ref = g["fut_alloc"].term
    g["fut_alloc"] = SInt(z3.simplify(ref + 1))
    g["fut_state"].term = z3.Store(g["fut_state"].term, ref, z3.IntVal(PENDING))
    f = SymFuture(ref)
    it.ctx.trace.append(("create_future", f))
    return f


_old_create = LoopStub.m_create_future


def _create_future(self, it):
    if "fut_state" in it.ctx.ghost:
        return new_heap_future(it)
    return _old_create(self, it)


LoopStub.m_create_future = _create_future
