"""Assumed contract of aiohomekit.crypto.srp.SrpClient for callers (pair-setup).  The class itself is
verified against RFC 5054 under C02; here its methods are the spec symbols."""
from __future__ import annotations

import z3

from . import ops
from .interp import StubObj
from .values import SBytes, ISEQ, Unsupported

I = z3.IntSort()
B = z3.BoolSort()
F_srp_A = z3.Function("srp_A", I, ISEQ)
F_srp_M1 = z3.Function("srp_M1", I, ISEQ, ISEQ, ISEQ, ISEQ)  # (a, pin, salt, B)
F_srp_M2 = z3.Function("srp_M2", I, ISEQ, ISEQ, ISEQ, ISEQ)
F_srp_K = z3.Function("srp_K", I, ISEQ, ISEQ, ISEQ, ISEQ)
F_os2ip_be = None

NOTE = "assumed contract: SrpClient methods return the RFC 5054 values (verified separately under C02)"


class SrpClientModel(StubObj):
    def __init__(self, it, username, password):
        self.a = it.ctx.fresh("srp_a", I)
        it.ctx.assume(self.a >= 0)
        from .values import SInt

        self.f_a = SInt(self.a)
        self.user = username
        self.pin = ops.str_term(password)
        self.salt = None
        self.B = None
        it.ctx.ghost["srp"] = self
        it.env.assumptions_used.add(NOTE)

    def m_set_salt(self, it, salt):
        if not ops.is_byteslike(salt):
            raise Unsupported("set_salt(int)")
        # pad_left(..., 16) raises ValueError for a salt longer than 16 bytes
        it.require(z3.Length(ops.bytes_term(salt)) <= 16, ValueError, "negative count")
        self.salt = ops.bytes_term(salt)

    def m_set_server_public_key(self, it, b):
        if not ops.is_byteslike(b):
            it.raise_exc(AssertionError, "The public key must be a bytes")
        self.B = ops.bytes_term(b)

    def _need(self, it):
        if self.B is None or self.salt is None:
            it.raise_exc(RuntimeError, "Servers's public key is missing")

    def m_get_public_key_bytes(self, it):
        t = F_srp_A(self.a)
        it.ctx.assume(z3.Length(t) == 384)
        return ops.mk_bytes(t)

    def m_get_proof_bytes(self, it):
        self._need(it)
        t = F_srp_M1(self.a, self.pin, self.salt, self.B)
        it.ctx.assume(z3.Length(t) == 64)
        return ops.mk_bytes(t)

    def m_get_session_key_bytes(self, it):
        self._need(it)
        t = F_srp_K(self.a, self.pin, self.salt, self.B)
        it.ctx.assume(z3.Length(t) == 64)
        return ops.mk_bytes(t)

    def m_get_session_key(self, it):
        from .stubs_builtin import F_os2ip_be

        self._need(it)
        t = F_srp_K(self.a, self.pin, self.salt, self.B)
        it.ctx.assume(z3.Length(t) == 64)
        r = F_os2ip_be(t)
        it.ctx.assume(r >= 0)
        return ops.mk_int(r)

    def m_verify_servers_proof_bytes(self, it, m):
        from .stubs_builtin import F_os2ip_be

        self._need(it)
        exp = F_srp_M2(self.a, self.pin, self.salt, self.B)
        it.ctx.assume(z3.Length(exp) == 64)
        mt = ops.bytes_term(m)
        # the implementation compares big-endian integers; for a 64-byte proof that is byte equality
        ok = F_os2ip_be(mt) == F_os2ip_be(exp)
        it.ctx.assume(z3.Implies(z3.Length(mt) == 64, ok == (mt == exp)))
        r = ops.mk_bool(ok)
        it.ctx.trace.append(("srp_verify", SBytes(mt), r))
        return r


F_minbytes = z3.Function("minbytes", I, ISEQ)  # minimal big-endian bytes of a non-negative int (no leading zero)


def install(env):
    from aiohomekit.crypto.srp import SrpClient
    from aiohomekit.crypto import srp as _srp
    from .stubs_builtin import F_os2ip_be

    def to_byte_array(it, num):
        """model of srp.to_byte_array for callers outside the SRP class (verified under C02): the minimal
        big-endian encoding; it drops leading zero bytes, so it is NOT the inverse of from_bytes on padded data"""
        n = ops.int_term(num)
        t = F_minbytes(n)
        it.ctx.assume(F_os2ip_be(t) == n)
        from .values import SBytes

        return SBytes(t, True)

    env.stub(_srp.to_byte_array, to_byte_array)

    env.srp_symbols = {
        "srpA": lambda it, a: ops.mk_bytes(F_srp_A(ops.int_term(a))),
        "srpM1": lambda it, a, pin, salt, B: ops.mk_bytes(F_srp_M1(ops.int_term(a), ops.str_term(pin), ops.bytes_term(salt), ops.bytes_term(B))),
        "srpM2": lambda it, a, pin, salt, B: ops.mk_bytes(F_srp_M2(ops.int_term(a), ops.str_term(pin), ops.bytes_term(salt), ops.bytes_term(B))),
        "srpK": lambda it, a, pin, salt, B: ops.mk_bytes(F_srp_K(ops.int_term(a), ops.str_term(pin), ops.bytes_term(salt), ops.bytes_term(B))),
    }

    env.stub(SrpClient, lambda it, username, password: SrpClientModel(it, username, password))
