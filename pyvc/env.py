"""Environment: stub registry, contracts, loops with invariants, generators, awaits, helpers."""
from __future__ import annotations

import ast
import enum
import logging
import sys
import types
import z3

from . import ops
from .api import Contract, LoopInv, SpecFn
from .ctx import PathEnd, Infeasible, ReturnEx, BreakEx, ContinueEx, RaiseEx
from .interp import (
    Interp, Frame, Closure, BoundMethod, SymMethod, Coro, GenObj, StubObj, function_ast, is_repo_function,
    loops_in_order, _walk_same_scope,
)
from .values import LazyValue
from .values import (
    set_term, ViewList,
    SV, SInt, SBool, SReal, SBytes, SStr, SSeq, SEnum, SOpaque, SObj, SymRecDict, Unsupported,
    Int, Bool, Real, Bytes, ByteArray, Str, ListOf, TupleOf, EnumOf, sort_of, has_sym, ISEQ, Sort, SArr,
)


class SuperProxy(StubObj):
    def __init__(self, cls, obj):
        self.cls = cls
        self.obj = obj

    def sym_getattr(self, it, name):
        obj = self.obj
        ocls = obj.cls if isinstance(obj, SObj) else (obj if isinstance(obj, type) else type(obj))
        mro = ocls.__mro__
        start = mro.index(self.cls) + 1 if self.cls in mro else 0
        for c in mro[start:]:
            if name in c.__dict__:
                a = c.__dict__[name]
                if isinstance(a, types.FunctionType):
                    return BoundMethod(obj, a)
                if isinstance(a, (staticmethod,)):
                    return a.__func__
                if isinstance(a, classmethod):
                    return BoundMethod(ocls, a.__func__)
                if isinstance(a, property):
                    return it.call_function(a.fget, [obj], {})
                if type(a).__name__ in ("wrapper_descriptor", "method_descriptor"):
                    return BoundMethod(obj, a)
                return a
        it.raise_exc(AttributeError, f"super object has no attribute {name}")


class EagerGen(StubObj):
    """result of eagerly running an interpreted generator function that is only iterated."""

    def __init__(self, items, retval):
        self.items = items
        self.retval = retval
        self.pos = 0

    def sym_iter(self, it):
        while self.pos < len(self.items):
            self.pos += 1
            yield self.items[self.pos - 1]

    def m___next__(self, it):
        if self.pos < len(self.items):
            self.pos += 1
            return self.items[self.pos - 1]
        it.raise_exc(StopIteration)


def snapshot(v, depth=0):
    """immutable copy of a value as of now (mutable symbolic sequences get a new wrapper)."""
    if isinstance(v, SBytes):
        return SBytes(v.term, v.mutable)
    if isinstance(v, SSeq):
        return SSeq(v.term, v.elem, v.mutable)
    if isinstance(v, SArr):
        return SArr(v.term, v.isort, v.vsort)
    if depth > 3:
        return v
    if isinstance(v, list):
        return [snapshot(x, depth + 1) for x in v]
    if isinstance(v, tuple):
        return tuple(snapshot(x, depth + 1) for x in v)
    if isinstance(v, dict):
        return {k: snapshot(x, depth + 1) for k, x in v.items()}
    if isinstance(v, set):
        return set(v)
    if isinstance(v, bytearray):
        return bytes(v)
    return v


class ObjSnapshot(StubObj):
    """`old`: the fields of an object as of function entry."""

    def __init__(self, obj):
        self.obj = obj
        self.fields_ = {k: snapshot(v) for k, v in obj.fields.items()}

    def sym_getattr(self, it, name):
        if name in self.fields_:
            return self.fields_[name]
        a = it.class_lookup(self.obj.cls, name)
        if a is None:
            raise Unsupported(f"old.{name}: no such field")
        if isinstance(a, property):
            raise Unsupported("old.<property>")
        return a


def same_value(a, b):
    """structural identity used by the havoc-completeness check"""
    if a is b:
        return True
    if isinstance(a, SV) and isinstance(b, SV):
        if type(a) is not type(b):
            return False
        ta, tb = getattr(a, "term", None), getattr(b, "term", None)
        if ta is None or tb is None:
            return False
        return ta.eq(tb)
    if isinstance(a, (list, tuple)) and isinstance(b, (list, tuple)) and type(a) is type(b):
        return len(a) == len(b) and all(same_value(x, y) for x, y in zip(a, b))
    if isinstance(a, dict) and isinstance(b, dict):
        return a.keys() == b.keys() and all(same_value(a[k], b[k]) for k in a)
    if isinstance(a, (SV, SObj, StubObj)) or isinstance(b, (SV, SObj, StubObj)):
        return False
    try:
        return bool(a == b)
    except Exception:
        return False


class ModSet:
    def __init__(self):
        self.names = set()
        self.mutated = set()  # names whose content is mutated in place
        self.self_fields = set()  # attribute names stored on `self`
        self.other_attr = set()  # (name, attr)
        self.has_yield = False
        self.calls_self_methods = set()


MUTATORS = {
    "append", "extend", "pop", "insert", "remove", "clear", "add", "discard", "update", "sort", "reverse",
    "setdefault", "popitem", "appendleft", "popleft",
}


def analyse_mods(nodes, selfname="self"):
    ms = ModSet()

    def target(t):
        if isinstance(t, ast.Name):
            ms.names.add(t.id)
        elif isinstance(t, (ast.Tuple, ast.List)):
            for e in t.elts:
                target(e)
        elif isinstance(t, ast.Starred):
            target(t.value)
        elif isinstance(t, ast.Attribute):
            base = t.value
            if isinstance(base, ast.Name) and base.id == selfname:
                ms.self_fields.add(t.attr)
            elif isinstance(base, ast.Name):
                ms.other_attr.add((base.id, t.attr))
            else:
                root = _root(base)
                if root:
                    _mut(root)
        elif isinstance(t, ast.Subscript):
            root = _root(t.value)
            if root:
                _mut(root)

    def _root(n):
        while isinstance(n, (ast.Attribute, ast.Subscript)):
            if isinstance(n, ast.Attribute) and isinstance(n.value, ast.Name) and n.value.id == selfname:
                return ("self", n.attr)
            n = n.value
        if isinstance(n, ast.Name):
            return ("name", n.id)
        return None

    def _mut(root):
        if root[0] == "self":
            ms.self_fields.add(root[1])
        else:
            ms.mutated.add(root[1])

    class V(ast.NodeVisitor):
        def visit_Assign(self, n):
            for t in n.targets:
                target(t)
            self.generic_visit(n)

        def visit_AugAssign(self, n):
            target(n.target)
            if isinstance(n.target, ast.Name):
                ms.mutated.add(n.target.id)
            self.generic_visit(n)

        def visit_AnnAssign(self, n):
            if n.value is not None:
                target(n.target)
            self.generic_visit(n)

        def visit_NamedExpr(self, n):
            target(n.target)
            self.generic_visit(n)

        def visit_For(self, n):
            target(n.target)
            self.generic_visit(n)

        visit_AsyncFor = visit_For

        def visit_With(self, n):
            for i in n.items:
                if i.optional_vars is not None:
                    target(i.optional_vars)
            self.generic_visit(n)

        visit_AsyncWith = visit_With

        def visit_ExceptHandler(self, n):
            if n.name:
                ms.names.add(n.name)
            self.generic_visit(n)

        def visit_Delete(self, n):
            for t in n.targets:
                target(t)
            self.generic_visit(n)

        def visit_Call(self, n):
            f = n.func
            if isinstance(f, ast.Attribute):
                if f.attr in MUTATORS:
                    root = _root(f.value)
                    if root:
                        _mut(root)
                if isinstance(f.value, ast.Name) and f.value.id == selfname:
                    ms.calls_self_methods.add(f.attr)
                if (
                    isinstance(f.value, ast.Call)
                    and isinstance(f.value.func, ast.Name)
                    and f.value.func.id == "super"
                ):
                    ms.calls_self_methods.add("super." + f.attr)
            self.generic_visit(n)

        def visit_Yield(self, n):
            ms.has_yield = True
            self.generic_visit(n)

        def visit_FunctionDef(self, n):
            ms.names.add(n.name)

        visit_AsyncFunctionDef = visit_FunctionDef

        def visit_Lambda(self, n):
            pass

        def visit_ListComp(self, n):
            # comprehension targets are local to the comprehension
            for g in n.generators:
                self.visit(g.iter)
                for c in g.ifs:
                    self.visit(c)
            if hasattr(n, "elt"):
                self.visit(n.elt)
            else:
                self.visit(n.key)
                self.visit(n.value)

        visit_SetComp = visit_GeneratorExp = visit_DictComp = visit_ListComp

    for n in nodes:
        V().visit(n)
    return ms


class Env:
    MUTATORS = MUTATORS

    def __init__(self):
        self.stubs = {}  # id(obj) -> (obj, stub)
        self.method_stubs = {}  # (type, name) -> stub
        self.sym_methods = {}  # (valueclass, name) -> impl
        self.contracts_by_fn = {}  # function object -> Contract
        self.modular = {}  # function object -> Contract (used at call sites)
        self.specs = {}
        self.spec_decls = {}
        self.type_stubs = []  # (predicate(obj), handler) for dynamic dispatch e.g. struct.Struct methods
        self.top_fn = None
        self.noinline = set()
        self.assumptions_used = set()
        self.inlined = set()
        self.loop_effects = {}

    # ----------------------------------------------------------------- registry
    def stub(self, obj, fn=None):
        if fn is None:
            def deco(f):
                self.stubs[id(obj)] = (obj, f)
                return f

            return deco
        self.stubs[id(obj)] = (obj, fn)

    def lookup_stub(self, fn):
        e = self.stubs.get(id(fn))
        if e is not None and e[0] is fn:
            return e[1]
        if isinstance(fn, SpecFn):
            return lambda it, *a, **k: self.apply_spec(it, fn, a, k)
        # bound builtin methods / class-level dispatch
        for pred, handler in self.type_stubs:
            h = pred(fn)
            if h:
                return lambda it, *a, _h=handler, _fn=fn, **k: _h(it, _fn, *a, **k)
        if isinstance(fn, (types.MethodType,)):
            e = self.stubs.get(id(fn.__func__))
            if e is not None and e[0] is fn.__func__:
                return lambda it, *a, _s=e[1], _o=fn.__self__, **k: _s(it, _o, *a, **k)
        return None

    def lookup_method_stub(self, typ, name):
        for c in typ.__mro__:
            s = self.method_stubs.get((c, name))
            if s is not None:
                return s
        return None

    # ----------------------------------------------------------------- assumed axioms, instantiated on the terms present
    def add_axiom(self, decl_name, fact, note):
        """an assumed universally quantified fact about a function symbol, used through ground instances only: for
        every application app of the symbol that occurs in a VC, fact(app) is added as a hypothesis"""
        if not hasattr(self, "axioms"):
            self.axioms = {}
        self.axioms[decl_name] = (fact, note)
        self.assumptions_used.add(note)

    def axiom_instances(self, terms):
        ax = getattr(self, "axioms", None)
        if not ax:
            return []
        out, seen, todo = [], set(), list(terms)
        while todo:
            t = todo.pop()
            i = t.get_id()
            if i in seen:
                continue
            seen.add(i)
            if z3.is_app(t):
                e = ax.get(t.decl().name()) if t.num_args() > 0 else None
                if e is not None:
                    out.append(e[0](t))
                todo.extend(t.children())
            elif z3.is_quantifier(t):
                todo.append(t.body())
        return out

    def class_assigns_attr(self, cls, name):
        """does any class in the MRO assign `self.<name>` somewhere in its source?"""
        import inspect
        import re

        memo = self.__dict__.setdefault("_assigns_memo", {})
        key = (cls, name)
        if key not in memo:
            found = False
            pat = re.compile(r"\bself\.%s\b\s*(:[^=\n]+)?=[^=]" % re.escape(name))
            for c in cls.__mro__:
                if c is object:
                    continue
                try:
                    src = inspect.getsource(c)
                except (OSError, TypeError):
                    continue
                if pat.search(src):
                    found = True
                    break
            memo[key] = found
        return memo[key]

    def is_spec_module(self, fn):
        mod = getattr(fn, "__module__", "") or ""
        return mod.startswith("specs") or mod.startswith("contracts") or mod.startswith("lemmas") or mod == "pyvc.api"

    def owner_class(self, fn):
        mod = sys.modules.get(fn.__module__)
        parts = fn.__qualname__.split(".")
        obj = mod
        try:
            for p in parts[:-1]:
                if p == "<locals>":
                    return None
                obj = getattr(obj, p)
        except AttributeError:
            return None
        return obj if isinstance(obj, type) else None

    # ----------------------------------------------------------------- small hooks
    def is_logger_call(self, it, node, frame):
        f = node.func
        if isinstance(f.value, ast.Name) and f.attr in (
            "debug", "info", "warning", "error", "exception", "critical", "log", "isEnabledFor",
        ):
            try:
                v = frame.lookup(f.value.id)
            except NameError:
                return False
            if isinstance(v, logging.Logger):
                self.assumptions_used.add("LOG: logging calls are no-ops; their arguments are evaluated only where they are calls of functions with a call-site contract (others are listed individually)")
                return True
        return False

    def is_type_narrowing_assert(self, node):
        t = node.test
        return isinstance(t, ast.Call) and isinstance(t.func, ast.Name) and t.func.id == "isinstance"

    def enum_attr(self, it, obj, name):
        return it.opaque_str(f"enum_{name}")

    def enum_construct(self, it, cls, v):
        if not isinstance(v, SV):
            return it.native(cls, v)
        members = [int(m.value) for m in cls if isinstance(m.value, int)]
        if len(members) != len(list(cls)):
            raise Unsupported(f"enum {cls.__name__} with non-int values")
        t = ops.int_term(v)
        ok = z3.Or(*[t == z3.IntVal(m) for m in sorted(set(members))])
        if not it.ctx.pure:
            it.require(ok, ValueError, f"not a valid {cls.__name__}")
        return SEnum(cls, t)

    def dataclass_init(self, it, obj, cls, args, kwargs):
        import dataclasses

        fields = [f for f in dataclasses.fields(cls) if f.init]
        for f, a in zip(fields, args):
            obj.fields[f.name] = a
        for f in fields[len(args):]:
            if f.name in kwargs:
                obj.fields[f.name] = kwargs[f.name]
            elif f.default is not dataclasses.MISSING:
                obj.fields[f.name] = f.default
            elif f.default_factory is not dataclasses.MISSING:
                obj.fields[f.name] = f.default_factory()
            else:
                it.raise_exc(TypeError, f"missing argument {f.name}")
        post = it.class_lookup(cls, "__post_init__")
        if post is not None:
            it.call(BoundMethod(obj, post), [], {})

    def make_super(self, it, cls, obj):
        if cls is None or obj is None:
            raise Unsupported("super() without class context")
        return SuperProxy(cls, obj)

    def format_value(self, it, v, conversion, spec):
        if conversion == -1 and not spec:
            if isinstance(v, str):
                return v
            if isinstance(v, SStr):
                return v
            if isinstance(v, SInt):
                return self.int_to_str(it, v)
        if not isinstance(v, (SV, SObj, StubObj, SymRecDict)) and not has_sym(v):
            conv = {-1: "", 115: "!s", 114: "!r", 97: "!a"}[conversion]
            return it.native(lambda: format(v if conversion == -1 else {115: str, 114: repr, 97: ascii}[conversion](v), spec or ""))
        return it.opaque_str("fmt")

    def int_to_str(self, it, v):
        f = z3.Function("itoa", z3.IntSort(), ISEQ)
        return SStr(f(ops.int_term(v)))

    def obj_binop(self, it, op, a, b):
        raise Unsupported(f"operator on objects {type(a).__name__}, {type(b).__name__}")

    def ite(self, it, c, a, b):
        if a is b:
            return a
        if ops.is_intlike(a) and ops.is_intlike(b) and not (isinstance(a, (SBool, bool)) and isinstance(b, (SBool, bool))):
            return ops.mk_int(z3.If(c, ops.int_term(a), ops.int_term(b)))
        if isinstance(a, (SBool, bool)) and isinstance(b, (SBool, bool)):
            return ops.mk_bool(z3.If(c, ops.bool_term(a), ops.bool_term(b)))
        if ops.is_byteslike(a) and ops.is_byteslike(b):
            return ops.mk_bytes(z3.If(c, ops.bytes_term(a), ops.bytes_term(b)), ops.is_mutable_bytes(a))
        if ops.is_strlike(a) and ops.is_strlike(b):
            return ops.mk_str(z3.If(c, ops.str_term(a), ops.str_term(b)))
        if (ops.is_intlike(a) or ops.is_reallike(a)) and (ops.is_intlike(b) or ops.is_reallike(b)):
            return ops.mk_real(z3.If(c, ops.real_term(a), ops.real_term(b)))
        if isinstance(a, (tuple, list)) and isinstance(b, (tuple, list)) and len(a) == len(b) and type(a) is type(b):
            return type(a)(self.ite(it, c, x, y) for x, y in zip(a, b))
        if isinstance(a, SSeq) and isinstance(b, (SSeq, list, tuple)):
            return SSeq(z3.If(c, a.term, ListOf(a.elem).box(b)), a.elem, a.mutable)
        if isinstance(b, SSeq) and isinstance(a, (list, tuple)):
            return SSeq(z3.If(c, ListOf(b.elem).box(a), b.term), b.elem, b.mutable)
        if isinstance(a, SEnum) or isinstance(b, SEnum):
            cls = a.cls if isinstance(a, SEnum) else b.cls
            return SEnum(cls, z3.If(c, EnumOf(cls).box(a), EnumOf(cls).box(b)))
        if not isinstance(a, SV) and not isinstance(b, SV) and same_value(a, b):
            return a
        raise Unsupported(f"ite of {type(a).__name__} / {type(b).__name__}")

    def comprehension_hook(self, it, node, frame):
        return NotImplemented

    def sym_unpack(self, it, v, n, starred):
        if isinstance(v, (SBytes, SStr, SSeq)) and not starred:
            ln = z3.Length(v.term)
            it.require(ln == n, ValueError, f"unpack expected {n}")
            return [ops.index(it, v, i) for i in range(n)]
        raise Unsupported(f"unpack of {type(v).__name__}")

    def dict_sym_lookup(self, it, d, k):
        # finite dict with concrete keys, symbolic lookup key: case split
        for key in d.keys():
            if it.ctx.branch(ops.sym_eq(k, key)):
                return d[key]
        it.raise_exc(KeyError, k)

    def dict_sym_store(self, it, d, k, v):
        for key in list(d.keys()):
            if it.ctx.branch(ops.sym_eq(k, key)):
                d[key] = v
                return
        raise Unsupported("store of a new symbolic key into a concrete dict")

    def dict_sym_delete(self, it, d, k):
        raise Unsupported("del with symbolic key")

    def list_sym_index(self, it, lst, idx):
        t = ops.int_term(idx)
        n = len(lst)
        for j in range(n):
            if it.ctx.branch(z3.Or(t == j, t == j - n)):
                return lst[j]
        it.raise_exc(IndexError, "list index out of range")

    def bytearray_store(self, it, obj, idx, v, is_slice):
        n = z3.Length(obj.term)
        if is_slice:
            a, b = ops.slice_bounds(it, n, idx[1], idx[2])
            bb = z3.If(b < a, a, b)
            set_term(obj, z3.Concat(z3.Extract(obj.term, z3.IntVal(0), a), ops.bytes_term(v), z3.Extract(obj.term, bb, n - bb)))
            return
        i, ok = ops._norm_index(it, idx, n)
        it.require(ok, IndexError, "bytearray index out of range")
        vt = ops.int_term(v)
        it.require(z3.And(vt >= 0, vt <= 255), ValueError, "byte must be in range(0, 256)")
        set_term(obj, z3.Concat(z3.Extract(obj.term, z3.IntVal(0), i), z3.Unit(vt), z3.Extract(obj.term, i + 1, n - i - 1)))

    def sseq_store(self, it, obj, idx, v, is_slice):
        if is_slice:
            raise Unsupported("slice store into symbolic list")
        n = z3.Length(obj.term)
        i, ok = ops._norm_index(it, idx, n)
        it.require(ok, IndexError, "list assignment index out of range")
        set_term(obj, z3.Concat(z3.Extract(obj.term, z3.IntVal(0), i), z3.Unit(obj.elem.box(v)), z3.Extract(obj.term, i + 1, n - i - 1)))

    # ----------------------------------------------------------------- symbolic methods
    def sym_method(self, it, obj, name, args, kwargs):
        for c in type(obj).__mro__:
            impl = self.sym_methods.get((c, name))
            if impl is not None:
                return impl(it, obj, *args, **kwargs)
        pytype = {"SInt": int, "SBool": bool, "SReal": float, "SStr": str}.get(type(obj).__name__)
        if pytype is None and type(obj).__name__ == "SBytes":
            pytype = bytearray if obj.mutable else bytes
        if pytype is not None and not hasattr(pytype, name):
            it.raise_exc(AttributeError, f"'{pytype.__name__}' object has no attribute '{name}'")
        raise Unsupported(f"method {type(obj).__name__}.{name} (no model)")

    def method(self, cls, name):
        def deco(f):
            self.sym_methods[(cls, name)] = f
            return f

        return deco

    # ----------------------------------------------------------------- context managers
    def context_manager(self, it, mgr, is_async):
        if isinstance(mgr, StubObj):
            return (lambda: mgr.cm_enter(it, is_async)), (lambda exc: mgr.cm_exit(it, exc, is_async))
        if isinstance(mgr, SObj):
            en = "__aenter__" if is_async else "__enter__"
            ex = "__aexit__" if is_async else "__exit__"

            def enter():
                r = it.call(it.getattr_(mgr, en), [], {})
                return self.do_await(it, r, None) if is_async else r

            def exit_(exc):
                a = [None, None, None] if exc is None else [exc.cls, exc, None]
                r = it.call(it.getattr_(mgr, ex), a, {})
                r = self.do_await(it, r, None) if is_async else r
                return it.truth(r) if exc is not None else None

            return enter, exit_
        st = self.lookup_method_stub(type(mgr), "__cm__")
        if st is not None:
            return st(it, mgr, is_async)
        raise Unsupported(f"context manager {type(mgr).__name__}")

    # ----------------------------------------------------------------- generators
    def make_generator(self, it, clo, frame):
        con = self.contracts_by_fn.get(clo.fn) if clo.fn is not None else None
        # eager evaluation: valid when the generator is only iterated (no send)
        collector = []
        self.gen_stack.append(collector)
        try:
            rv = it.run_body(clo.node, frame)
        finally:
            self.gen_stack.pop()
        return EagerGen(collector, rv)

    gen_stack: list = []

    def do_yield(self, it, v, frame):
        if self.gen_stack:
            self.gen_stack[-1].append(v)
            return None
        return self.top_yield(it, v, frame)

    def top_yield(self, it, v, frame):
        ctx = it.ctx
        y = ctx.ghost.get("yielded")
        if isinstance(y, SSeq):
            set_term(y, z3.Concat(y.term, z3.Unit(y.elem.box(v))))
        else:
            ctx.yielded.append(snapshot(v))
        con = it.top_contract
        k = ctx.ghost.get("n_yields", 0)
        ctx.ghost["n_yields"] = k + 1
        recv = getattr(con, "recv", None)
        if recv is None:
            return None
        if isinstance(recv, Sort):
            r = it.fresh(recv, f"recv{k}")
        else:
            if isinstance(recv, staticmethod):
                recv = recv.__func__
            r = recv(it, k)
        ctx.ghost.setdefault("received", []).append(r)
        return r

    def drain_generator(self, it, g):
        raise Unsupported("lazy generator object")

    # ----------------------------------------------------------------- await
    def do_await(self, it, v, node):
        hook = it.await_hook
        if isinstance(v, Coro):
            return v.run()
        if isinstance(v, StubObj) and hasattr(v, "sym_await"):
            if hook:
                hook(it, "before", v)
            r = v.sym_await(it)
            if hook:
                hook(it, "after", v)
            return r
        raise Unsupported(f"await of {type(v).__name__}")

    # ----------------------------------------------------------------- spec functions
    def spec_decl(self, s: SpecFn):
        if s.decl is None:
            s.decl = z3.Function("spec_" + s.name, *[a.z3sort() for a in s.args], s.ret.z3sort())
        self.spec_decls.setdefault(s.decl.name(), s)
        return s.decl

    def apply_spec(self, it, s: SpecFn, args, kwargs):
        if kwargs:
            raise Unsupported("keyword args to spec function")
        if len(args) != len(s.args):
            raise Unsupported(f"spec {s.name}: arity")
        if not has_sym(args) and not any(isinstance(a, (SV,)) for a in args):
            try:
                return s.fn(*args)
            except RecursionError:
                raise
            except Exception:
                pass  # partial spec function outside its domain: keep it symbolic (unspecified value)
        decl = self.spec_decl(s)
        t = decl(*[srt.box(a) for srt, a in zip(s.args, args)])
        return ops.normalize(it, s.ret.unbox(t))

    # ----------------------------------------------------------------- contracts at call sites
    def modular_contract(self, fn, it):
        c = self.modular.get(fn)
        if c is not None and c.target in (getattr(it.top_contract, "inline", None) or ()):
            return None  # this contract wants the callee's body, not its contract
        if c is not None and fn is not self.top_fn:
            return c
        if fn is self.top_fn and it.depth > 0 and c is not None:
            return c
        return None

    def apply_contract(self, it, con, fn, args, kwargs):
        """modular call: check requires, then produce a result satisfying ensures / raises."""
        from .verify import bind_clause_args, eval_clause

        node, *_ = function_ast(fn)
        clo = Closure(node, None, fn.__qualname__, fn=fn)
        frame = Frame(fn.__globals__, name=fn.__qualname__, fn=fn)
        it.bind_args(clo, args, kwargs, frame)
        ns = dict(frame.locals)
        ctx = it.ctx
        # a contract under proof may establish facts (lemma applications, intermediate obligations) right before a call
        # that is used by contract, so that the callee's precondition can be proved
        bhook = (getattr(it.top_contract, "before_calls", None) or {}).get(con.target)
        if bhook is not None and not ctx.pure:
            if isinstance(bhook, staticmethod):
                bhook = bhook.__func__
            bhook(it, ns)
        for k, f in enumerate(con.clause_list("requires")):
            r = eval_clause(it, f, ns)
            from .verify import contract_tag

            ctx.oblige(f"{contract_tag(it.top_contract) if it.top_contract else con.prop}/call-pre({con.target}).{f.__name__}", ops.truth_term(r))
        dec = getattr(con, "decreases", None)
        if fn is self.top_fn:
            # a recursive use of the contract being proved (induction hypothesis of a lemma, or real recursion): sound
            # only on strictly smaller arguments under a well-founded measure
            from .verify import contract_tag

            if dec is None:
                raise Unsupported(f"recursive use of {con.target} by contract needs a `decreases` measure")
            if isinstance(dec, staticmethod):
                dec = dec.__func__
            d_callee = eval_clause(it, dec, ns)
            d_caller = eval_clause(it, dec, dict(it.entry_args))
            ctx.oblige(
                f"{contract_tag(it.top_contract)}/recursion.decreases",
                z3.And(ops.int_term(d_callee) >= 0, ops.int_term(d_callee) < ops.int_term(d_caller)),
            )
        # exceptional outcomes
        outcomes = ["ret"] + [c for c in con.raises]
        if len(outcomes) > 1 and not ctx.pure:
            choice = ctx.choose(list(range(len(outcomes))))
        else:
            choice = 0
        if choice != 0:
            cls = outcomes[choice]
            cond = con.raises[cls]
            exc = it.make_exc(cls)
            if callable(cond):
                ns2 = dict(ns)
                ns2["exc"] = exc
                r = eval_clause(it, cond, ns2)
                ctx.assume(ops.truth_term(r))
            raise RaiseEx(exc)
        selfobj = ns.get("self")
        if isinstance(selfobj, SObj):
            ns["old"] = ObjSnapshot(selfobj)
        ghost_at_call = {k: snapshot(v) for k, v in ctx.ghost.items() if isinstance(k, str) and k.isidentifier()}
        # frame: the callee may change exactly what its contract lists under `modifies`
        for m in getattr(con, "modifies", []) or []:
            if m.startswith("self."):
                fld = m[5:]
                cur = selfobj.fields.get(fld)
                try:
                    selfobj.fields[fld] = it.fresh(sort_of(cur), "m_" + fld)
                except Unsupported:
                    selfobj.fields[fld] = Havocked(f"self.{fld}")
            elif m.startswith("ghost."):
                gk = m[6:]
                cur = ctx.ghost.get(gk)
                if isinstance(cur, (SBytes, SSeq, SArr)):
                    cur.term = ctx.fresh("m_ghost_" + gk, cur.term.sort())
                else:
                    raise Unsupported(f"modifies {m}: unsupported ghost value")
            else:
                raise Unsupported(f"modifies clause {m}")
        # state changes the contract describes operationally (e.g. "the held transport is closed and forgotten")
        eff = getattr(con, "effects", None)
        if eff is not None:
            if isinstance(eff, staticmethod):
                eff = eff.__func__
            eff(it, ns)
        ret = getattr(con, "returns", None)
        if ret is None:
            result = None
        elif isinstance(ret, Sort):
            result = it.fresh(ret, "ret_" + fn.__name__)
        else:
            if isinstance(ret, staticmethod):
                ret = ret.__func__
            result = ret(it, ns)
        ns2 = dict(ns)
        ns2["result"] = result
        if getattr(con, "yielded_sort", None) is not None:
            ns2["yielded"] = result  # a generator used by contract: what it yields, as a list
        for k in list(ns):
            ns2[k + "__post"] = ns[k]
        for gk, gv in ctx.ghost.items():
            if isinstance(gk, str) and gk.isidentifier() and gk not in ns2:
                ns2[gk] = gv
        for gk, gv in ghost_at_call.items():
            ns2.setdefault(gk + "__old", gv)
        ns2.setdefault("trace", [])
        # normal return excludes the `iff`-style exceptional conditions
        for cls, cond in con.raises.items():
            if getattr(con, "raises_exact", False) and callable(cond):
                r = eval_clause(it, cond, dict(ns))
                ctx.assume(ops.t_not(ops.truth_term(r)))
        for f in con.clause_list("ensures"):
            r = eval_clause(it, f, ns2)
            ctx.assume(ops.truth_term(r))
        ctx.trace.append(("call", con.target, {k: snapshot(v) for k, v in ns.items()}, result))
        # a contract under proof may refine what a callee's contract returned into a more concrete but provably equal
        # value (e.g. a list literal for a list known only through a specification function): the hook states the
        # equalities as obligations of the contract under proof
        hook = (getattr(it.top_contract, "after_calls", None) or {}).get(con.target)
        if hook is not None and not ctx.pure:
            if isinstance(hook, staticmethod):
                hook = hook.__func__
            result = hook(it, result, ns)
        import inspect as _inspect

        if _inspect.iscoroutinefunction(fn):
            return Coro(lambda: result, fn.__qualname__)
        return result

    # ----------------------------------------------------------------- loops
    def loop_invariant(self, it, frame, node):
        fn = frame.fn
        if fn is None:
            return None
        con = self.contracts_by_fn.get(fn)
        if con is None or not con.loops:
            return None
        if fn is not self.top_fn and con.target in (getattr(it.top_contract, "inline", None) or ()):
            return None  # inlined callee: its loops are unrolled
        fnode, *_ = function_ast(fn)
        ls = loops_in_order(fnode)
        for k, l in enumerate(ls):
            if l.lineno == node.lineno and l.col_offset == node.col_offset:
                return (con, k, con.loops.get(k)) if k in con.loops else None
        return None

    def run_loop_with_invariant(self, it, frame, node, invinfo, iterable):
        from .verify import eval_clause

        con, ordinal, inv = invinfo
        ctx = it.ctx
        is_for = isinstance(node, ast.For)
        from .verify import contract_tag

        tag = f"{contract_tag(con)}/loop{ordinal}"
        selfname = None
        fnode, *_ = function_ast(frame.fn)
        if fnode.args.args and fnode.args.args[0].arg in ("self",):
            selfname = fnode.args.args[0].arg
        ms = analyse_mods(node.body + node.orelse + ([node.test] if not is_for else []), selfname or "self")
        selfobj = frame.locals.get(selfname) if selfname else None
        entry = {k: snapshot(v) for k, v in frame.locals.items()}
        entry_fields = {k: snapshot(v) for k, v in selfobj.fields.items()} if isinstance(selfobj, SObj) else {}
        idx_name = inv.index
        # abstract declared vars first (e.g. a Python list that becomes a symbolic sequence)
        for name, srt in inv.vars.items():
            cur = frame.locals.get(name)
            if cur is not None and not isinstance(cur, SV):
                frame.locals[name] = ops.normalize(it, srt.unbox(srt.box(cur))) if not isinstance(srt, ListOf) else SSeq(
                    srt.box(cur), srt.elem, srt.mutable
                )
        seqv = None
        if is_for:
            seqv = self.for_sequence(it, iterable)
            frame.locals["__seq%d" % ordinal] = seqv
            ctx.ghost[idx_name] = seqv.g_init()

        def ns_now():
            ns = dict(frame.locals)
            for k, v in entry.items():
                ns[k + "__entry"] = v
            for k, v in it.entry_args.items():
                ns[k + "__old"] = v
            if isinstance(selfobj, SObj):
                ns["entry"] = _DictObj(entry_fields)
            if is_for:
                ns[idx_name] = ctx.ghost[idx_name]
                ns["seq"] = seqv.v if isinstance(seqv, SeqView) else seqv
            y = ctx.ghost.get("yielded")
            ns["yielded"] = y if y is not None else ctx.yielded
            for gk, gv in ctx.ghost.items():
                if isinstance(gk, str) and gk not in ns and gk.isidentifier():
                    ns[gk] = gv
            for gk, gv in getattr(it, "ghost_old", {}).items():
                ns.setdefault(gk + "__old", gv)
            ns["trace"] = ctx.trace
            ns["ghost"] = ctx.ghost
            if getattr(it, "old_self", None) is not None:
                ns["old"] = it.old_self
            return ns

        # 1. invariant holds on entry
        for f in inv.inv:
            r = eval_clause(it, f, ns_now())
            ctx.oblige(f"{tag}.{f.__name__}.init", ops.truth_term(r))
        # 2. havoc
        if inv.modifies is not None:
            names = set(inv.modifies)
        else:
            names = set(ms.names) | set(ms.mutated)
        if is_for:
            for t in ast.walk(node.target):
                if isinstance(t, ast.Name):
                    names.discard(t.id)
        for name in sorted(names):
            if name not in frame.locals:
                continue  # first assigned inside the loop
            cur = frame.locals[name]
            srt = inv.vars.get(name)
            if srt is not None and not isinstance(srt, Sort):
                frame.locals[name] = srt(it)
                continue
            if srt is None:
                if isinstance(cur, (list, dict, set)) or isinstance(cur, (SObj, StubObj, SymRecDict)):
                    if name in ms.names and name not in ms.mutated:
                        raise Unsupported(f"loop {ordinal}: cannot havoc {name} ({type(cur).__name__}); declare its sort in LoopInv.vars")
                    raise Unsupported(f"loop {ordinal}: {name} ({type(cur).__name__}) is mutated in the loop; declare its sort")
                if cur is None or isinstance(cur, (Closure, BoundMethod, type, types.FunctionType)):
                    raise Unsupported(f"loop {ordinal}: cannot havoc {name}={cur!r}; declare its sort")
                srt = sort_of(cur)
            new = it.fresh(srt, f"h_{name}")
            if isinstance(cur, (SBytes, SSeq)) and cur.mutable and name in ms.mutated and name not in ms.names:
                cur.term = new.term  # in-place mutation keeps aliases
            else:
                frame.locals[name] = new
        if isinstance(selfobj, SObj):
            fields = set(ms.self_fields)
            fields |= self.transitive_self_fields(it, selfobj, ms.calls_self_methods)
            for fld in sorted(fields):
                if fld not in selfobj.fields:
                    continue
                cur = selfobj.fields[fld]
                srt = inv.vars.get("self." + fld)
                if srt is not None and not isinstance(srt, Sort):
                    selfobj.fields[fld] = srt(it)
                    continue
                if srt is None:
                    if isinstance(cur, (list, dict, set, SObj, StubObj, SymRecDict)) or cur is None:
                        if fld not in ms.self_fields:
                            # only changed inside a callee used by contract: unknown afterwards
                            selfobj.fields[fld] = Havocked(f"self.{fld}")
                            continue
                        raise Unsupported(f"loop {ordinal}: cannot havoc self.{fld} ({type(cur).__name__}); declare sort 'self.{fld}'")
                    srt = sort_of(cur)
                new = it.fresh(srt, f"h_self_{fld}")
                if isinstance(cur, (SBytes, SSeq)) and cur.mutable:
                    cur.term = new.term
                else:
                    selfobj.fields[fld] = new
        ghost_havoc = [k[6:] for k in inv.vars if k.startswith("ghost.")]
        for gk in ghost_havoc:
            cur = ctx.ghost.get(gk)
            if isinstance(cur, (SBytes, SSeq, SArr)):
                cur.term = ctx.fresh("h_ghost_" + gk, cur.term.sort())
            elif cur is not None:
                ctx.ghost[gk] = it.fresh(inv.vars["ghost." + gk] or sort_of(cur), "h_ghost_" + gk)
        ghost_head = {k: (v.term if isinstance(v, (SBytes, SSeq, SArr)) else v) for k, v in ctx.ghost.items() if isinstance(k, str)}
        if ms.has_yield:
            y = ctx.ghost.get("yielded")
            if not isinstance(y, SSeq):
                raise Unsupported("yield inside a loop with invariant needs Contract.yielded_sort")
            y.term = ctx.fresh("h_yielded", y.term.sort())
        if is_for and hasattr(seqv, "g_pick"):
            ctx.ghost[idx_name] = seqv.g_pick(it)
        elif is_for:
            i = ctx.fresh("h_" + idx_name, z3.IntSort())
            for c in seqv.g_constraints(i):
                ctx.assume(c)
            ctx.ghost[idx_name] = ops.mk_int(i)
        # 3. assume invariant
        # (what is known from here on usually suffices for the obligations of the arbitrary iteration: the discharger
        # first tries them from this suffix of the path condition alone - proving from fewer hypotheses is sound)
        prev_mark = getattr(ctx, "pc_mark", None)
        ctx.pc_mark = len(ctx.pc)
        for f in inv.inv:
            r = eval_clause(it, f, ns_now())
            ctx.assume(ops.truth_term(r))
        head_locals = dict(frame.locals)
        head_fields = dict(selfobj.fields) if isinstance(selfobj, SObj) else {}
        # (for `head.<field>` in step / hint clauses: mutable sequences as they ARE at the loop head, not the object that
        # the iteration goes on to mutate in place)
        head_snap = {k: snapshot(v) for k, v in selfobj.fields.items()} if isinstance(selfobj, SObj) else {}
        head_terms = {k: (v.term if isinstance(v, (SBytes, SSeq)) else None) for k, v in frame.locals.items()}
        var0 = None
        if inv.decreases is not None:
            var0 = eval_clause(it, inv.decreases, ns_now())
        # 4. one arbitrary iteration, or exit
        if is_for:
            iv = ctx.ghost[idx_name]
            cont = ctx.branch(seqv.g_has_next(ops.int_term(iv)))
            if cont:
                item = seqv.g_item(it, iv)
                it.assign(node.target, item, frame)
        else:
            cont = it.truth(it.eval(node.test, frame))
        lkey = (con.target, con.__name__, ordinal)
        if not cont:
            ctx.pc_mark = prev_mark
            kinds = self.loop_effects.get(lkey)
            if kinds:
                # effects of the (cut) iterations are not in the trace of this exit path
                ctx.trace.append(("loop-havoc", ordinal, tuple(sorted(kinds))))
            it.exec_block(node.orelse, frame)
            return
        n_trace = len(ctx.trace)

        def note_effects():
            kinds = {str(e[0]) for e in ctx.trace[n_trace:]}
            if kinds:
                self.loop_effects.setdefault(lkey, set()).update(kinds)

        try:
            it.exec_block(node.body, frame)
        except BreakEx:
            note_effects()
            ctx.pc_mark = prev_mark
            return
        except ContinueEx:
            pass
        except (RaiseEx, ReturnEx):
            note_effects()
            raise
        note_effects()
        # back edge
        if is_for:
            ctx.ghost[idx_name] = ops.mk_int(seqv.g_advance(ops.int_term(ctx.ghost[idx_name])))
        # havoc completeness: nothing outside the havoc set may have changed
        for k, v in frame.locals.items():
            if k in names or k.startswith("__seq"):
                continue
            if is_for and any(isinstance(t, ast.Name) and t.id == k for t in ast.walk(node.target)):
                continue
            if k in head_locals:
                hv = head_locals[k]
                changed = not (hv is v) or (head_terms.get(k) is not None and not head_terms[k].eq(v.term))
                if changed and not same_value(hv, v):
                    raise Unsupported(f"loop {ordinal}: local {k} changed but is not in the havoc set")
        if isinstance(selfobj, SObj):
            for k, v in selfobj.fields.items():
                if k in fields:
                    continue
                if isinstance(head_fields.get(k), LazyValue) and head_fields[k].value is v:
                    continue  # a lazily decided field was read: decided, not changed
                if k in head_fields and head_fields[k] is not v and not same_value(head_fields[k], v):
                    raise Unsupported(f"loop {ordinal}: self.{k} changed but is not in the havoc set")
        for gk, gv in ctx.ghost.items():
            if not isinstance(gk, str) or gk in ghost_havoc or gk in ("yielded", "n_yields", "trace", idx_name) or gk in {l.index for l in con.loops.values()}:
                continue
            hv = ghost_head.get(gk)
            cur = gv.term if isinstance(gv, (SBytes, SSeq, SArr)) else gv
            if isinstance(gv, (SBytes, SSeq, SArr)):
                if hv is None or not hv.eq(cur):
                    raise Unsupported(f"loop {ordinal}: ghost {gk} changed but is not declared (vars['ghost.{gk}'])")
            elif isinstance(gv, SV) or isinstance(hv, SV):
                if not same_value(hv, gv):
                    raise Unsupported(f"loop {ordinal}: ghost {gk} changed but is not declared (vars['ghost.{gk}'])")
        if getattr(inv, "hints", None):
            ns = ns_now()
            ns["iter_trace"] = list(ctx.trace[n_trace:])
            for k, v in head_locals.items():
                ns[k + "__head"] = v
            if isinstance(selfobj, SObj):
                ns["head"] = _DictObj(head_snap)
            for f in inv.hints:
                r = eval_clause(it, f, ns)
                ctx.oblige(f"{tag}.hint.{f.__name__}", ops.truth_term(r))
        for f in inv.inv:
            r = eval_clause(it, f, ns_now())
            ctx.oblige(f"{tag}.{f.__name__}.preserved", ops.truth_term(r))
        # per-iteration ("step") clauses: what ONE arbitrary iteration did, over the events it produced
        if inv.step:
            ns = ns_now()
            ns["iter_trace"] = list(ctx.trace[n_trace:])
            for k, v in head_locals.items():
                ns[k + "__head"] = v
            if isinstance(selfobj, SObj):
                ns["head"] = _DictObj(head_snap)
            for f in inv.step:
                r = eval_clause(it, f, ns)
                ctx.oblige(f"{tag}.step.{f.__name__}", ops.truth_term(r), assume_after=False)
        if inv.decreases is not None:
            var1 = eval_clause(it, inv.decreases, ns_now())
            ctx.oblige(f"{tag}.decreases", z3.And(ops.int_term(var1) < ops.int_term(var0), ops.int_term(var0) >= 0))
        raise PathEnd()

    def transitive_self_fields(self, it, selfobj, method_names, seen=None):
        seen = seen if seen is not None else set()
        out = set()
        for m in method_names:
            if m in seen:
                continue
            seen.add(m)
            name = m.split(".", 1)[1] if m.startswith("super.") else m
            if not m.startswith("super.") and name in selfobj.fields:
                continue  # shadowed by a contract-level stub: its frame is what the stub does (declared in vars)
            a = it.class_lookup(selfobj.cls, name)
            if m.startswith("super."):
                # any class in the MRO may define it; take all definitions
                cands = [c.__dict__[name] for c in selfobj.cls.__mro__ if name in c.__dict__]
            else:
                cands = [a] if a is not None else []
            for a in cands:
                mc = self.modular.get(a) if isinstance(a, types.FunctionType) else None
                if mc is not None:
                    # a callee used by contract: its frame is what the contract lists
                    out |= {m[5:] for m in (getattr(mc, "modifies", []) or []) if m.startswith("self.")}
                    continue
                if isinstance(a, types.FunctionType) and is_repo_function(a):
                    n, *_ = function_ast(a)
                    sn = n.args.args[0].arg if n.args.args else "self"
                    ms = analyse_mods(n.body, sn)
                    out |= ms.self_fields
                    out |= self.transitive_self_fields(it, selfobj, ms.calls_self_methods, seen)
        return out

    def for_sequence(self, it, iterable):
        if isinstance(iterable, (SBytes, SSeq, SStr)):
            return SeqView(snapshot(iterable))
        if isinstance(iterable, (bytes, bytearray)):
            return SeqView(SBytes(ops.bytes_term(iterable), False))
        if isinstance(iterable, StubObj) and hasattr(iterable, "g_init"):
            return iterable
        if isinstance(iterable, (list, tuple)):
            return ConcreteView(iterable)
        raise Unsupported(f"for-loop with invariant over {type(iterable).__name__}")


class Havocked(StubObj):
    """placeholder for a value the contract says nothing about: any use makes the function undecided"""

    def __init__(self, what):
        self.what = what

    def sym_getattr(self, it, name):
        raise Unsupported(f"use of {self.what}, which a callee's contract leaves unspecified")


class ConcreteView(StubObj):
    """iteration protocol of a for-loop with invariant over a CONCRETE list: the arbitrary iteration is at a
    position chosen among all positions (a fork per position), the ghost index is a plain int"""

    def __init__(self, items):
        self.items = list(items)
        self.v = self.items

    def g_init(self):
        return 0

    def g_pick(self, it):
        return it.ctx.choose(list(range(len(self.items) + 1)))

    def g_constraints(self, g):
        return []

    def g_has_next(self, g):
        return z3.BoolVal(z3.simplify(g).as_long() < len(self.items))

    def g_item(self, it, g):
        return self.items[g if isinstance(g, int) else z3.simplify(ops.int_term(g)).as_long()]

    def g_advance(self, g):
        return z3.simplify(g + 1)


class SeqView(StubObj):
    """iteration protocol of a for-loop with invariant over a sequence: ghost = index"""

    def __init__(self, v):
        self.v = v

    def g_init(self):
        return 0

    def g_constraints(self, g):
        return [g >= 0, g <= z3.Length(self.v.term)]

    def g_has_next(self, g):
        return g < z3.Length(self.v.term)

    def g_item(self, it, g):
        return ops.index(it, self.v, g)

    def g_advance(self, g):
        return g + 1


class _DictObj(StubObj):
    def __init__(self, d):
        self.d = d

    def sym_getattr(self, it, name):
        if name in self.d:
            return self.d[name]
        raise Unsupported(f"no entry value for field {name}")
