"""./check <property> --tier quick|thorough : generate obligations from /repo's working tree,
discharge them, compare with the ledger, replay refutations, write evidence."""
from __future__ import annotations

import argparse
import glob
import hashlib
import importlib
import json
import os
import sys
import time
import traceback
from concurrent.futures import ThreadPoolExecutor

ROOT = os.path.dirname(os.path.dirname(os.path.abspath(__file__)))
sys.path.insert(0, ROOT)
os.environ.setdefault("PYTHONDONTWRITEBYTECODE", "1")
sys.dont_write_bytecode = True

import logging  # noqa: E402

logging.disable(logging.CRITICAL)  # the repository's own log output is not part of a check's output

import z3  # noqa: E402

from pyvc import api, stubs_builtin  # noqa: E402
from pyvc.env import Env  # noqa: E402
from pyvc.verify import explore, obligation_smt2  # noqa: E402
from pyvc.discharge import solve_text  # noqa: E402
from pyvc import replay as replay_mod  # noqa: E402

LAST_BUDGET = 150
QUICK_BUDGET = 20
THOROUGH_BUDGET = 90


def load_known():
    p = os.path.join(ROOT, "KNOWN_FINDINGS.json")
    if not os.path.exists(p):
        return {"open": [], "fixed": []}
    return json.load(open(p))


def load_ledger(prop):
    p = os.path.join(ROOT, "ledger", f"{prop}.json")
    if not os.path.exists(p):
        return None
    return json.load(open(p))


def make_env():
    env = Env()
    stubs_builtin.install(env)
    for name in sorted(glob.glob(os.path.join(ROOT, "pyvc", "stubs_*.py"))):
        mod = os.path.basename(name)[:-3]
        if mod == "stubs_builtin":
            continue
        m = importlib.import_module("pyvc." + mod)
        m.install(env)
    return env


def main(argv=None):
    ap = argparse.ArgumentParser()
    ap.add_argument("prop")
    ap.add_argument("--tier", default=os.environ.get("VERIF_TIER", "quick"))
    ap.add_argument("--record-ledger", action="store_true")
    ap.add_argument("--only", default=None, help="substring filter on contract target (debug)")
    ap.add_argument("--replay", default=None)
    ap.add_argument("-v", action="store_true")
    args = ap.parse_args(argv)
    prop = args.prop
    tier = "thorough" if args.tier == "thorough" else "quick"
    os.environ["PYVC_TIER"] = tier  # (contracts may enumerate more shapes in the thorough tier)
    seed = int(os.environ.get("VERIF_SEED", "0") or 0)
    if args.replay:
        return replay_mod.replay_file(args.replay)
    t_start = time.time()
    # scratch SMT files of earlier runs (kept only for refuted / undischarged obligations) are removed after an hour
    try:
        from pyvc.discharge import WORKDIR

        for fn_ in os.listdir(WORKDIR):
            fp_ = os.path.join(WORKDIR, fn_)
            if os.path.isfile(fp_) and t_start - os.path.getmtime(fp_) > 3600:
                os.unlink(fp_)
    except OSError:
        pass
    budget = THOROUGH_BUDGET if tier == "thorough" else QUICK_BUDGET
    env = make_env()
    mods = sorted(glob.glob(os.path.join(ROOT, "contracts", f"{prop.lower()}_*.py")))
    if not mods:
        print(f"no contracts for {prop}")
        return 3
    for m in mods:
        importlib.import_module("contracts." + os.path.basename(m)[:-3])
    for m in list(sys.modules.values()):
        if getattr(m, "__name__", "").startswith("contracts.") and hasattr(m, "configure"):
            m.configure(env)  # (e.g. the property that VERIFIES a function removes the model other properties use for it)
    for s in api.SPECS.values():
        env.spec_decl(s)
    # symbolic-only helper names used by contracts (e.g. the SRP model symbols)
    for m in list(sys.modules.values()):
        if getattr(m, "__name__", "").startswith("contracts."):
            for nm, impl in getattr(env, "srp_symbols", {}).items():
                f = getattr(m, nm, None)
                if f is not None:
                    env.stub(f, impl)
            f = getattr(m, "half_up_int", None)
            if f is not None and getattr(f, "__module__", "").startswith("contracts.") and hasattr(env, "half_up_int"):
                env.stub(f, env.half_up_int)
            f = getattr(m, "itoa", None)
            if f is not None and getattr(f, "__module__", "").startswith("contracts."):
                env.stub(f, lambda it, n: env.int_to_str(it, n) if not isinstance(n, int) else str(n))
    contracts = [c for c in api.CONTRACTS if c.prop == prop and (not args.only or args.only in c.target) and not getattr(c, "assumed", False)]
    for c in api.CONTRACTS:
        if c.prop == prop and getattr(c, "assumed", False):
            env.assumptions_used.add(f"assumed contract at call sites (not verified here): {c.target} - {(c.__doc__ or '').strip().splitlines()[0] if c.__doc__ else ''}")
    for c in api.CONTRACTS:
        if getattr(c, "modular", False):
            from pyvc.verify import resolve_target

            try:
                fn, _ = resolve_target(c.target)
                env.modular[fn] = c
                env.contracts_by_fn.setdefault(fn, c)
            except Exception:
                pass
    reports = []
    obligations = []  # (report, ob)
    for con in contracts:
        rep = explore(env, con)
        reports.append(rep)
        seen = set()
        for ob in rep.obligations:
            key = (ob.clause, ob.path, ob.goal.get_id() if hasattr(ob.goal, "get_id") else 0)
            if key in seen:
                continue
            seen.add(key)
            obligations.append((rep, ob))
        if args.v:
            print(f"explored {con.target}: paths={rep.paths} obligations={len(seen)} undecided={rep.undecided} ({rep.explore_s:.1f}s)")
    # reachability guards: every cover clause of a contract must be reachable on some explored path
    uncovered = []
    cover_report = []
    for rep in reports:
        for f in rep.con.clause_list("covers"):
            cands = rep.covers.get(f.__name__, [])
            ok = any(z3.is_true(t) for _, t in cands)
            how = "literally true on a path" if ok else None
            if not ok:
                for pc, t in cands[:6]:
                    sv = z3.Solver()
                    sv.set("timeout", 8000)
                    sv.add(*pc)
                    sv.add(t)
                    if sv.check() == z3.sat:
                        ok, how = True, "satisfiable with a path condition (z3)"
                        break
            cover_report.append({"function": rep.target, "contract": rep.con.__name__, "cover": f.__name__, "reached": ok, "how": how})
            if not ok and not rep.undecided:
                uncovered.append(f"{rep.target}#{rep.con.__name__}/covers.{f.__name__}")
    # drop trivially true goals (counted as discharged by simplification)
    jobs = []
    results = {}
    for idx, (rep, ob) in enumerate(obligations):
        if z3.is_true(ob.goal):
            results[idx] = ("discharged", "simplify", 0.0, "", None)
            continue
        jobs.append((idx, None))  # (the SMT-LIB text is generated by the worker, and only as far as needed)

    import threading

    lock = threading.Lock()

    known_clauses = {f["clause"] for f in load_known().get("open", []) if f["property"] == prop}
    slice_stats = {}
    _led = load_ledger(prop)
    ledger_clauses = set((_led or {}).get("clauses", {}))

    def work(job):
        idx, text = job
        rep, ob = obligations[idx]
        # proving from the hypotheses since the loop head alone: only where it pays (per clause: given up after six
        # failures without a success)
        st_ = slice_stats.setdefault(ob.clause, [0, 0])
        if ob.meta.get("pc_mark") is not None and ob.clause not in known_clauses and not (st_[0] == 0 and st_[1] >= 6):
            try:
                with lock:
                    stext = obligation_smt2(env, ob, sliced=True)
                rs = solve_text(stext, ob.clause + ".slice", min(budget, 10))
                st_[0 if rs.status == "discharged" else 1] += 1
                if rs.status == "discharged":
                    return idx, (rs.status, rs.backend, rs.time, rs.detail, rs.file)
                if rs.file:
                    try:
                        os.unlink(rs.file)
                    except OSError:
                        pass
            except Exception:
                pass
        try:
            with lock:
                text = obligation_smt2(env, ob)
        except Exception as e:  # generation failure -> undecided
            return idx, ("unknown", "none", 0.0, f"smt generation failed: {e!r}", None)
        if ob.clause in known_clauses:
            # a recorded open finding: one short attempt, no retries (it is expected not to discharge)
            r = solve_text(text, ob.clause, min(budget, 6))
            return idx, (r.status, r.backend, r.time, r.detail, r.file)
        if len(text) > 60000:
            try:
                with lock:
                    stext = obligation_smt2(env, ob, sliced="direct")
                rs = solve_text(stext, ob.clause + ".direct", min(budget, 10))
                if rs.status == "discharged":
                    return idx, (rs.status, rs.backend, rs.time, rs.detail, rs.file)
                if rs.file:
                    try:
                        os.unlink(rs.file)
                    except OSError:
                        pass
            except Exception:
                pass
        r = solve_text(text, ob.clause, budget, both=(tier == "thorough"))
        if r.status in ("unknown", "refuted"):
            # `sat` with partially unfolded spec functions is not a counterexample: unfold further and
            # give more time before calling anything undischarged
            for extra in (1, 2):
                try:
                    with lock:
                        text2 = obligation_smt2(env, ob, extra_fuel=extra)
                except Exception:
                    break
                if text2 == text and r.status == "refuted":
                    break
                r2 = solve_text(text2, ob.clause, budget * (2 if extra == 1 else 3))
                if args.v:
                    print(f"   retry fuel+{extra}: {ob.clause} first={r.status} after {r.time:.1f}s -> {r2.status} {r2.time:.1f}s")
                if r2.status == "discharged":
                    r = r2
                    break
                if r2.status == "conflict":
                    r = r2
                    break
                text = text2
        if r.status == "unknown" and ob.clause in ledger_clauses:
            # this clause was discharged on the tree the ledger was recorded on: before it is reported as no longer
            # provable, one last attempt with a long budget on the sliced and the full text (verdicts must not flip
            # because the machine is busy)
            for sl in ([True] if ob.meta.get("pc_mark") is not None else []) + [False]:
                try:
                    with lock:
                        t3 = obligation_smt2(env, ob, sliced=sl, extra_fuel=1)
                    r3 = solve_text(t3, ob.clause + ".last", LAST_BUDGET)
                    if args.v:
                        print(f"   last attempt ({'slice' if sl else 'full'}): {ob.clause} -> {r3.status} {r3.time:.1f}s")
                    if r3.status == "discharged":
                        r = r3
                        break
                except Exception:
                    pass
        return idx, (r.status, r.backend, r.time, r.detail, r.file)

    # z3's Python objects are not thread-safe: every use of the z3 API by a worker happens under `lock`, and the cyclic
    # garbage collector (which could free z3 objects from whichever thread happens to allocate) is off while the workers
    # run - two runs hung at 100 % CPU with no solver process before this was done
    import gc

    progress = {"t": time.time(), "done": False}

    def watchdog():
        # a hang must not look like a pass or a violation: no finished obligation for 15 minutes -> exit 3
        while not progress["done"]:
            time.sleep(10)
            if time.time() - progress["t"] > 900:
                print(f"CHECKER-ERROR no obligation finished for 15 minutes while discharging {prop}: giving up (exit 3)", flush=True)
                os._exit(3)

    threading.Thread(target=watchdog, daemon=True).start()
    gc.collect()
    gc.disable()
    try:
        with ThreadPoolExecutor(max_workers=int(os.environ.get("PYVC_WORKERS", "12"))) as ex:
            for idx, res in ex.map(work, jobs):
                results[idx] = res
                progress["t"] = time.time()
    finally:
        gc.enable()
        progress["done"] = True
    solver_time = sum(r[2] for r in results.values())

    # ---------------------------------------------------------------- verdicts
    known = load_known()
    open_findings = [f for f in known.get("open", []) if f["property"] == prop]
    ledger = load_ledger(prop)
    by_clause = {}
    for idx, (rep, ob) in enumerate(obligations):
        st = results[idx]
        d = by_clause.setdefault(ob.clause, {"n": 0, "discharged": 0, "refuted": [], "unknown": [], "backends": {}, "time": 0.0})
        d["n"] += 1
        d["time"] += st[2]
        if st[0] == "discharged":
            d["discharged"] += 1
            d["backends"][st[1]] = d["backends"].get(st[1], 0) + 1
        elif st[0] == "refuted":
            d["refuted"].append(idx)
        elif st[0] == "conflict":
            print(f"CHECKER-ERROR solver disagreement on {ob.clause}: {st[3][:300]}")
            return 3
        else:
            d["unknown"].append(idx)

    violations = []
    known_hits = []
    undecided = []
    replay_dir = os.path.join(ROOT, "replays", prop)
    os.makedirs(replay_dir, exist_ok=True)
    for clause, d in sorted(by_clause.items()):
        bad = d["refuted"] + d["unknown"]
        if not bad:
            continue
        finding = next((f for f in open_findings if f["clause"] == clause), None)
        in_ledger = bool(ledger and clause in ledger.get("clauses", {}))
        rep, ob = obligations[bad[0]]
        st = results[bad[0]]
        # try to obtain a concrete failing input on the real code
        witness = None
        try:
            witness = replay_mod.find_witness(env, rep.con, [obligations[i][1] for i in bad], budget)
        except Exception as e:
            witness = {"error": f"replay machinery failed: {e!r}", "trace": traceback.format_exc()[-1500:]}
        confirmed = bool(witness and witness.get("confirmed"))
        if finding is not None:
            # a known finding suppresses only the failing exits (path classes) it lists: a failing instance at
            # another exit of the function, or more failing instances than recorded, is a different violation
            exits = sorted({obligations[i][1].meta.get("exit") for i in bad}, key=lambda x: (x is None, x))
            allowed = finding.get("exits")
            extra = [e for e in exits if allowed is not None and e not in allowed]
            # exit points are also identified by the text of their source line, which survives edits elsewhere in the
            # function (line offsets do not): a failing exit whose text is listed is the known one
            srcs = finding.get("exit_srcs")
            if srcs is not None:
                extra = sorted({str(obligations[i][1].meta.get("exit_src")) for i in bad if obligations[i][1].meta.get("exit_src") not in srcs})
            too_many = finding.get("max_instances") is not None and len(bad) > finding["max_instances"]
            if not extra and not too_many:
                known_hits.append((finding, witness))
                continue
            witness = dict(witness or {})
            witness["beyond_known_finding"] = {"failing_exits": exits, "known_exits": allowed, "failing_instances": len(bad), "known_max": finding.get("max_instances")}
        if d["refuted"] or in_ledger or confirmed:
            path = os.path.join(replay_dir, hashlib.sha1(clause.encode()).hexdigest()[:12] + ".json")
            json.dump(
                {
                    "property": prop,
                    "obligation": clause,
                    "status": "refuted" if d["refuted"] else "no-longer-provable",
                    "function": rep.target,
                    "solver_output": st[3][:4000],
                    "smt_file": st[4],
                    "witness": witness,
                    "meta": ob.meta,
                    "failing_exits": sorted({obligations[i][1].meta.get("exit") for i in bad}, key=lambda x: (x is None, x)),
                    "failing_instances": len(bad),
                },
                open(path, "w"),
                indent=1,
                default=str,
            )
            violations.append((clause, path, confirmed))
        else:
            undecided.append((clause, st[3][:200]))

    for rep in reports:
        if rep.undecided:
            undecided.append((rep.target, rep.undecided))

    # bounded stand-ins declared by contracts (never counted as proved)
    standins = []
    for con in contracts:
        bs = getattr(con, "bounded", None) or getattr(con, "bounded_run", None)
        if bs is not None:
            try:
                r = replay_mod.run_bounded(env, con, tier, seed)
            except Exception as e:
                r = {"function": con.target, "error": repr(e), "cases": 0, "failures": []}
            standins.append(r)
            done_clauses = set()
            for fl in r.get("failures", []):
                if fl["clause"] in done_clauses:
                    continue
                done_clauses.add(fl["clause"])
                finding = next((f for f in open_findings if f["clause"] == fl["clause"]), None)
                if finding is not None:
                    known_hits.append((finding, fl))
                    continue
                path = os.path.join(replay_dir, hashlib.sha1(fl["clause"].encode()).hexdigest()[:12] + ".json")
                json.dump({"property": prop, "obligation": fl["clause"], "status": "bounded-check-failed", "witness": fl}, open(path, "w"), indent=1, default=str)
                violations.append((fl["clause"], path, True))

    known_clause_hits = {f["clause"] for f, _ in known_hits}
    n_known = sum(by_clause[c]["n"] - by_clause[c]["discharged"] for c in known_clause_hits if c in by_clause)
    # obligations of recorded open findings are reported separately (they are expected not to discharge)
    n_obl = len(obligations) - n_known
    n_dis = sum(1 for r in results.values() if r[0] == "discharged")
    backends = {}
    for r in results.values():
        if r[0] == "discharged":
            backends[r[1]] = backends.get(r[1], 0) + 1

    # ledger
    if args.record_ledger:
        os.makedirs(os.path.join(ROOT, "ledger"), exist_ok=True)
        led = {"property": prop, "clauses": {}}
        for clause, d in sorted(by_clause.items()):
            if d["discharged"] == d["n"]:
                led["clauses"][clause] = {"instances": d["n"], "kind": "proof", "max_time_s": round(d["time"], 2)}
        json.dump(led, open(os.path.join(ROOT, "ledger", f"{prop}.json"), "w"), indent=1, sort_keys=True)
    gone = []
    if ledger:
        for clause in ledger.get("clauses", {}):
            if clause not in by_clause:
                gone.append(clause)
    # a function in the ledger that generates nothing at all is undecided (never silently passing)
    zero = [rep.target for rep in reports if not rep.obligations and not rep.undecided]

    samples = []
    for idx, (rep, ob) in list(enumerate(obligations))[:: max(1, len(obligations) // 6)][:6]:
        samples.append({"obligation": ob.clause, "path": [str(x) for x in ob.path][:12], "goal": str(ob.goal)[:300], "status": results[idx][0], "backend": results[idx][1], "time_s": round(results[idx][2], 3)})

    assumptions = sorted(env.assumptions_used)
    trusted = []
    for con in contracts:
        for t in getattr(con, "trusted", []) or []:
            if t not in trusted:
                trusted.append(t)
    wall = time.time() - t_start
    ev = {
        "property_id": prop,
        "tier": tier,
        "seed": seed,
        "level": "proof",
        "coverage": {
            "obligations": n_obl,
            "discharged": n_dis,
            "checker_cmd": f"./check {prop} --tier {tier}",
            "trusted_base": trusted,
            "samples": samples,
            "by_backend": backends,
            "solver_time_s": round(solver_time, 2),
            "functions_under_contract": [
                {"target": r.target, "file": r.file, "lines": r.lines, "sha256": r.sha256, "paths": r.paths, "exits": r.exits, "undecided": r.undecided}
                for r in reports
            ],
            "clauses": {c: {"instances": d["n"], "discharged": d["discharged"]} for c, d in sorted(by_clause.items())},
            "bounded_standins": standins,
            "covers": cover_report,
            "undecided": [{"what": a, "why": b} for a, b in undecided],
            "gone_since_ledger": gone,
            "known_findings": sorted({f["clause"] for f, _ in known_hits}),
            "known_finding_obligations_not_counted": n_known,
        },
        "assumptions": assumptions + [f"trusted: {t}" for t in trusted],
        "wall_s": round(wall, 2),
        "violations": len(violations),
    }
    os.makedirs(os.path.join(ROOT, "evidence"), exist_ok=True)
    json.dump(ev, open(os.path.join(ROOT, "evidence", f"{prop}.json"), "w"), indent=1, default=str)

    if args.v:
        slow = sorted(((results[i][2], obligations[i][1].clause, results[i][1]) for i in results), reverse=True)[:8]
        for t, c, b in slow:
            print(f"   slowest: {t:6.2f}s {b:8s} {c}")
    print(f"{prop} [{tier}]: {len(reports)} functions under contract, {n_obl} obligations, {n_dis} discharged ({backends}), solver {solver_time:.1f}s, wall {wall:.1f}s")
    for a, b in undecided:
        print(f"UNDECIDED obligation={a} reason={b}")
    for c in gone:
        print(f"GONE obligation={c} (in ledger, no longer generated)")
    seenf = set()
    for f, w in known_hits:
        if f["clause"] in seenf:
            continue
        seenf.add(f["clause"])
        print(f"KNOWN-FINDING: property={prop} {f['clause']} {f.get('what', '')}")
    for clause, path, confirmed in violations:
        print(f"  failed obligation: {clause}")
        print(f"VIOLATION property={prop} replay={path}" + ("" if confirmed else " no-failing-input-found"))
    if n_obl == 0 or zero:
        print(f"CHECKER-ERROR zero obligations generated ({zero})")
        return 3
    for u in uncovered:
        print(f"CHECKER-ERROR cover not reached (the contract may hold vacuously): {u}")
    crashed = [r for r in standins if r.get("error")] + ([{"function": "covers", "error": "unreached: " + ", ".join(uncovered)}] if uncovered else [])
    for r in crashed:
        if r.get("function") != "covers":
            print(f"CHECKER-ERROR bounded stand-in of {r.get('function')} crashed: {r['error'][:300]}")
    if violations:
        return 1
    return 3 if crashed else 0


if __name__ == "__main__":
    try:
        rc = main()
    except SystemExit:
        raise
    except Exception:
        traceback.print_exc()
        rc = 3
    sys.exit(rc)
