"""Symbolic (Dolev-Yao style) model of the cryptographic dependencies (DESIGN 3.3).

Function symbols over byte strings; the library wrappers map onto them.  Facts are added as
ground instances where a term is created (never as quantified axioms).  Computational
soundness of this model is NOT verified and is listed in every evidence file that uses it."""
from __future__ import annotations

import z3

from . import ops
from .interp import StubObj
from .values import SV, SBytes, SInt, Unsupported, ISEQ, Bytes, has_sym

I = z3.IntSort()
B = z3.BoolSort()

F_x_pub = z3.Function("x25519_pub", ISEQ, ISEQ)
F_x_dh = z3.Function("x25519", ISEQ, ISEQ, ISEQ)  # (sk, peer public) -> shared
F_dh_raw = z3.Function("dh_secret", ISEQ, ISEQ, ISEQ)  # symmetric in the two *public* keys
F_ed_pub = z3.Function("ed_pub", ISEQ, ISEQ)
F_ed_sign = z3.Function("ed_sign", ISEQ, ISEQ, ISEQ)
P_ed_ok = z3.Function("ed_ok", ISEQ, ISEQ, ISEQ, B)  # (pk, sig, msg)
F_hkdf = z3.Function("hkdf", ISEQ, ISEQ, ISEQ, I, ISEQ)  # (ikm, salt, info, n)
F_seal = z3.Function("seal", ISEQ, ISEQ, ISEQ, ISEQ, ISEQ)  # (key, nonce, aad, pt)
P_open_ok = z3.Function("open_ok", ISEQ, ISEQ, ISEQ, ISEQ, B)  # (key, nonce, aad, ct)
F_open_pt = z3.Function("open_pt", ISEQ, ISEQ, ISEQ, ISEQ, ISEQ)
F_sha512 = z3.Function("sha512", ISEQ, ISEQ)
# the pure-Python ChaCha20/Poly1305 package used for the 4-byte partial tag of BLE broadcast notifications
F_otk = z3.Function("poly1305_otk", ISEQ, ISEQ, ISEQ)  # (key, nonce) -> one-time key
F_poly = z3.Function("poly1305_tag", ISEQ, ISEQ, ISEQ)  # (one-time key, message) -> 16-byte tag
F_chacha = z3.Function("chacha20_xor", ISEQ, ISEQ, I, ISEQ, ISEQ)  # (key, nonce, initial counter, data)
F_zeros = z3.Function("zeros", I, ISEQ)
F_modexp = z3.Function("modexp", I, I, I, I)  # pow(base, exponent, modulus): modular exponentiation as a function symbol
TRUSTED_PURE = "pure-Python chacha20poly1305 package (ChaCha block function, Poly1305, pad16) as function symbols: poly1305_otk, poly1305_tag (16 bytes), chacha20_xor (length preserving), zeros(n)"

TRUSTED = "symbolic crypto model: Ed25519/X25519/HKDF-SHA512/ChaCha20-Poly1305 as ideal function symbols (EUF-CMA, INT-CTXT, PRF not verified)"


def bt(v):
    return ops.bytes_term(v)


def mkb(t):
    return ops.mk_bytes(t, False)


def seal_term(it, key, nonce, aad, pt):
    k, n, a, p = bt(key), bt(nonce), bt(aad), bt(pt)
    c = F_seal(k, n, a, p)
    it.ctx.assume(z3.Length(c) == z3.Length(p) + 16)
    it.ctx.assume(P_open_ok(k, n, a, c))
    it.ctx.assume(F_open_pt(k, n, a, c) == p)
    it.env.assumptions_used.add(TRUSTED)
    return c


def open_terms(it, key, nonce, aad, ct):
    k, n, a, c = bt(key), bt(nonce), bt(aad), bt(ct)
    ok = P_open_ok(k, n, a, c)
    pt = F_open_pt(k, n, a, c)
    # ideal AEAD: whatever opens under (k, n, a) IS the sealing of its plaintext under (k, n, a)
    it.ctx.assume(z3.Implies(ok, z3.And(c == F_seal(k, n, a, pt), z3.Length(c) == z3.Length(pt) + 16)))
    it.env.assumptions_used.add(TRUSTED)
    return ok, pt


def hkdf_term(it, ikm, salt, info, length):
    t = F_hkdf(bt(ikm), bt(salt), bt(info), ops.int_term(length))
    it.ctx.assume(z3.Length(t) == ops.int_term(length))
    it.env.assumptions_used.add(TRUSTED)
    return t


class XPrivateKey(StubObj):
    def __init__(self, it, sk=None):
        if sk is None:
            sk = it.ctx.fresh("x_sk", ISEQ)
            it.ctx.assume(z3.Length(sk) == 32)
            it.ctx.ghost.setdefault("x25519_sk", []).append(SBytes(sk))
        self.sk = sk

    def m_public_key(self, it):
        pk = F_x_pub(self.sk)
        it.ctx.assume(z3.Length(pk) == 32)
        return XPublicKey(pk)

    def m_exchange(self, it, peer):
        if not isinstance(peer, XPublicKey):
            it.raise_exc(TypeError, "peer_public_key must be X25519PublicKey")
        s = F_x_dh(self.sk, peer.pk)
        it.ctx.assume(z3.Length(s) == 32)
        # Diffie-Hellman: the shared secret is a symmetric function of the two public keys
        it.ctx.assume(s == F_dh_raw(F_x_pub(self.sk), peer.pk))
        it.env.assumptions_used.add(TRUSTED)
        return mkb(s)


class XPublicKey(StubObj):
    def __init__(self, pk):
        self.pk = pk

    def m_public_bytes(self, it, encoding=None, format=None):
        return mkb(self.pk)


class EdPrivateKey(StubObj):
    def __init__(self, it, sk=None):
        if sk is None:
            sk = it.ctx.fresh("ed_sk", ISEQ)
            it.ctx.assume(z3.Length(sk) == 32)
            it.ctx.ghost.setdefault("ed_sk", []).append(SBytes(sk))
        self.sk = sk

    def m_public_key(self, it):
        pk = F_ed_pub(self.sk)
        it.ctx.assume(z3.Length(pk) == 32)
        return EdPublicKey(pk)

    def m_sign(self, it, msg):
        m = bt(msg)
        sig = F_ed_sign(self.sk, m)
        it.ctx.assume(z3.Length(sig) == 64)
        it.ctx.assume(P_ed_ok(F_ed_pub(self.sk), sig, m))
        it.ctx.trace.append(("ed_sign", SBytes(self.sk), SBytes(m)))
        it.env.assumptions_used.add(TRUSTED)
        return mkb(sig)

    def m_private_bytes(self, it, encoding=None, format=None, encryption_algorithm=None):
        return mkb(self.sk)


class EdPublicKey(StubObj):
    def __init__(self, pk):
        self.pk = pk

    def m_public_bytes(self, it, encoding=None, format=None):
        return mkb(self.pk)

    def m_verify(self, it, sig, msg):
        from cryptography.exceptions import InvalidSignature

        if not ops.is_byteslike(sig) or not ops.is_byteslike(msg) or ops.is_mutable_bytes(sig) and False:
            it.raise_exc(TypeError, "signature/data must be bytes-like")
        s, m = bt(sig), bt(msg)
        ok = P_ed_ok(self.pk, s, m)
        if not it.ctx.branch(ok):
            it.raise_exc(InvalidSignature)
        it.ctx.trace.append(("ed_verify_ok", SBytes(self.pk), SBytes(s), SBytes(m)))
        it.env.assumptions_used.add(TRUSTED)
        return None


class HKDFObj(StubObj):
    def __init__(self, length, salt, info):
        self.length, self.salt, self.info = length, salt, info

    def m_derive(self, it, ikm):
        return mkb(hkdf_term(it, ikm, self.salt, self.info, self.length))


class AEADObj(StubObj):
    def __init__(self, key):
        self.key = key
        self.f_key = key

    def m_encrypt(self, it, nonce, data, aad):
        if aad is None:
            aad = b""
        c = seal_term(it, self.key, nonce, aad, data)
        it.ctx.trace.append(("seal", SBytes(bt(self.key)), SBytes(bt(nonce)), SBytes(bt(aad)), SBytes(bt(data))))
        return mkb(c)

    def m_decrypt(self, it, nonce, data, aad):
        from cryptography.exceptions import InvalidTag

        if aad is None:
            aad = b""
        ok, pt = open_terms(it, self.key, nonce, aad, data)
        if not it.ctx.branch(ok):
            it.raise_exc(InvalidTag)
        it.ctx.trace.append(("open_ok", SBytes(bt(self.key)), SBytes(bt(nonce)), SBytes(bt(aad)), SBytes(bt(data)), SBytes(pt)))
        return mkb(pt)


class DeriveFn(StubObj):
    """a `derive(salt, info, length=32)` closure over a secret (what pair-verify returns)"""

    def __init__(self, secret):
        self.secret = secret

    def sym_call(self, it, salt, info, length=32):
        return mkb(hkdf_term(it, self.secret, salt, info, length))

    def sym_truth(self, it):
        return True


def install(env):
    from cryptography.hazmat.primitives.asymmetric import ed25519, x25519
    from cryptography.hazmat.primitives.kdf.hkdf import HKDF
    from chacha20poly1305_reuseable import ChaCha20Poly1305Reusable

    def len_is_32(it, b, what):
        if not ops.is_byteslike(b):
            it.raise_exc(TypeError, f"{what}: bytes expected")
        it.require(z3.Length(bt(b)) == 32, ValueError, f"An {what} is 32 bytes long")

    env.stub(x25519.X25519PrivateKey.generate.__func__, lambda it, cls=None: XPrivateKey(it))

    def x_from_public(it, cls, b=None):
        if b is None:
            b = cls
        len_is_32(it, b, "X25519 public key")
        return XPublicKey(bt(b))

    env.stub(x25519.X25519PublicKey.from_public_bytes.__func__, x_from_public)
    env.stub(ed25519.Ed25519PrivateKey.generate.__func__, lambda it, cls=None: EdPrivateKey(it))

    def ed_from_private(it, cls, b=None):
        if b is None:
            b = cls
        len_is_32(it, b, "Ed25519 private key")
        return EdPrivateKey(it, bt(b))

    env.stub(ed25519.Ed25519PrivateKey.from_private_bytes.__func__, ed_from_private)

    def ed_from_public(it, cls, b=None):
        if b is None:
            b = cls
        len_is_32(it, b, "Ed25519 public key")
        return EdPublicKey(bt(b))

    env.stub(ed25519.Ed25519PublicKey.from_public_bytes.__func__, ed_from_public)

    def mk_hkdf(it, algorithm=None, length=32, salt=None, info=None, backend=None):
        return HKDFObj(length, salt if salt is not None else b"", info if info is not None else b"")

    env.stub(HKDF, mk_hkdf)

    def mk_aead(it, key):
        if not ops.is_byteslike(key):
            it.raise_exc(TypeError, "key must be bytes")
        it.require(z3.Length(bt(key)) == 32, ValueError, "ChaCha20Poly1305 key must be 32 bytes.")
        return AEADObj(key)

    env.stub(ChaCha20Poly1305Reusable, mk_aead)
    from cryptography.hazmat.primitives.ciphers.aead import ChaCha20Poly1305 as _CC

    env.stub(_CC, mk_aead)
    # ---- hashlib.sha512 and three-argument pow (SRP)
    import hashlib
    import builtins

    class HashObj(StubObj):
        def __init__(self, data):
            self.data = data

        def m_update(self, it, more):
            self.data = ops.mk_bytes(z3.Concat(bt(self.data), bt(more)), False)

        def m_digest(self, it):
            if isinstance(self.data, (bytes, bytearray)):
                return hashlib.sha512(bytes(self.data)).digest()  # concrete input: the real digest
            t = F_sha512(bt(self.data))
            it.ctx.assume(z3.Length(t) == 64)
            it.env.assumptions_used.add("SHA-512 as a function symbol (64-byte output; collision resistance not modelled)")
            return mkb(t)

    env.stub(hashlib.sha512, lambda it, data=b"", **kw: HashObj(data))

    def _pow(it, base, exp, mod=None):
        if mod is None or not any(isinstance(v, SV) for v in (base, exp, mod)):
            if any(isinstance(v, SV) for v in (base, exp)):
                raise Unsupported("two-argument pow with symbolic operands")
            return it.native(builtins.pow, base, exp) if mod is None else it.native(builtins.pow, base, exp, mod)
        b, e, m = ops.int_term(base), ops.int_term(exp), ops.int_term(mod)
        it.require(m != 0, ValueError, "pow() 3rd argument cannot be 0")
        it.ctx.assume(e >= 0)  # (negative exponents - modular inverses - are not modelled; listed as an assumption)
        r = F_modexp(b, e, m)
        it.ctx.assume(z3.And(r >= 0, z3.Or(r < m, m < 0)))
        it.env.assumptions_used.add("pow(b, e, m) as a function symbol modexp with 0 <= result < m (exponents assumed non-negative)")
        return ops.mk_int(r)

    env.stub(builtins.pow, _pow)

    # ---- third-party pure-Python primitives (partial-tag open)
    import chacha20poly1305 as _pure

    def _otk(it, key, nonce):
        t = F_otk(bt(key), bt(nonce))
        it.ctx.assume(z3.Length(t) == 32)
        it.env.assumptions_used.add(TRUSTED_PURE)
        return ops.mk_bytes(t, True)

    env.stub(_pure.ChaCha20Poly1305.poly1305_key_gen, _otk)

    def _pad16(it, data):
        n = z3.Length(bt(data))
        t = F_zeros((16 - n % 16) % 16)
        it.ctx.assume(z3.Length(t) == (16 - n % 16) % 16)
        it.env.assumptions_used.add(TRUSTED_PURE)
        return ops.mk_bytes(t, True)

    env.stub(_pure.ChaCha20Poly1305.pad16, _pad16)

    class PolyObj(StubObj):
        def __init__(self, k):
            self.k = k

        def m_create_tag(self, it, data):
            t = F_poly(bt(self.k), bt(data))
            it.ctx.assume(z3.Length(t) == 16)
            it.env.assumptions_used.add(TRUSTED_PURE)
            return ops.mk_bytes(t, True)

    env.stub(_pure.Poly1305, lambda it, key: PolyObj(key))

    class ChaChaObj(StubObj):
        def __init__(self, key, nonce, counter):
            self.key, self.nonce, self.counter = key, nonce, counter

        def m_decrypt(self, it, data):
            t = F_chacha(bt(self.key), bt(self.nonce), ops.int_term(self.counter), bt(data))
            it.ctx.assume(z3.Length(t) == z3.Length(bt(data)))
            it.env.assumptions_used.add(TRUSTED_PURE)
            return ops.mk_bytes(t, True)

        m_encrypt = m_decrypt

    env.stub(_pure.ChaCha, lambda it, key, nonce, counter=0, rounds=20: ChaChaObj(key, nonce, counter))

    from aiohomekit.crypto.chacha20poly1305 import ChaCha20Poly1305PartialTag
    from .values import SObj

    def _mk_partial(it, key, implementation="python"):
        it.require(z3.Length(bt(key)) == 32, ValueError, "Key must be 256 bit long")
        it.env.assumptions_used.add(TRUSTED_PURE)
        return SObj(ChaCha20Poly1305PartialTag, {"key": key})

    env.stub(ChaCha20Poly1305PartialTag, _mk_partial)
    env.crypto = {
        "seal": seal_term, "open": open_terms, "hkdf": hkdf_term, "DeriveFn": DeriveFn,
        "XPrivateKey": XPrivateKey, "EdPrivateKey": EdPrivateKey,
    }
