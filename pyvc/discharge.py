"""Portfolio discharge of obligations: cvc5 and z3 as subprocesses on SMT-LIB2 text (a race:
the first definite answer wins; a sat/unsat disagreement is reported as a checker conflict)."""
from __future__ import annotations

import os
import subprocess
import tempfile
import time

CVC5 = "/usr/bin/cvc5"
Z3 = "z3-new"

LATE_AFTER = 3.0
CROSS_GRACE = 4.0

WORKDIR = os.path.join(os.path.dirname(os.path.dirname(os.path.abspath(__file__))), ".work")


class Result:
    __slots__ = ("status", "backend", "time", "detail", "file", "answers")

    def __init__(self, status, backend, time_, detail, file, answers=None):
        self.status = status
        self.backend = backend
        self.time = time_
        self.detail = detail
        self.file = file
        self.answers = answers or {}


def _classify(out, err):
    out = (out or "").strip()
    first = out.splitlines()[0].strip() if out else ""
    if first in ("sat", "unsat", "unknown"):
        return first
    if "timeout" in out or "interrupted" in out or "timeout" in (err or "") or "resourceout" in (err or ""):
        return "timeout"
    return "error"


def solve_text(text, name, budget, need="unsat", both=False, backends=("z3", "cvc5")):
    """need='unsat' for validity obligations (text contains the negated goal), 'sat' for covers.
    status: discharged | refuted | unknown | conflict.  With both=True wait for both answers."""
    os.makedirs(WORKDIR, exist_ok=True)
    safe = "".join(c if c.isalnum() or c in "._-" else "_" for c in name)[-60:].lstrip(".")
    fd, path = tempfile.mkstemp(prefix=safe + "_", suffix=".smt2", dir=WORKDIR)
    # z3's simplifier splits seq.nth into internal seq.nth_i (in bounds) / seq.nth_u (out of bounds,
    # an unspecified function of (s, i)); both are instances of SMT-LIB's total seq.nth.
    text = text.replace("seq.nth_i", "seq.nth").replace("seq.nth_u", "seq.nth")
    with os.fdopen(fd, "w") as f:
        f.write(text)
    cmds = {
        "z3": [Z3, f"-T:{max(1, int(budget))}", path],
        "cvc5": [CVC5, "--strings-exp", f"--tlimit={int(budget * 1000)}", path],
    }
    # the sequence solvers are unstable on identical input (same query: 0.05 s with one random seed, > 25 s with
    # another): when nothing has answered after a few seconds, further z3 instances with other seeds join the race
    late = {f"z3#{k}": [Z3, f"smt.random_seed={k}", f"sat.random_seed={k}", f"-T:{max(1, int(budget))}", path] for k in (1, 2, 3)} if "z3" in backends and budget >= 10 else {}
    procs = {}
    t0 = time.time()
    for b in backends:
        procs[b] = subprocess.Popen(cmds[b], stdout=subprocess.PIPE, stderr=subprocess.PIPE, text=True)
    answers = {}
    times = {}
    outs = {}
    other = "sat" if need == "unsat" else "unsat"
    deadline = t0 + budget + 3
    try:
        while procs and time.time() < deadline:
            if late and time.time() - t0 > LATE_AFTER:
                for b, cmd in late.items():
                    procs[b] = subprocess.Popen(cmd, stdout=subprocess.PIPE, stderr=subprocess.PIPE, text=True)
                late = {}
            for b, p in list(procs.items()):
                rc = p.poll()
                if rc is not None:
                    out, err = p.communicate()
                    answers[b] = _classify(out, err)
                    outs[b] = (out or "")[:1500] + (err or "")[:500]
                    times[b] = time.time() - t0
                    del procs[b]
            if any(a in ("sat", "unsat") for a in answers.values()):
                if not both:
                    break
                # cross-check mode: the other back ends get a short grace period to agree or disagree
                first_t = min(times[b] for b, a in answers.items() if a in ("sat", "unsat"))
                if time.time() - t0 > first_t + min(CROSS_GRACE, max(0.5, 3 * first_t)):
                    break
            if procs:
                time.sleep(0.004)
    finally:
        for b, p in procs.items():
            p.kill()
            try:
                p.communicate(timeout=2)
            except Exception:
                pass
            answers.setdefault(b, "killed" if any(a in ("sat", "unsat") for a in answers.values()) else "timeout")
            times.setdefault(b, time.time() - t0)
    vals = set(answers.values())
    if need in vals and other in vals:
        return Result("conflict", "both", time.time() - t0, str(outs), path, answers)
    for b in answers:
        if answers.get(b) == need:
            os.unlink(path)
            return Result("discharged", b.split("#")[0], times[b], "", None, answers)
    for b in answers:
        if answers.get(b) == other:
            return Result("refuted", b.split("#")[0], times[b], outs.get(b, ""), path, answers)
    return Result("unknown", "none", time.time() - t0, str({b: (answers[b], outs.get(b, "")[:200]) for b in answers}), path, answers)
