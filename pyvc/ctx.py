"""Path context: path condition, decision trail (re-execution based exploration), obligations."""
from __future__ import annotations

import z3

from .values import Unsupported


class PathEnd(Exception):
    """This path is finished (cut at a loop back-edge, or proved infeasible)."""


class Infeasible(PathEnd):
    pass


class ReturnEx(Exception):
    def __init__(self, value):
        self.value = value


class BreakEx(Exception):
    pass


class ContinueEx(Exception):
    pass


class RaiseEx(Exception):
    """A Python exception raised inside the interpreted program. `exc` is an SObj whose cls is the
    real exception class."""

    def __init__(self, exc, cause=None):
        self.exc = exc
        self.cause = cause

    def __str__(self):
        return f"RaiseEx({self.exc.cls.__name__})"


class Obligation:
    __slots__ = ("clause", "goal", "pc", "path", "meta", "extra", "entry")

    def __init__(self, clause, goal, pc, path, meta=None, extra=None):
        self.clause = clause
        self.goal = goal
        self.pc = pc
        self.path = path
        self.meta = meta or {}
        self.extra = extra or []
        self.entry = None


FEAS_TIMEOUT_MS = 250


class Skeleton:
    """Arithmetic skeleton of the path condition used only to prune infeasible branches quickly.
    Every term of a sort other than Int/Bool/Real is abstracted: seq.len(t) becomes a structural
    length expression, other Int/Bool-sorted applications over such terms become fresh variables
    keyed by the term (an over-approximation: fewer constraints, so `unsat` here is `unsat` there)."""

    def __init__(self):
        self.memo = {}
        self.lens = {}
        self.keep = []
        self.side = []
        self.n = 0

    def _fresh(self, sort):
        self.n += 1
        return z3.Const(f"sk!{self.n}", sort)

    @staticmethod
    def _arith(sort):
        k = sort.kind()
        return k in (z3.Z3_INT_SORT, z3.Z3_BOOL_SORT, z3.Z3_REAL_SORT)

    def len_of(self, t):
        key = t.get_id()
        if key in self.lens:
            return self.lens[key][1]
        k = t.decl().kind() if z3.is_app(t) else None
        if k == z3.Z3_OP_SEQ_EMPTY:
            r = z3.IntVal(0)
        elif k == z3.Z3_OP_SEQ_UNIT:
            r = z3.IntVal(1)
        elif k == z3.Z3_OP_SEQ_CONCAT:
            r = z3.Sum(*[self.len_of(c) for c in t.children()])
        elif k == z3.Z3_OP_SEQ_EXTRACT:
            ls = self.len_of(t.arg(0))
            o = self.tr(t.arg(1))
            n = self.tr(t.arg(2))
            r = z3.If(z3.And(o >= 0, o < ls, n > 0), z3.If(n < ls - o, n, ls - o), z3.IntVal(0))
        elif k == z3.Z3_OP_ITE:
            r = z3.If(self.tr(t.arg(0)), self.len_of(t.arg(1)), self.len_of(t.arg(2)))
        else:
            r = self._fresh(z3.IntSort())
            self.side.append(r >= 0)
        self.lens[key] = (t, r)
        return r

    def tr(self, t):
        key = t.get_id()
        if key in self.memo:
            return self.memo[key][1]
        r = self._tr(t)
        self.memo[key] = (t, r)
        return r

    def _tr(self, t):
        if not z3.is_app(t):
            return self._fresh(t.sort())  # quantifier etc.
        if t.num_args() == 0:
            if self._arith(t.sort()):
                return t
            return t
        k = t.decl().kind()
        ch = t.children()
        if k == z3.Z3_OP_SEQ_LENGTH:
            return self.len_of(ch[0])
        if all(self._arith(c.sort()) for c in ch) and self._arith(t.sort()):
            if k == z3.Z3_OP_UNINTERPRETED:
                return t.decl()(*[self.tr(c) for c in ch])
            try:
                return t.decl()(*[self.tr(c) for c in ch])
            except Exception:
                return self._fresh(t.sort())
        v = self._fresh(t.sort())
        if k == z3.Z3_OP_EQ and ch[0].sort().kind() == z3.Z3_SEQ_SORT:
            self.side.append(z3.Implies(v, self.len_of(ch[0]) == self.len_of(ch[1])))
        return v


class Ctx:
    def __init__(self, prefix=(), feas_timeout=FEAS_TIMEOUT_MS):
        self.pc = []
        self.pc_ids = set()
        self.solver = z3.SolverFor("QF_LIA") if False else z3.Solver()
        self.solver.set("timeout", feas_timeout)
        self.skel = Skeleton()
        self.prefix = list(prefix)
        self.trail = []  # (decision, [remaining alternatives])
        self.obligations = []
        self.counters = {}
        self.pure = 0
        self.trace = []  # effect events (tuples)
        self.ghost = {}
        self.yielded = []
        self.notes = []
        self.path_lines = []
        self.spec_apps = []
        self.nodecide = 0
        self.covers = []
        self.stats = {"feas_checks": 0, "feas_unknown": 0}

    # -- fresh names (deterministic per path prefix so that re-execution reproduces them)
    def fresh(self, base, sort):
        n = self.counters.get(base, 0)
        self.counters[base] = n + 1
        return z3.Const(f"{base}!{n}", sort)

    # -- path condition
    def assume(self, t):
        if isinstance(t, bool):
            if not t:
                raise Infeasible()
            return
        t = z3.simplify(t)
        if z3.is_true(t):
            return
        if z3.is_false(t):
            raise Infeasible()
        tid = t.get_id()
        if tid in self.pc_ids:
            return
        self.pc_ids.add(tid)
        self.pc.append(t)
        self._skel_add(t)

    def _skel_add(self, t):
        n0 = len(self.skel.side)
        a = self.skel.tr(t)
        self.solver.add(a)
        for sd in self.skel.side[n0:]:
            self.solver.add(sd)

    def _feasible(self, t):
        self.stats["feas_checks"] += 1
        n0 = len(self.skel.side)
        a = self.skel.tr(t)
        # side conditions are definitional (true in every model), add them permanently
        for sd in self.skel.side[n0:]:
            self.solver.add(sd)
        self.solver.push()
        try:
            self.solver.add(a)
            r = self.solver.check()
        finally:
            self.solver.pop()
        if r == z3.unknown:
            self.stats["feas_unknown"] += 1
        return r != z3.unsat

    def pinned_int(self, t):
        """the integer the path condition pins `t` to, if any (decided on the arithmetic skeleton, which has FEWER
        constraints than the path condition: a value forced there is forced on the path)"""
        n0 = len(self.skel.side)
        a = self.skel.tr(t)
        for sd in self.skel.side[n0:]:
            self.solver.add(sd)
        if self.solver.check() != z3.sat:
            return None
        v = self.solver.model().eval(a, model_completion=True)
        if not z3.is_int_value(v):
            return None
        self.solver.push()
        try:
            self.solver.add(a != v)
            r = self.solver.check()
        finally:
            self.solver.pop()
        return v.as_long() if r == z3.unsat else None

    def decide(self, options, label=""):
        """options: list of (key, cond_term_or_None). Returns chosen key. Explores all feasible."""
        pos = len(self.trail)
        if pos < len(self.prefix):
            k, rest = self.prefix[pos]
            self.trail.append((k, rest))
            cond = dict(options)[k]
            if cond is not None:
                self.assume(cond)
            return k
        feas = []
        for k, cond in options:
            if cond is None or self._feasible(cond):
                feas.append(k)
        if not feas:
            raise Infeasible()
        k = feas[0]
        self.trail.append((k, feas[1:]))
        cond = dict(options)[k]
        if cond is not None:
            self.assume(cond)
        return k

    def branch(self, t):
        """fork on a boolean term; returns the Python bool taken on this path."""
        if isinstance(t, bool):
            return t
        t = z3.simplify(t)
        if z3.is_true(t):
            return True
        if z3.is_false(t):
            return False
        if self.pure:
            raise Unsupported("fork inside a pure (contract/spec) expression")
        return self.decide([(True, t), (False, z3.Not(t))])

    def choose(self, keys, label=""):
        """environment nondeterminism: every alternative is explored."""
        return self.decide([(k, None) for k in keys], label)

    # -- obligations
    def oblige(self, clause, goal, meta=None, assume_after=True):
        if isinstance(goal, bool):
            goal = z3.BoolVal(goal)
        g = z3.simplify(goal)
        # a conjunction is proved conjunct by conjunct (smaller queries; same clause name)
        parts = g.children() if z3.is_and(g) else [g]
        meta = dict(meta or {})
        if getattr(self, "exit_rel", None) is not None:
            meta.setdefault("exit", self.exit_rel)
        if getattr(self, "exit_src", None) is not None:
            meta.setdefault("exit_src", self.exit_src)
        if getattr(self, "pc_mark", None) is not None:
            meta.setdefault("pc_mark", self.pc_mark)
        done = []
        for part in parts:
            # (a later conjunct may use the earlier ones: proving A, then B from A, proves A and B)
            ob = Obligation(clause, part, list(self.pc) + done, tuple(k for k, _ in self.trail), meta, list(self.spec_apps))
            ob.entry = getattr(self, "entry_args", None)
            self.obligations.append(ob)
            done = done + [part]
        if assume_after:
            self.assume(g)

    def next_prefix(self):
        """backtrack: the next unexplored decision prefix, or None."""
        tr = list(self.trail)
        while tr:
            k, rest = tr.pop()
            if rest:
                return tr + [(rest[0], rest[1:])]
        return None
