"""Model of the `decimal` module used by check_convert_value (DESIGN 4/C14).

A Decimal is an exact rational (z3 Real).  Outside a local context arithmetic is exact for the operations used
(max/min/conversion).  Inside `localcontext()` with precision P every arithmetic result is rnd_P(exact) with
rnd_P an UNINTERPRETED function; the only facts given about it (assumed, listed in the evidence):
  * an integer-valued x with |x| < 10^P is exactly representable:             rnd_P(x) = x
  * for integers n, s (1 <= s, |n|, s < 2^66) and P >= 28:  half_up(rnd_P(n/s)) = half_up(n/s)
    (the rounding error |n/s| * 10^(1-P) is smaller than the distance 1/(2s) to the nearest rounding boundary)
`to_integral_value()` is exact rounding to an integer in the context's rounding mode."""
from __future__ import annotations

import decimal
import z3

from . import ops
from .interp import StubObj
from .values import SV, SInt, SReal, SStr, SBool, Unsupported

R = z3.RealSort()
F_rnd = {}
F_str_dec = z3.Function("decimal_of_str", z3.SeqSort(z3.IntSort()), R)
P_str_dec_ok = z3.Function("decimal_str_ok", z3.SeqSort(z3.IntSort()), z3.BoolSort())
F_float_of = z3.Function("float_of_real", R, R)  # nearest binary64 (uninterpreted)

NOTE = "decimal model: exact rationals; context rounding rnd_P uninterpreted with two assumed facts (integers below 10^P exact; half_up(rnd_P(n/s)) = half_up(n/s) for P >= 28 and |n|, s < 2^66)"


def rnd(P):
    if P not in F_rnd:
        F_rnd[P] = z3.Function(f"rnd_{P}", R, R)
    return F_rnd[P]


def half_up_i(x):
    """ROUND_HALF_UP of the real x to an Int: ties away from zero"""
    return z3.If(x >= 0, z3.ToInt(x + z3.RealVal("1/2")), -z3.ToInt(-x + z3.RealVal("1/2")))


def half_up(x):
    return z3.ToReal(half_up_i(x))


def half_even(x):
    f = z3.ToInt(x)
    d = x - z3.ToReal(f)
    return z3.ToReal(z3.If(d < z3.RealVal("1/2"), f, z3.If(d > z3.RealVal("1/2"), f + 1, z3.If(f % 2 == 0, f, f + 1))))


class Dec(StubObj):
    """term: the value (Real).  int_term: set when the value is KNOWN to be the integer int_term (constructor
    from an int, result of to_integral_value).  ie: an Int term the value equals WHENEVER it fits the precision
    it was computed under (the equation is in the path condition).  frac = (n, s, P): value = rnd_P(n/s)."""

    pytype = decimal.Decimal

    def __init__(self, term, int_term=None, ie=None, frac=None):
        self.term = term
        self.int_term = int_term
        self.ie = int_term if int_term is not None else ie
        self.frac = frac

    def m_to_integral_value(self, it, rounding=None):
        c = it.ctx.ghost.get("decimal_ctx")
        mode = c.rounding if c is not None else decimal.ROUND_HALF_EVEN
        if self.int_term is not None:
            return self
        x = self.term
        if mode != decimal.ROUND_HALF_UP:
            r = half_even(x)
            k = it.ctx.fresh("k_int", z3.IntSort())
            it.ctx.assume(k == z3.ToInt(r))
            if self.ie is not None:
                # rounding an integer-valued number to an integer is the identity (in every rounding mode)
                it.ctx.assume(z3.Implies(x == z3.ToReal(self.ie), k == self.ie))
            return Dec(z3.ToReal(k), int_term=k)
        # name the rounded integer (keeps the later terms small); its definition is in the path condition
        k = it.ctx.fresh("k_int", z3.IntSort())
        it.ctx.assume(k == half_up_i(x))
        if self.frac is not None:
            n, s, P = self.frac
            if P >= 28:
                # assumed lemma (module docstring): the context rounding of n/s does not change its half-up rounding
                exact = z3.ToReal(n) / z3.ToReal(s)
                it.ctx.assume(z3.Implies(z3.And(s >= 1, s < 2 ** 66, n < 2 ** 66, n > -(2 ** 66)), k == half_up_i(exact)))
                # arithmetic fact about nearest-integer rounding (nonlinear, so stated for the solver):
                # k = half_up(n/s)  =>  |2(k s - n)| <= s
                it.ctx.assume(z3.Implies(z3.And(s >= 1, k == half_up_i(exact)), z3.And(2 * (k * s - n) <= s, 2 * (n - k * s) <= s)))
        return Dec(z3.ToReal(k), int_term=k)

    def sym_truth(self, it):
        return it.ctx.branch(self.term != 0)

    def to_int(self, it):
        if self.int_term is not None:
            return ops.mk_int(self.int_term)
        t = self.term
        return ops.mk_int(z3.If(t >= 0, z3.ToInt(t), -z3.ToInt(-t)))


def as_dec(it, v):
    if isinstance(v, Dec):
        return v
    if isinstance(v, bool):
        v = int(v)
    if isinstance(v, int):
        return Dec(z3.RealVal(v), int_term=z3.IntVal(v))
    if isinstance(v, SInt):
        return Dec(z3.ToReal(v.term), int_term=v.term)
    if isinstance(v, SBool):
        t = z3.If(v.term, z3.IntVal(1), z3.IntVal(0))
        return Dec(z3.ToReal(t), int_term=t)
    if isinstance(v, float):
        from fractions import Fraction

        f = Fraction(v)
        return Dec(z3.RealVal(f"{f.numerator}/{f.denominator}"), int_term=z3.IntVal(int(v)) if v == int(v) else None)
    if isinstance(v, SReal):
        return Dec(v.term)
    raise Unsupported(f"Decimal from {type(v).__name__}")


def arith(it, op, a, b):
    import ast

    a, b = as_dec(it, a), as_dec(it, b)
    c = it.ctx.ghost.get("decimal_ctx")
    P = c.prec if c is not None else 28
    it.env.assumptions_used.add(NOTE)
    both = a.ie is not None and b.ie is not None
    if isinstance(op, (ast.Add, ast.Sub, ast.Mult)):
        f = {ast.Add: lambda x, y: x + y, ast.Sub: lambda x, y: x - y, ast.Mult: lambda x, y: x * y}[type(op)]
        r = rnd(P)(f(a.term, b.term))
        if both:
            ie = f(a.ie, b.ie)
            # assumed fact 1: an integer result below 10^P is exact
            it.ctx.assume(z3.Implies(z3.And(ie < 10 ** P, ie > -(10 ** P), a.term == z3.ToReal(a.ie), b.term == z3.ToReal(b.ie)), r == z3.ToReal(ie)))
            return Dec(r, ie=ie)
        return Dec(r)
    if isinstance(op, ast.Div):
        it.require(b.term != 0, decimal.DivisionByZero, "division by zero")
        r = rnd(P)(a.term / b.term)
        if both:
            # the lemma speaks about n/s for the INTEGER values: link them to the operands' values
            it.ctx.assume(z3.Implies(z3.And(a.term == z3.ToReal(a.ie), b.term == z3.ToReal(b.ie)), r == rnd(P)(z3.ToReal(a.ie) / z3.ToReal(b.ie))))
        return Dec(r, frac=(a.ie, b.ie, P) if both else None)
    raise Unsupported(f"Decimal operator {type(op).__name__}")


class DecContext(StubObj):
    def __init__(self):
        self.prec = 28
        self.rounding = decimal.ROUND_HALF_EVEN

    @property
    def f_prec(self):
        return self.prec

    @property
    def f_rounding(self):
        return self.rounding

    def sym_setattr(self, it, name, v):
        if name == "prec":
            if isinstance(v, SV):
                raise Unsupported("symbolic decimal precision")
            self.prec = v
        elif name == "rounding":
            self.rounding = v
        else:
            raise Unsupported(f"decimal context attribute {name}")

    def cm_enter(self, it, is_async):
        self.saved = it.ctx.ghost.get("decimal_ctx")
        it.ctx.ghost["decimal_ctx"] = self
        return self

    def cm_exit(self, it, exc, is_async):
        it.ctx.ghost["decimal_ctx"] = self.saved
        return False


def install(env):
    env.half_up_int = lambda it, x: ops.mk_int(half_up_i(ops.real_term(x)))

    def mk(it, v=0):
        if isinstance(v, (SStr, str)):
            if isinstance(v, str):
                try:
                    d = decimal.Decimal(v)
                except decimal.InvalidOperation as e:
                    it.raise_native(e)
                from fractions import Fraction

                f = Fraction(d)
                return Dec(z3.RealVal(f"{f.numerator}/{f.denominator}"), int_term=z3.IntVal(int(f)) if f.denominator == 1 else None)
            # text that is not a number raises decimal.InvalidOperation (an ArithmeticError, NOT a ValueError)
            if not it.ctx.branch(P_str_dec_ok(v.term)):
                it.raise_exc(decimal.InvalidOperation, "conversion syntax")
            return Dec(F_str_dec(v.term))
        return as_dec(it, v)

    env.stub(decimal.Decimal, mk)
    env.stub(decimal.localcontext, lambda it, ctx=None: DecContext())

    old_obj_binop = env.obj_binop

    def obj_binop(it, op, a, b):
        if isinstance(a, Dec) or isinstance(b, Dec):
            return arith(it, op, a, b)
        return old_obj_binop(it, op, a, b)

    env.obj_binop = obj_binop

    import builtins

    old_min, old_max = env.lookup_stub(builtins.min), env.lookup_stub(builtins.max)

    def _mm(is_min):
        def f(it, *args, **kw):
            if len(args) == 2 and any(isinstance(x, Dec) for x in args):
                a, b = as_dec(it, args[0]), as_dec(it, args[1])
                # Python's max/min return the FIRST argument on ties
                take_b = (b.term < a.term) if is_min else (b.term > a.term)
                if it.ctx.branch(take_b):
                    return b
                return a
            return (old_min if is_min else old_max)(it, *args, **kw)

        return f

    env.stub(builtins.min, _mm(True))
    env.stub(builtins.max, _mm(False))
    old_int, old_float = env.lookup_stub(builtins.int), env.lookup_stub(builtins.float)

    def _int(it, x=0, *a):
        if isinstance(x, Dec):
            return x.to_int(it)
        return old_int(it, x, *a)

    def _float(it, x=0.0):
        if isinstance(x, Dec):
            return SReal(F_float_of(x.term))
        return old_float(it, x)

    env.stub(builtins.int, _int)
    env.stub(builtins.float, _float)
