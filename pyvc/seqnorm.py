"""Sequence normaliser (DESIGN 2.4): semantic-preserving rewrites of seq.extract / seq.nth over
concatenations whose cut points can be decided by arithmetic simplification alone.  Every rule is an
equality valid in the theory of sequences (no assumption is introduced)."""
from __future__ import annotations

import z3

_cache = {}


BRIDGES = []  # valid identities used by the rewriter since the list was last cleared


def slen(t):
    """structural length of a sequence term as an Int term"""
    k = t.decl().kind() if z3.is_app(t) else None
    if k == z3.Z3_OP_SEQ_EMPTY:
        return z3.IntVal(0)
    if k == z3.Z3_OP_SEQ_UNIT:
        return z3.IntVal(1)
    if k == z3.Z3_OP_SEQ_CONCAT:
        return z3.Sum(*[slen(c) for c in t.children()])
    return z3.Length(t)


def is_zero(e):
    e = z3.simplify(e)
    return z3.is_int_value(e) and e.as_long() == 0


def nonneg_const(e):
    e = z3.simplify(e)
    return z3.is_int_value(e) and e.as_long() >= 0


def flat(t):
    if z3.is_app(t) and t.decl().kind() == z3.Z3_OP_SEQ_CONCAT:
        out = []
        for c in t.children():
            out.extend(flat(c))
        return out
    if z3.is_app(t) and t.decl().kind() == z3.Z3_OP_SEQ_EMPTY:
        return []
    return [t]


def mk_concat(parts, sort):
    if not parts:
        return z3.Empty(sort)
    if len(parts) == 1:
        return parts[0]
    return z3.Concat(*parts)


def rewrite(t):
    key = t.get_id()
    hit = _cache.get(key)
    if hit is not None and hit[0].eq(t):
        return hit[1]
    r = _rw(t)
    _cache[key] = (t, r)
    if len(_cache) > 200000:
        _cache.clear()
    return r


def _rw(t):
    if z3.is_quantifier(t):
        return t
    if not z3.is_app(t) or t.num_args() == 0:
        return t
    ch = [rewrite(c) for c in t.children()]
    k = t.decl().kind()
    if k == z3.Z3_OP_SEQ_EXTRACT:
        r = _extract(ch[0], ch[1], ch[2])
        if r is not None:
            return r
    if k == z3.Z3_OP_SEQ_NTH or t.decl().name() in ("seq.nth_i", "seq.nth_u"):
        r = _nth(ch[0], ch[1])
        if r is not None:
            return r
        if k != z3.Z3_OP_SEQ_NTH:
            return ch[0][ch[1]]  # canonical total seq.nth
    if k == z3.Z3_OP_ITE:
        if ch[1].eq(ch[2]):
            return ch[1]
        c = z3.simplify(ch[0])
        if z3.is_true(c):
            return ch[1]
        if z3.is_false(c):
            return ch[2]
    if k == z3.Z3_OP_SEQ_LENGTH:
        parts = flat(ch[0])
        if len(parts) != 1 or not parts[0].eq(ch[0]):
            return z3.simplify(slen(mk_concat(parts, ch[0].sort())))
    if all(a.eq(b) for a, b in zip(ch, t.children())):
        return t
    try:
        return t.decl()(*ch)
    except Exception:
        return t


def _extract(s, off, n):
    if z3.is_app(s) and s.decl().kind() == z3.Z3_OP_SEQ_EXTRACT and is_zero(off):
        # extract(extract(s, a, k), 0, n) = extract(s, a, min(n, k))   (holds for ALL a, k, n incl. out-of-range ones:
        # both sides are empty when a is out of range or k <= 0 or n <= 0; otherwise both are the first
        # min(n, k, len(s) - a) elements from a)
        s0, a, k = s.children()
        if is_zero(k - (z3.Length(s0) - a)):
            # inner extract runs to the end of s0: the outer length alone decides (extract clamps at the end anyway)
            r = z3.Extract(s0, a, n)
        else:
            r = z3.Extract(s0, a, z3.simplify(z3.If(n <= k, n, k)))
        # the identity itself is handed to the solver too (hypotheses may mention the inner extract as a whole)
        BRIDGES.append(z3.Extract(s, off, n) == r)
        return r
    parts = flat(s)
    if len(parts) < 2:
        return None
    # find start index i with off == len(parts[:i])
    acc = z3.IntVal(0)
    start = None
    for i in range(len(parts) + 1):
        if is_zero(off - acc):
            start = i
            break
        if i < len(parts):
            acc = acc + slen(parts[i])
    if start is None:
        return None
    acc = z3.IntVal(0)
    total_rest = z3.Sum(*[slen(p) for p in parts[start:]]) if parts[start:] else z3.IntVal(0)
    for j in range(start, len(parts) + 1):
        if is_zero(n - acc):
            return mk_concat(parts[start:j], s.sort())
        if j < len(parts):
            acc = acc + slen(parts[j])
    # n reaches (at least) to the end
    if nonneg_const(n - total_rest):
        return mk_concat(parts[start:], s.sort())
    return None


def _nth(s, idx):
    parts = flat(s)
    if len(parts) < 2:
        return None
    acc = z3.IntVal(0)
    for i, p in enumerate(parts):
        if p.decl().kind() == z3.Z3_OP_SEQ_UNIT and is_zero(idx - acc):
            return p.arg(0)
        acc = acc + slen(p)
    # index counted from the end
    acc = z3.IntVal(0)
    total = z3.Sum(*[slen(p) for p in parts])
    for p in reversed(parts):
        acc = acc + slen(p)
        if p.decl().kind() == z3.Z3_OP_SEQ_UNIT and is_zero(idx - (total - acc)):
            return p.arg(0)
    return None
