"""Exploring a function under contract, generating obligations, instantiating spec functions."""
from __future__ import annotations

import hashlib
import importlib
import inspect
import time
import traceback
import z3

from . import ops
from .api import Contract, SpecFn
from .ctx import Ctx, PathEnd, Infeasible, ReturnEx, BreakEx, ContinueEx, RaiseEx, Obligation
from .interp import Interp, Frame, Closure, function_ast, is_generator_node
from .env import Env, snapshot, ObjSnapshot
from .values import SV, SObj, SSeq, SBytes, Sort, Unsupported, has_sym


def resolve_target(target):
    modname, qual = target.split(":")
    mod = importlib.import_module(modname)
    obj = mod
    owner = None
    for p in qual.split("."):
        owner = obj
        obj = inspect.getattr_static(obj, p) if isinstance(obj, type) else getattr(obj, p)
    if isinstance(obj, (staticmethod, classmethod)):
        obj = obj.__func__
    if isinstance(obj, property):
        obj = obj.fget
    while hasattr(obj, "__wrapped__"):
        obj = obj.__wrapped__
    # decorators that do not set __wrapped__: the decorated function is a closure cell of the wrapper
    name = qual.split(".")[-1]
    for _ in range(6):
        inner = None
        if getattr(obj, "__name__", None) != name and getattr(obj, "__closure__", None):
            for cell in obj.__closure__:
                try:
                    c = cell.cell_contents
                except ValueError:
                    continue
                if callable(c) and hasattr(c, "__code__") or hasattr(c, "__wrapped__") or (callable(c) and getattr(c, "__closure__", None)):
                    inner = c
                    break
        if inner is None:
            break
        obj = inner
        while hasattr(obj, "__wrapped__"):
            obj = obj.__wrapped__
    return obj, owner


def contract_tag(con):
    """stable obligation-name prefix: property / module:qualname # contract class"""
    return f"{con.prop}/{con.target}#{con.__name__}"


def eval_clause(it, f, ns):
    """evaluate a contract clause (a Python function in a sidecar file) in pure mode; arguments are
    bound by parameter name from `ns`."""
    if isinstance(f, staticmethod):
        f = f.__func__
    node, *_ = function_ast(f)
    params = [a.arg for a in node.args.args]
    if ("trace" in params or ("ghost" in params and 'ghost["trace"]' in function_ast(f)[3])) and any(isinstance(e, tuple) and e and e[0] == "loop-havoc" for e in it.ctx.trace):
        if not getattr(it.top_contract, "trace_loops_ok", False):
            raise Unsupported(f"clause {f.__name__} reads the effect trace after a loop whose iterations had effects (declare trace_loops_ok after checking the clause only uses `any`)")
    args = []
    for p in params:
        if p not in ns:
            raise Unsupported(f"clause {f.__name__}: no value for parameter '{p}' (renamed local?)")
        args.append(ns[p])
    it.ctx.pure += 1
    try:
        return it.call_function(f, args, {})
    except RaiseEx as r:
        raise Unsupported(f"clause {f.__name__} raised {r.exc.cls.__name__}")
    finally:
        it.ctx.pure -= 1


def bind_clause_args(*a, **k):
    raise NotImplementedError


class FunctionReport:
    def __init__(self, con):
        self.con = con
        self.target = con.target
        self.obligations = []
        self.paths = 0
        self.undecided = None
        self.file = None
        self.lines = None
        self.sha256 = None
        self.explore_s = 0.0
        self.assumptions = set()
        self.exits = {"return": 0, "raise": {}, "cut": 0}
        self.covers = {}  # cover clause -> [(pc, term)] candidates (a literally true one first)
        self.infeasible = 0


def make_args(it, con, fn, node):
    params = [a.arg for a in node.args.posonlyargs + node.args.args + node.args.kwonlyargs]
    setup = getattr(con, "setup", None)
    if setup is not None:
        if isinstance(setup, staticmethod):
            setup = setup.__func__
        vals = setup(it)
    else:
        vals = {}
    defaults = {}
    d = list(fn.__defaults__ or ())
    pos = [a.arg for a in node.args.posonlyargs + node.args.args]
    for name, dv in zip(pos[len(pos) - len(d):], d):
        defaults[name] = dv
    defaults.update(fn.__kwdefaults__ or {})
    out = {}
    for p in params:
        if p in vals:
            out[p] = vals[p]
        elif p in con.params:
            s = con.params[p]
            if isinstance(s, Sort):
                out[p] = it.fresh(s, "arg_" + p)
            elif callable(s):
                out[p] = s(it)
            else:
                out[p] = s
        elif p in defaults:
            out[p] = defaults[p]
        else:
            raise Unsupported(f"contract {con.target}: no sort for parameter {p}")
    if node.args.vararg:
        out[node.args.vararg.arg] = vals.get(node.args.vararg.arg, ())
    if node.args.kwarg:
        out[node.args.kwarg.arg] = vals.get(node.args.kwarg.arg, {})
    return out


def _line_text(src, line, first):
    """the text of a source line of the function under contract (an identity of an exit point that survives edits
    elsewhere in the function, unlike its line offset)"""
    try:
        return " ".join(src.splitlines()[line - first].split())[:120]
    except Exception:  # noqa: BLE001
        return None


def run_one_path(env, con, fn, ctx):
    it = Interp(ctx, env)
    it.top_contract = con
    env.top_fn = fn
    env.gen_stack = []
    node, filename, first, src = function_ast(fn)
    args = make_args(it, con, fn, node)
    frame = Frame(fn.__globals__, name=fn.__qualname__, fn=fn)
    frame.is_top = True
    frame.cls = env.owner_class(fn)
    frame.locals.update(args)
    it.entry_args = {k: snapshot(v) for k, v in args.items()}
    ctx.entry_args = it.entry_args
    selfobj = args.get("self")
    it.old_self = ObjSnapshot(selfobj) if isinstance(selfobj, SObj) else None
    it.ghost_old = {k: snapshot(v) for k, v in ctx.ghost.items() if isinstance(k, str) and k.isidentifier()}
    if con.yielded_sort is not None:
        ctx.ghost["yielded"] = SSeq(z3.Empty(con.yielded_sort.z3sort()), con.yielded_sort.elem, True)
    hook = getattr(con, "await_hook", None)
    if hook is not None:
        it.await_hook = hook.__func__ if isinstance(hook, staticmethod) else hook
    tag = contract_tag(con)

    def ns_exit(extra):
        ns = dict(it.entry_args)
        for k in args:
            ns[k + "__post"] = frame.locals.get(k)
        if isinstance(selfobj, SObj):
            ns["self"] = selfobj
            ns["old"] = it.old_self
        y = ctx.ghost.get("yielded")
        ns["yielded"] = y if y is not None else ctx.yielded
        ns["trace"] = ctx.trace
        ctx.ghost["trace"] = ctx.trace
        ns["ghost"] = ctx.ghost
        ns["received"] = ctx.ghost.get("received", [])
        for gk, gv in ctx.ghost.items():
            if isinstance(gk, str) and gk.isidentifier() and gk not in ns:
                ns[gk] = gv
        for gk, gv in it.ghost_old.items():
            ns.setdefault(gk + "__old", gv)
        ns.update(extra)
        return ns

    # preconditions
    for f in con.clause_list("requires"):
        r = eval_clause(it, f, ns_exit({}))
        ctx.assume(ops.truth_term(r))
    ctx.n_pre = len(ctx.pc)
    try:
        try:
            it.frames.append(frame)
            it.depth += 1
            try:
                it.exec_block(node.body, frame)
                result = None
            except ReturnEx as r:
                result = r.value
            finally:
                it.depth -= 1
                it.frames.pop()
        except RaiseEx as r:
            exc = r.exc
            cls = exc.cls
            # find allowed class (most specific first)
            match = None
            for c in cls.__mro__:
                if c in con.raises:
                    match = c
                    break
            line = getattr(ctx, "raise_line", None)
            ctx.exit_src = _line_text(src, line, first)
            line = (line - first) if isinstance(line, int) else None
            ctx.exit_rel = line
            if match is None:
                ctx.oblige(f"{tag}/no-raise.{cls.__name__}", False, meta={"exc": cls.__name__, "line": line}, assume_after=False)
            else:
                cond = con.raises[match]
                if callable(cond):
                    if isinstance(cond, staticmethod):
                        cond = cond.__func__
                    rr = eval_clause(it, cond, ns_exit({"exc": exc}))
                    ctx.oblige(f"{tag}/raises.{match.__name__}", ops.truth_term(rr), meta={"exc": cls.__name__, "line": line}, assume_after=False)
            for f in con.clause_list("exsures"):
                rr = eval_clause(it, f, ns_exit({"exc": exc}))
                ctx.oblige(f"{tag}/exsures.{f.__name__}", ops.truth_term(rr), meta={"exc": cls.__name__}, assume_after=False)
            return ("raise", cls.__name__)
        # normal exit
        el = getattr(ctx, "exit_line", None)
        ctx.exit_src = _line_text(src, el, first)
        ctx.exit_rel = (el - first) if isinstance(el, int) else None
        for f in con.clause_list("ensures"):
            rr = eval_clause(it, f, ns_exit({"result": result}))
            ctx.oblige(f"{tag}/ensures.{f.__name__}", ops.truth_term(rr), assume_after=False)
        # reachability ("cover") clauses: situations the exploration must reach at a normal exit - a guard against
        # vacuous success (a stub or a contradictory assumption silently cutting the interesting paths)
        for f in con.clause_list("covers"):
            rr = eval_clause(it, f, ns_exit({"result": result}))
            ctx.covers.append((f.__name__, list(ctx.pc), z3.simplify(ops.truth_term(rr)) if not isinstance(ops.truth_term(rr), bool) else z3.BoolVal(ops.truth_term(rr))))
        return ("return", None)
    finally:
        env.assumptions_used |= set()


def explore(env, con, max_paths=None):
    rep = FunctionReport(con)
    t0 = time.time()
    try:
        fn, owner = resolve_target(con.target)
    except Exception as e:
        rep.undecided = f"target not found: {e!r}"
        return rep
    try:
        node, filename, first, src = function_ast(fn)
    except Exception as e:
        rep.undecided = f"source not available: {e!r}"
        return rep
    rep.file = filename
    rep.lines = (first, first + src.count("\n"))
    rep.sha256 = hashlib.sha256(src.encode()).hexdigest()
    env.contracts_by_fn[fn] = con
    prefix = []
    max_paths = max_paths or con.max_paths
    while prefix is not None:
        ctx = Ctx(prefix)
        try:
            kind = run_one_path(env, con, fn, ctx)
            if kind[0] == "return":
                rep.exits["return"] += 1
            else:
                rep.exits["raise"][kind[1]] = rep.exits["raise"].get(kind[1], 0) + 1
        except Infeasible:
            rep.infeasible += 1
        except PathEnd:
            rep.exits["cut"] += 1
        except Unsupported as u:
            rep.undecided = f"{u} [path {rep.paths}]"
            rep.obligations.extend(ctx.obligations)
            break
        except RecursionError:
            rep.undecided = "recursion limit in interpreter"
            break
        rep.obligations.extend(ctx.obligations)
        for name, pc, term in getattr(ctx, "covers", []):
            if z3.is_false(term):
                continue
            lst = rep.covers.setdefault(name, [])
            if z3.is_true(term):
                lst.insert(0, (pc, term))
            elif len(lst) < 12:
                lst.append((pc, term))
        rep.paths += 1
        if rep.paths > max_paths:
            rep.undecided = f"more than {max_paths} paths"
            break
        prefix = ctx.next_prefix()
    rep.explore_s = time.time() - t0
    return rep


# ----------------------------------------------------------------------------------------
# spec function summaries and instantiation


def spec_summary(env, s: SpecFn):
    """[(pc_terms, result_term)] over parameter constants s.param_consts"""
    if s.summary is not None:
        return s.summary
    if getattr(s, "uninterpreted", False):
        s.summary = []
        s.param_consts = []
        return s.summary
    consts = [z3.Const(f"sp_{s.name}_{i}", a.z3sort()) for i, a in enumerate(s.args)]
    s.param_consts = consts
    out = []
    prefix = []
    fn = s.fn
    node, *_ = function_ast(fn)
    n = 0
    saved_top, saved_gen = env.top_fn, env.gen_stack
    while prefix is not None:
        ctx = Ctx(prefix)
        ctx.in_spec = True
        it = Interp(ctx, env)
        args = [ops.normalize(it, a.unbox(c)) for a, c in zip(s.args, consts)]
        frame = Frame(fn.__globals__, name=fn.__qualname__, fn=fn)
        for p, v in zip([a.arg for a in node.args.args], args):
            frame.locals[p] = v
        try:
            env.top_fn = None
            try:
                it.exec_block(node.body, frame)
                result = None
            except ReturnEx as r:
                result = r.value
            out.append((list(ctx.pc), s.ret.box(result)))
        except (RaiseEx, PathEnd):
            pass
        finally:
            env.top_fn, env.gen_stack = saved_top, saved_gen
        n += 1
        if n > 200:
            raise Unsupported(f"spec {s.name}: too many paths")
        prefix = ctx.next_prefix()
    s.summary = out
    return out


_unfold_memo = {}  # id of a spec application -> (the application, its defining-equation instances, the applications in them)
_apps_memo = {}  # id of a top-level term -> (the term, kept alive so that the id stays its own; its spec applications)


def find_spec_apps(env, terms):
    """spec-function applications in `terms` (memoised per top-level term: path conditions share most of theirs)"""
    out = []
    got = set()
    nspecs = len(env.spec_decls)
    for t in terms:
        k = (t.get_id(), nspecs)
        hit = _apps_memo.get(k)
        if hit is None:
            hit = (t, _find_spec_apps(env, [t]))
            _apps_memo[k] = hit
        for a in hit[1]:
            i = a.get_id()
            if i not in got:
                got.add(i)
                out.append(a)
    return out


def _find_spec_apps(env, terms):
    seen = set()
    apps = []
    todo = list(terms)
    names = env.spec_decls
    while todo:
        t = todo.pop()
        tid = t.get_id()
        if tid in seen:
            continue
        seen.add(tid)
        if z3.is_app(t):
            if t.decl().name() in names and t.num_args() > 0:
                apps.append(t)
            todo.extend(t.children())
        elif z3.is_quantifier(t):
            todo.append(t.body())
    return apps


def spec_instances(env, terms, extra_fuel=0):
    """ground instances of the defining equations of spec functions applied in `terms`.
    Fuel is per function and per derivation chain: unfolding an application of f lets the
    applications it introduces unfold f one time less; helpers of other names keep their fuel."""
    insts = []
    best = {}  # app id -> budgets under which it was already expanded (dict fname -> remaining)
    frontier = [(a, {}) for a in find_spec_apps(env, terms)]
    rounds = 0
    while frontier and rounds < 12:
        rounds += 1
        nxt = []
        for app, used in frontier:
            s = env.spec_decls[app.decl().name()]
            remaining = s.fuel + extra_fuel - used.get(s.name, 0)
            if remaining <= 0:
                continue
            key = app.get_id()
            if best.get(key, 0) >= remaining:
                continue
            first_time = key not in best
            best[key] = remaining
            used2 = dict(used)
            used2[s.name] = used2.get(s.name, 0) + 1
            hit = _unfold_memo.get(key)
            if hit is None:
                summ = spec_summary(env, s)
                actual = [app.arg(i) for i in range(app.num_args())]
                sub = list(zip(s.param_consts, actual))
                new_terms = []
                for pc, res in summ:
                    body = app == z3.substitute(res, *sub)
                    if pc:
                        cond = z3.substitute(z3.And(*pc) if len(pc) > 1 else pc[0], *sub)
                        body = z3.Implies(cond, body)
                    new_terms.append(body)
                hit = (app, new_terms, find_spec_apps(env, new_terms))  # (app kept alive: its id stays its own)
                _unfold_memo[key] = hit
            if first_time:
                insts.extend(hit[1])
            for a in hit[2]:
                nxt.append((a, used2))
        frontier = nxt
    return insts


_consts_memo = {}


def _consts(t):
    """names of the uninterpreted constants of a term"""
    k = t.get_id()
    r = _consts_memo.get(k)
    if r is not None:
        return r
    out = set()
    seen = set()
    todo = [t]
    while todo:
        x = todo.pop()
        i = x.get_id()
        if i in seen:
            continue
        seen.add(i)
        if z3.is_app(x):
            if x.num_args() == 0 and x.decl().kind() == z3.Z3_OP_UNINTERPRETED:
                out.add(x.decl().name())
            todo.extend(x.children())
        elif z3.is_quantifier(x):
            todo.append(x.body())
    _consts_memo[k] = out
    return out


def obligation_smt2(env, ob: Obligation, extra_fuel=0, negate=True, sliced=False):
    pc = ob.pc
    if sliced == "direct":
        # only the hypotheses that mention a constant of the goal (a subset: sound for validity)
        gs = _consts(ob.goal)
        pc = [t for t in ob.pc if _consts(t) & gs]
        ob = Obligation(ob.clause, ob.goal, pc, ob.path, ob.meta, ob.extra)
    elif sliced:
        # hypotheses since the head of the innermost loop with invariant only (a subset: sound for validity)
        pc = ob.pc[ob.meta["pc_mark"]:]
        ob = Obligation(ob.clause, ob.goal, pc, ob.path, ob.meta, ob.extra)
    terms = list(ob.pc) + [ob.goal]
    insts = spec_instances(env, terms, extra_fuel)
    # facts of the fixed axiom base (section 3.3) that are instantiated on the terms present
    ax = env.axiom_instances(terms + insts) if hasattr(env, "axiom_instances") else []
    from . import seqnorm
    from .seqnorm import rewrite

    del seqnorm.BRIDGES[:]
    s = z3.Solver()
    for t in ob.pc:
        s.add(rewrite(t))
    for t in insts:
        s.add(rewrite(t))
    for t in ax:
        s.add(t)
    g = rewrite(ob.goal)
    seen_b = set()
    for b in list(seqnorm.BRIDGES):
        if b.get_id() not in seen_b:
            seen_b.add(b.get_id())
            s.add(b)
    s.add(z3.Not(g) if negate else g)
    return "(set-logic ALL)\n" + s.to_smt2()
