"""Native replay for C13: the REAL IpPairing.put_characteristics with a scripted reply."""
import asyncio


def ip_mixed_207():
    """write two readable characteristics; the accessory answers 207 with (1,10) accepted (status 0) and (1,11)
    rejected: listeners must hear the new value of (1,10) only"""
    from aiohomekit.controller.ip.pairing import IpPairing

    class Ch:
        perms = ["pr", "pw"]

    class Chars:
        def iid(self, i):
            return Ch()

    class Acc:
        characteristics = Chars()

    class Accs:
        def aid(self, a):
            return Acc()

        def __bool__(self):
            return True

    class Conn:
        async def put_json(self, target, body):
            return {"characteristics": [{"aid": 1, "iid": 10, "status": 0}, {"aid": 1, "iid": 11, "status": -70402}]}

    heard = []
    p = IpPairing.__new__(IpPairing)
    p.connection = Conn()
    p._accessories_state = type("S", (), {"accessories": Accs()})()
    p.listeners = {heard.append}

    async def noop():
        return None

    p._ensure_connected = noop

    async def main():
        return await p.put_characteristics([(1, 10, 5), (1, 11, 6)])

    res = asyncio.run(main())
    return {"heard": heard, "result": res}
