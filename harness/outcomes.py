"""Native replay for C13: the REAL IpPairing.put_characteristics with a scripted reply."""
import asyncio


def ip_mixed_207():
    """write two readable characteristics; the accessory answers 207 with (1,10) accepted (status 0) and (1,11)
    rejected: listeners must hear the new value of (1,10) only"""
    from aiohomekit.controller.ip.pairing import IpPairing

    class Ch:
        perms = ["pr", "pw"]

    class Chars:
        def iid(self, i):
            return Ch()

    class Acc:
        characteristics = Chars()

    class Accs:
        def aid(self, a):
            return Acc()

        def __bool__(self):
            return True

    class Conn:
        async def put_json(self, target, body):
            return {"characteristics": [{"aid": 1, "iid": 10, "status": 0}, {"aid": 1, "iid": 11, "status": -70402}]}

    heard = []
    p = IpPairing.__new__(IpPairing)
    p.connection = Conn()
    p._accessories_state = type("S", (), {"accessories": Accs()})()
    p.listeners = {heard.append}

    async def noop():
        return None

    p._ensure_connected = noop

    async def main():
        return await p.put_characteristics([(1, 10, 5), (1, 11, 6)])

    res = asyncio.run(main())
    return {"heard": heard, "result": res}


# ------------------------------------------------------------------------------------------------- bounded stand-in (IP)


def run(tier="quick", seed=0, tag="C13#native"):
    """the REAL IpPairing.get_characteristics / put_characteristics with scripted accessory replies against a reference
    model of the property.  Bounds: request sets of 1..4 characteristics over accessory ids {1, 2}, permissions readable /
    write-only / timed-write; replies: every vector of per-item statuses over {0, defined HAP codes, their positive-signed
    form, an unknown code, absent}, 204 (empty) vs 207, a request-wide status with a partial list, duplicated, non-dict and
    id-less entries; seeded random selection (quick 400, thorough 3000 exchanges)."""
    import random

    from aiohomekit.controller.ip.pairing import IpPairing
    from aiohomekit.protocol.statuscodes import HapStatusCode

    rnd = random.Random(seed)
    codes = sorted(int(m.value) for m in HapStatusCode if int(m.value) != 0)
    failures, seen, cases = [], set(), 0

    def fail(what, **kw):
        if what not in seen:
            seen.add(what)
            failures.append({"clause": f"{tag}.{what}", "scenario": {k: repr(v)[:400] for k, v in kw.items()}})

    class Ch:
        def __init__(self, perms):
            self.perms = perms

    def world(ids):
        table = {k: Ch(rnd.choice([["pr", "pw"], ["pw"], ["pr", "pw", "tw"], ["pr", "pw", "ev"]])) for k in ids}

        class Chars:
            def __init__(self, aid):
                self.aid_ = aid

            def iid(self, i):
                return table.get((self.aid_, i))

        class Acc:
            def __init__(self, aid):
                self.characteristics = Chars(aid)

        class Accs:
            def aid(self, a):
                return Acc(a)

            def __bool__(self):
                return True

        return table, Accs()

    def mk(reply, accs, heard):
        class Conn:
            async def put_json(self, target, body):
                return reply

            async def get_json(self, url):
                return reply

        p = IpPairing.__new__(IpPairing)
        p.connection = Conn()
        p._accessories_state = type("S", (), {"accessories": accs})()
        p.listeners = {heard.append}

        async def noop():
            return None

        p._ensure_connected = noop
        return p

    def norm(code):
        """the status the library should report: the defined code (sign normalised) or 'unknown'"""
        c = -abs(code)
        return c if c in codes else None

    n = 3000 if tier == "thorough" else 400
    for _ in range(n):
        ids = rnd.sample([(a, i) for a in (1, 2) for i in (10, 11, 12, 13)], rnd.randrange(1, 5))
        table, accs = world(ids)
        # ---- write
        st = {k: rnd.choice([0, 0, "absent", rnd.choice(codes), -rnd.choice(codes), 12345]) for k in ids}
        entries = [{"aid": a, "iid": i, "status": s} for (a, i), s in st.items() if s != "absent"]
        junk = rnd.choice([[], ["x"], [{"status": -70402}], [{"aid": 1}], entries[:1]])
        all_ok = all(s in (0, "absent") for s in st.values())
        reply = {} if (all_ok and rnd.random() < 0.5) else {"characteristics": entries + junk}
        heard = []
        p = mk(reply, accs, heard)
        req = [(a, i, rnd.randrange(100)) for a, i in ids]
        cases += 1
        try:
            res = asyncio.run(p.put_characteristics(req))
        except Exception as e:  # noqa: BLE001
            fail("write-raises", req=req, reply=reply, raised=e)
            continue
        for (a, i, v) in req:
            s = st[(a, i)]
            rejected = s not in (0, "absent")
            if rejected:
                got = res.get((a, i))
                if not got or got.get("status") in (0, None):
                    fail("rejected-write-presented-as-written", req=req, reply=reply, result=res)
                elif got.get("status") not in (s, norm(s)):  # (the accessory's status, as sent or sign-normalised)
                    fail("wrong-status-for-rejected-write", req=req, reply=reply, result=res)
            elif (a, i) in res and res[(a, i)].get("status") not in (0, None):
                fail("accepted-write-reported-with-error", req=req, reply=reply, result=res)
        want = {(a, i): {"value": v} for a, i, v in req if st[(a, i)] in (0, "absent") and "pr" in table[(a, i)].perms}
        got_heard = {}
        for h in heard:
            got_heard.update(h)
        if got_heard != want or len(heard) > 1:
            fail("listeners-not-exactly-the-accepted-readable-ones", req=req, reply=reply, heard=heard, want=want)
        # ---- read
        vals = {k: rnd.choice([("value", rnd.randrange(50)), ("status", rnd.choice(codes)), ("status", -rnd.choice(codes)), ("absent", None)]) for k in ids}
        entries = []
        for (a, i), (kind, x) in vals.items():
            if kind == "value":
                entries.append({"aid": a, "iid": i, "value": x})
            elif kind == "status":
                entries.append({"aid": a, "iid": i, "status": x})
        gstatus = rnd.choice([None, None, rnd.choice(codes)])
        reply = {"characteristics": entries + rnd.choice([[], ["x"], [{"value": 1}], entries[:1]])}
        if gstatus is not None:
            reply["status"] = gstatus
        p = mk(reply, accs, [])
        cases += 1
        try:
            res = asyncio.run(p.get_characteristics(ids))
        except Exception as e:  # noqa: BLE001
            fail("read-raises", ids=ids, reply=reply, raised=e)
            continue
        for k, (kind, x) in vals.items():
            got = res.get(k)
            if kind == "value" and (not got or got.get("value") != x):
                fail("read-value-lost", ids=ids, reply=reply, result=res)
            if kind == "status" and (not got or got.get("status") not in (x, norm(x))):
                fail("read-status-not-reported", ids=ids, reply=reply, result=res)
            if kind == "absent" and gstatus is not None and (not got or got.get("status") not in (gstatus, norm(gstatus))):
                fail("request-wide-status-not-applied-to-unmentioned", ids=ids, reply=reply, result=res)
    return {"cases": cases, "failures": failures, "bound": f"{n} random write + read exchanges over 1..4 characteristics, IP transport only"}


if __name__ == "__main__":
    import json
    import sys

    print(json.dumps(run(sys.argv[1] if len(sys.argv) > 1 else "quick"), indent=1)[:3000])
