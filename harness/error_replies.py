"""Native bounded stand-in for C04: the REAL pair-verify / pair-resume / pair-setup state machines against the independent
accessory of harness/hap_accessory.py answering, at each step, with an Error item (with and without a State item) or a
wrong State: the exchange must never complete as success and must raise a library exception class.
Bound: the table of variants below x (verify, resume, setup)."""


def run(tier="quick", seed=0, tag="C04#native"):
    from aiohomekit import exceptions as X
    from aiohomekit.protocol import get_session_keys, perform_pair_setup_part1, perform_pair_setup_part2

    from harness import hap_accessory as H

    cases, failures, seen = 0, [], set()

    def fail(what, **kw):
        if what not in seen:
            seen.add(what)
            failures.append({"clause": f"{tag}.{what}", "scenario": {k: repr(v)[:300] for k, v in kw.items()}})

    lib = tuple(c for c in vars(X).values() if isinstance(c, type) and issubclass(c, X.HomeKitException))

    def check(out, where):
        nonlocal cases
        cases += 1
        if out.get("outcome") in ("keys", "paired"):
            fail("error-reply-completed-as-success", where=where, out=out)
        elif out.get("outcome") == "hang":
            fail("state-machine-asked-for-more", where=where, out=out)
        elif out.get("outcome") == "raised":
            cls = getattr(X, out["exception"], None)
            if cls is None or not issubclass(cls, lib):
                fail("not-a-library-exception", where=where, out=out)

    for v in ("error_auth", "error_no_state", "wrong_state", "m4_error", "m4_error_no_state", "m4_wrong_state"):
        check(H.run_verify(get_session_keys, v), f"verify/{v}")
    for v in ("resume_with_error", "resume_error_no_state", "resume_wrong_state"):
        check(H.run_verify(get_session_keys, v, resume=True), f"resume/{v}")
    for v in [x for x in H.SETUP_BAD_M2 + H.SETUP_BAD_M4 + H.SETUP_BAD_M6 if "error" in x or "state" in x]:
        check(H.run_setup(perform_pair_setup_part1, perform_pair_setup_part2, v), f"setup/{v}")
    # and the honest runs complete (the table is not vacuous)
    cases += 2
    if H.run_verify(get_session_keys).get("outcome") != "keys":
        fail("honest-verify-does-not-complete")
    if H.run_setup(perform_pair_setup_part1, perform_pair_setup_part2).get("outcome") != "paired":
        fail("honest-setup-does-not-complete")
    return {"cases": cases, "failures": failures, "bound": "error / wrong-state replies at every step of verify, resume and setup (scripted accessory)"}


if __name__ == "__main__":
    import json

    print(json.dumps(run(), indent=1)[:2500])
