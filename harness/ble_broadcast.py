"""Native bounded stand-in / replay for C18: the REAL BleController._device_detected -> BlePairing._async_notification
path, fed with histories of advertisements sealed by an independent implementation (cryptography's ChaCha20-Poly1305,
tag cut to 4 bytes), against a reference model of the property.

Bounds: histories of 12 (quick) / 40 (thorough) advertisements from 5 starting state numbers x seeds; event kinds: genuine
last+1, last+k (k < 100), replay of last, older, beyond the window, wrong key, wrong advertising id, single-bit
corruption of payload or tag, inner counter != nonce counter; every format with random values."""
import asyncio
import logging
import random
import struct

APPLE = 76
HKID = "aa:bb:cc:dd:ee:ff"
ADDRESS = "AA:BB:CC:DD:EE:FF"
ADV_ID = bytes.fromhex("aabbccddeeff")
KEY = bytes(range(0x40, 0x60))
CHARS = {10: "bool", 11: "uint8", 12: "uint16", 13: "uint32", 14: "uint64", 15: "int", 16: "float", 17: "string", 18: "data"}


def seal(key, adv_id, nonce_gsn, inner_gsn, iid, value):
    from cryptography.hazmat.primitives.ciphers.aead import ChaCha20Poly1305

    pt = struct.pack("<HH", inner_gsn % 65536, iid) + value.ljust(8, b"\x00")
    sealed = ChaCha20Poly1305(key).encrypt(b"\x00\x00\x00\x00" + struct.pack("<Q", nonce_gsn), pt, adv_id)
    return sealed[:12] + sealed[12:16]


def rand_value(fmt, rnd):
    if fmt == "bool":
        v = rnd.choice([True, False])
        return (b"\x01" if v else b"\x00"), v
    if fmt in ("uint8", "uint16", "uint32", "uint64"):
        w = {"uint8": 1, "uint16": 2, "uint32": 4, "uint64": 8}[fmt]
        v = rnd.choice([0, 1, 256 ** w - 1, rnd.randrange(256 ** w)])
        return v.to_bytes(w, "little"), v
    if fmt == "int":
        v = rnd.choice([0, -1, 2 ** 31 - 1, -(2 ** 31), rnd.randrange(-(2 ** 31), 2 ** 31)])
        return v.to_bytes(4, "little", signed=True), v
    if fmt == "float":
        v = struct.unpack("<f", struct.pack("<f", rnd.uniform(-1000, 1000)))[0]
        return struct.pack("<f", v), v
    if fmt == "string":
        s = "".join(rnd.choice("abcXYZ09") for _ in range(8))
        return s.encode(), s
    b = bytes(rnd.randrange(256) for _ in range(8))
    return b, b.hex()


class Rig:
    def __init__(self, last):
        from bleak.backends.device import BLEDevice

        from aiohomekit.characteristic_cache import CharacteristicCacheMemory
        from aiohomekit.controller.ble.controller import BleController

        chars = [{"iid": iid, "type": f"0000{iid:04X}-1234-5678-9ABC-DEF012345678", "perms": ["pr", "ev"], "format": fmt, "broadcast_events": True} for iid, fmt in CHARS.items()]
        em = [{"aid": 1, "services": [{"iid": 1, "type": "0000AAAA-1234-5678-9ABC-DEF012345678", "characteristics": chars}]}]
        cache = CharacteristicCacheMemory()
        cache.async_create_or_update_map(HKID, 1, em, KEY.hex(), last)
        self.controller = BleController(cache)
        self.pairing = self.controller.load_pairing("alias", {"AccessoryPairingID": HKID, "AccessoryAddress": ADDRESS, "Connection": "BLE"})
        self.calls = []
        self.pairing.listeners.add(self.calls.append)
        self.polls = 0
        self.pairing._process_disconnected_events = self._poll  # (the fallback would need a radio)
        self.device = BLEDevice(ADDRESS, "Acc", None)

    def _poll(self):
        self.polls += 1

    def feed(self, data):
        from bleak.backends.scanner import AdvertisementData

        n = len(self.calls)
        adv = AdvertisementData(local_name="Acc", manufacturer_data={APPLE: data}, service_data={}, service_uuids=[], rssi=-60, platform_data=((),), tx_power=-127)
        self.controller._device_detected(self.device, adv)
        return self.calls[n:]


def run(tier="quick", seed=0, tag="C18#native"):
    logging.disable(logging.CRITICAL)
    rnd = random.Random(seed)
    cases = 0
    failures = []
    seen = set()

    def fail(what, **kw):
        if what not in seen:
            seen.add(what)
            failures.append({"clause": f"{tag}.{what}", "scenario": {k: repr(v)[:300] for k, v in kw.items()}})

    async def go():
        nonlocal cases
        steps = 40 if tier == "thorough" else 12
        for start in (1, 2, 300, 40000, 60000):
            for rep in range(6 if tier == "thorough" else 2):
                rig = Rig(start)
                last = start
                sent = {}  # state number -> advertisement accepted or seen
                for step in range(steps):
                    kind = rnd.choice(["next", "ahead", "replay", "older", "beyond", "wrong-key", "wrong-id", "flip", "inner", "next"])
                    iid = rnd.choice(list(CHARS))
                    vb, want_v = rand_value(CHARS[iid], rnd)
                    accept = None
                    if kind == "next":
                        g = last + 1
                        data, accept = bytes([0x11, 0x36]) + ADV_ID + seal(KEY, ADV_ID, g, g, iid, vb), g
                    elif kind == "ahead":
                        g = last + rnd.randrange(2, 100)
                        data, accept = bytes([0x11, 0x36]) + ADV_ID + seal(KEY, ADV_ID, g, g, iid, vb), g
                    elif kind == "replay":
                        data = sent.get(last) or bytes([0x11, 0x36]) + ADV_ID + seal(KEY, ADV_ID, last, last, iid, vb)
                    elif kind == "older":
                        g = max(0, last - rnd.randrange(1, 50))
                        data = sent.get(g) or bytes([0x11, 0x36]) + ADV_ID + seal(KEY, ADV_ID, g, g, iid, vb)
                    elif kind == "beyond":
                        g = last + rnd.randrange(100, 400)
                        data = bytes([0x11, 0x36]) + ADV_ID + seal(KEY, ADV_ID, g, g, iid, vb)
                    elif kind == "wrong-key":
                        g = last + 1
                        data = bytes([0x11, 0x36]) + ADV_ID + seal(bytes(32), ADV_ID, g, g, iid, vb)
                    elif kind == "wrong-id":
                        # sealed for another advertising id but presented under ours (the AAD differs)
                        g = last + 1
                        data = bytes([0x11, 0x36]) + ADV_ID + seal(KEY, bytes(6), g, g, iid, vb)
                    elif kind == "flip":
                        g = last + 1
                        s = bytearray(seal(KEY, ADV_ID, g, g, iid, vb))
                        bit = rnd.randrange(128)
                        s[bit // 8] ^= 1 << (bit % 8)
                        data = bytes([0x11, 0x36]) + ADV_ID + bytes(s)
                    else:  # inner counter disagrees with the nonce
                        g = last + 1
                        data = bytes([0x11, 0x36]) + ADV_ID + seal(KEY, ADV_ID, g, g + rnd.choice([-1, 1, 7]), iid, vb)
                    cases += 1
                    before = rig.pairing.description.state_num
                    try:
                        got = rig.feed(data)
                    except Exception as e:  # noqa: BLE001
                        fail("raises", kind=kind, start=start, step=step, raised=e)
                        break
                    now = rig.pairing.description.state_num
                    if accept is None:
                        if got or now != before:
                            fail("accepted-what-must-be-ignored", kind=kind, last=last, heard=got, state=(before, now), history_step=step)
                    else:
                        want = [{(1, iid): {"value": want_v}}]
                        if got != want or (got and type(got[0][(1, iid)]["value"]) is not type(want_v)):
                            fail("wrong-delivery", kind=kind, fmt=CHARS[iid], heard=got, want=want)
                        if now != accept:
                            fail("state-number-not-advanced", kind=kind, state=(before, now), want=accept)
                        last = accept
                        sent[accept] = data
                    if now < before:
                        fail("state-number-went-back", state=(before, now))

    asyncio.run(go())
    return {"cases": cases, "failures": failures, "bound": "5 starting state numbers x 2 (6) histories of 12 (40) advertisements, seeded"}


if __name__ == "__main__":
    import json
    import sys

    print(json.dumps(run(sys.argv[1] if len(sys.argv) > 1 else "quick"), indent=1)[:2500])
