"""Native bounded stand-in for C08: the REAL InsecureHomeKitProtocol on a real asyncio loop with a fake transport
and a fake accessory that answers written requests FIFO.  All action sequences up to a depth over
{issue request, accessory answers next, accessory sends EVENT, cancel caller, 30 s timer fires, peer closes,
let the loop run one step} with two concurrent callers.  Oracle: a caller that completes normally holds the
response to ITS request; after the final peer close every caller has finished."""
import asyncio
import itertools


class Transport:
    def __init__(self, loop):
        self.loop = loop
        self.closed = False
        self.written = []  # request ids in wire order
        self.protocol = None

    def is_closing(self):
        return self.closed

    def writelines(self, lines):
        data = b"".join(bytes(x) for x in lines)
        self.written.append(data.split(b" ")[1].decode())

    def write(self, data):
        self.writelines([data])

    def write_eof(self):
        pass

    def close(self):
        if not self.closed:
            self.closed = True
            self.loop.call_soon(self.protocol.connection_lost, None)


class Conn:
    def __init__(self):
        self.events = 0
        self.lost = 0
        self.transport = None  # (the owner's current transport: connection_lost compares against it)

    def event_received(self, ev):
        self.events += 1

    def _connection_lost(self, exc):
        self.lost += 1


def http(body):
    return b"HTTP/1.1 200 OK\r\nContent-Type: application/hap+json\r\nContent-Length: %d\r\n\r\n%s" % (len(body), body)


EVENT = b"EVENT/1.0 200 OK\r\nContent-Type: application/hap+json\r\nContent-Length: 2\r\n\r\n{}"

ACTIONS = ["req0", "req1", "resp", "event", "cancel0", "cancel1", "timeout0", "timeout1", "step", "peer_close"]


async def run_sequence(seq):
    from aiohomekit.controller.ip.connection import InsecureHomeKitProtocol

    loop = asyncio.get_running_loop()
    conn = Conn()
    p = InsecureHomeKitProtocol(conn)
    t = Transport(loop)
    t.protocol = p
    conn.transport = t
    p.connection_made(t)
    tasks = {}
    futs = {}
    answered = 0
    for a in seq + ["step", "step", "peer_close", "step", "step", "step"]:
        if a.startswith("req"):
            i = a[3:]
            if i in tasks:
                continue
            n_before = len(p.result_cbs)
            tasks[i] = asyncio.ensure_future(p.send_bytes(("GET /%s HTTP/1.1\r\n\r\n" % i).encode()))
            await asyncio.sleep(0)
            if len(p.result_cbs) > n_before:
                futs[i] = p.result_cbs[-1]
        elif a == "resp":
            if answered < len(t.written) and not t.closed:
                rid = t.written[answered]
                answered += 1
                try:
                    p.data_received(http(rid.strip("/").encode()))
                except Exception:  # asyncio closes the transport when data_received raises
                    t.close()
        elif a == "event":
            if not t.closed:
                try:
                    p.data_received(EVENT)
                except Exception:
                    t.close()
        elif a.startswith("cancel"):
            i = a[6:]
            if i in tasks:
                tasks[i].cancel()
        elif a.startswith("timeout"):
            i = a[7:]
            if i in futs:
                p._handle_timeout(futs[i])
        elif a == "peer_close":
            if not t.closed:
                t.closed = True
                p.connection_lost(None)
        elif a == "step":
            await asyncio.sleep(0)
    problems = []
    for i, task in tasks.items():
        if not task.done():
            problems.append(f"request {i} still pending after the connection was closed")
            task.cancel()
            continue
        if task.cancelled() or task.exception() is not None:
            continue
        body = bytes(task.result().body)
        if body != i.encode():
            problems.append(f"request {i} completed with the response to request {body.decode()!r}")
    return problems


def run(tier="quick", seed=0, tag="C08/ip#native"):
    depth = 4 if tier == "quick" else 5
    cases = 0
    failures = []

    async def main():
        nonlocal cases
        for d in range(1, depth + 1):
            for seq in itertools.product(ACTIONS, repeat=d):
                if "req0" not in seq and "req1" not in seq:
                    continue
                cases += 1
                probs = await run_sequence(list(seq))
                if probs and len(failures) < 3:
                    failures.append({"clause": f"{tag}.schedule", "scenario": {"actions": list(seq), "problems": probs}})
                if len(failures) >= 3:
                    return

    asyncio.run(main())
    return {"cases": cases, "distinct": cases, "failures": failures, "bound": f"all action sequences of length <= {depth} over {ACTIONS} with two concurrent callers"}
