"""Native replay for the CoAP EncryptionContext counter heuristics (C06): real EncryptionContext, real keys."""
import asyncio
import os
import struct

from cryptography.hazmat.primitives.ciphers.aead import ChaCha20Poly1305


class _Msg:
    def __init__(self, payload):
        self.payload = payload


class _Ctx:
    async def shutdown(self):
        pass


def _nonce(n):
    return struct.pack("=4xQ", n)


def rewind_replay():
    """history: responses 0..6 accepted (recv_ctr = 7); the attacker re-delivers genuine response 5."""
    from aiohomekit.controller.coap.connection import EncryptionContext

    rk, sk, ek = os.urandom(32), os.urandom(32), os.urandom(32)
    ctx = EncryptionContext(ChaCha20Poly1305(rk), ChaCha20Poly1305(sk), ChaCha20Poly1305(ek), "coap://x/", _Ctx())
    genuine = [ChaCha20Poly1305(rk).encrypt(_nonce(i), b"response %d" % i, b"") for i in range(8)]
    for i in range(7):
        assert ctx.decrypt(genuine[i]) == b"response %d" % i
    before = ctx.recv_ctr
    try:
        out = asyncio.run(ctx._decrypt_response(_Msg(genuine[5])))
    except Exception as e:  # noqa: BLE001
        return {"accepted": False, "raised": repr(e)}
    return {"accepted": True, "replayed_response": 5, "returned": out.decode(), "recv_ctr_before": before, "recv_ctr_after": ctx.recv_ctr}


def zeroing_reuses_nonce():
    """history: 20 requests sent/answered; a response sealed under nonce 0 (e.g. from a rebooted accessory, or a
    replay of response 0) zeroes BOTH counters: the next request is sealed under nonce 0 of the same key again."""
    from aiohomekit.controller.coap.connection import EncryptionContext

    rk, sk, ek = os.urandom(32), os.urandom(32), os.urandom(32)
    ctx = EncryptionContext(ChaCha20Poly1305(rk), ChaCha20Poly1305(sk), ChaCha20Poly1305(ek), "coap://x/", _Ctx())
    first = ctx.encrypt(b"request 0")
    for i in range(1, 20):
        ctx.encrypt(b"request %d" % i)
    ctx.recv_ctr = 20
    resp0 = ChaCha20Poly1305(rk).encrypt(_nonce(0), b"response 0", b"")
    before = ctx.send_ctr
    try:
        asyncio.run(ctx._decrypt_response(_Msg(resp0)))
    except Exception as e:  # noqa: BLE001
        return {"accepted": False, "raised": repr(e)}
    again = ctx.encrypt(b"request X")
    reused = ChaCha20Poly1305(sk).decrypt(_nonce(0), again, b"") == b"request X"
    return {"accepted": True, "send_ctr_before": before, "send_ctr_after_response": 0, "nonce0_used_twice_under_send_key": reused}
