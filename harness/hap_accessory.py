"""A specification-conformant accessory for Pair Setup / Pair Verify / Pair Resume, written from the HAP
specification and RFC 5054/2945 with `cryptography`, hashlib and Python ints only (nothing imported
from aiohomekit or its test accessory).  Used to REPLAY refuted obligations on the real state machines
and as the labelled bounded stand-in (scenario table): honest run, and adversarial variants that the
controller must reject."""
from __future__ import annotations

import hashlib
import os

from cryptography.exceptions import InvalidSignature, InvalidTag
from cryptography.hazmat.primitives import hashes, serialization
from cryptography.hazmat.primitives.asymmetric import ed25519, x25519
from cryptography.hazmat.primitives.ciphers.aead import ChaCha20Poly1305
from cryptography.hazmat.primitives.kdf.hkdf import HKDF

RAW = (serialization.Encoding.Raw, serialization.PublicFormat.Raw)

# RFC 5054 appendix A, 3072-bit group (= RFC 3526 group 15): N = 2^3072 - 2^3008 - 1 + 2^64 * ([2^2942 pi] + 1690314)
N_HEX = """
FFFFFFFF FFFFFFFF C90FDAA2 2168C234 C4C6628B 80DC1CD1 29024E08 8A67CC74 020BBEA6 3B139B22 514A0879 8E3404DD
EF9519B3 CD3A431B 302B0A6D F25F1437 4FE1356D 6D51C245 E485B576 625E7EC6 F44C42E9 A637ED6B 0BFF5CB6 F406B7ED
EE386BFB 5A899FA5 AE9F2411 7C4B1FE6 49286651 ECE45B3D C2007CB8 A163BF05 98DA4836 1C55D39A 69163FA8 FD24CF5F
83655D23 DCA3AD96 1C62F356 208552BB 9ED52907 7096966D 670C354E 4ABC9804 F1746C08 CA18217C 32905E46 2E36CE3B
E39E772C 180E8603 9B2783A2 EC07A28F B5C55DF0 6F4C52C9 DE2BCBF6 95581718 3995497C EA956AE5 15D22618 98FA0510
15728E5A 8AAAC42D AD33170D 04507A33 A85521AB DF1CBA64 ECFB8504 58DBEF0A 8AEA7157 5D060C7D B3970F85 A6E1E4C7
ABF5AE8C DB0933D7 1E8C94E0 4A25619D CEE3D226 1AD2EE6B F12FFA06 D98A0864 D8760273 3EC86A64 521F2B18 177B200C
BBE11757 7A615D6C 770988C0 BAD946E2 08E24FA0 74E5AB31 43DB5BFC E0FD108E 4B82D120 A93AD2CA FFFFFFFF FFFFFFFF
"""
N = int("".join(N_HEX.split()), 16)
G = 5
L = 384


def H(*parts):
    return hashlib.sha512(b"".join(bytes(p) for p in parts)).digest()


def PAD(n, length=L):
    return n.to_bytes(length, "big")


def minbytes(n):
    return n.to_bytes((n.bit_length() + 7) // 8, "big")


def hkdf(ikm, salt, info, n=32):
    return HKDF(algorithm=hashes.SHA512(), length=n, salt=salt, info=info).derive(bytes(ikm))


def seal(key, nonce8, pt, aad=b""):
    return ChaCha20Poly1305(key).encrypt(bytes(4) + nonce8, bytes(pt), aad)


def unseal(key, nonce8, ct, aad=b""):
    return ChaCha20Poly1305(key).decrypt(bytes(4) + nonce8, bytes(ct), aad)


def tlv(items):
    out = bytearray()
    for k, v in items:
        v = bytes(v)
        if not v:
            out += bytes([k, 0])
        while v:
            out += bytes([k, min(255, len(v))]) + v[:255]
            v = v[255:]
    return bytes(out)


def untlv(b):
    out = []
    b = bytes(b)
    while b:
        k, n = b[0], b[1]
        v = b[2:2 + n]
        b = b[2 + n:]
        if out and out[-1][0] == k:
            out[-1][1] += v
        else:
            out.append([k, bytearray(v)])
    return out


class SrpAccessory:
    """RFC 5054 server side with HomeKit parameters (SHA-512, 3072-bit group, user 'Pair-Setup')."""

    def __init__(self, pin, salt=None, b=None, user=b"Pair-Setup"):
        self.I = user
        self.P = pin.encode()
        self.s = salt if salt is not None else os.urandom(16)
        self.b = b if b is not None else int.from_bytes(os.urandom(32), "big")
        self.k = int.from_bytes(H(PAD(N), PAD(G)), "big")
        self.x = int.from_bytes(H(self.s, H(self.I, b":", self.P)), "big")
        self.v = pow(G, self.x, N)
        self.B = (self.k * self.v + pow(G, self.b, N)) % N

    def finish(self, A_bytes):
        self.A = int.from_bytes(A_bytes, "big")
        u = int.from_bytes(H(PAD(self.A), PAD(self.B)), "big")
        self.S = pow(self.A * pow(self.v, u, N), self.b, N)
        self.K = H(PAD(self.S))
        hN, hg = H(PAD(N)), H(minbytes(G))
        # HAP reference implementations hash N as 384 bytes and g unpadded (0x05)
        self.M1 = H(bytes(a ^ c for a, c in zip(H(minbytes(N)), H(minbytes(G)))), H(self.I), self.s, PAD(self.A), PAD(self.B), self.K)
        self.M2 = H(PAD(self.A), self.M1, self.K)


class Accessory:
    def __init__(self, acc_id=b"AA:BB:CC:DD:EE:FF", pin="111-22-333"):
        self.ltsk = ed25519.Ed25519PrivateKey.generate()
        self.ltpk = self.ltsk.public_key().public_bytes(*RAW)
        self.acc_id = acc_id
        self.pin = pin
        self.paired = {}  # ios id -> ltpk

    # ---- pair verify (accessory side) -------------------------------------------------
    def verify_m2(self, m1, variant="honest"):
        d = dict((k, bytes(v)) for k, v in m1)
        self.ios_pk = d[3]
        sk = x25519.X25519PrivateKey.generate()
        self.acc_pk = sk.public_key().public_bytes(*RAW)
        self.shared = sk.exchange(x25519.X25519PublicKey.from_public_bytes(self.ios_pk))
        self.enc_key = hkdf(self.shared, b"Pair-Verify-Encrypt-Salt", b"Pair-Verify-Encrypt-Info")
        info = self.acc_pk + self.acc_id + self.ios_pk
        signer = self.ltsk
        ident = self.acc_id
        key = self.enc_key
        nonce = b"PV-Msg02"
        if variant == "wrong_ltsk":
            signer = ed25519.Ed25519PrivateKey.generate()
        if variant == "permuted_transcript":
            info = self.ios_pk + self.acc_id + self.acc_pk
        if variant == "other_exchange":
            info = self.acc_pk + self.acc_id + os.urandom(32)
        if variant == "wrong_id_signed":
            ident = b"11:22:33:44:55:66"
            info = self.acc_pk + ident + self.ios_pk
        if variant == "case_variant_id_signed":
            ident = self.acc_id.lower()
            info = self.acc_pk + ident + self.ios_pk
        if variant == "id_mismatch_unsigned":
            ident = b"11:22:33:44:55:66"
        if variant == "wrong_enc_key":
            key = os.urandom(32)
        if variant == "wrong_nonce":
            nonce = b"PV-Msg03"
        sig = signer.sign(info)
        if variant == "sig_bitflip":
            sig = bytes([sig[0] ^ 1]) + sig[1:]
        sub = [(1, ident), (10, sig)]
        if variant == "no_signature":
            sub = [(1, ident)]
        if variant == "no_identifier":
            sub = [(10, sig)]
        enc = seal(key, nonce, tlv(sub))
        if variant == "ct_bitflip":
            enc = bytes([enc[0] ^ 1]) + enc[1:]
        if variant == "tag_bitflip":
            enc = enc[:-1] + bytes([enc[-1] ^ 0x80])
        if variant == "truncated":
            enc = enc[:-1]
        pk = self.acc_pk
        if variant == "pk_bitflip":
            pk = bytes([pk[0] ^ 1]) + pk[1:]
        if variant == "short_pk":
            pk = pk[:31]
        m2 = [[6, bytearray(b"\x02")], [3, bytearray(pk)], [5, bytearray(enc)]]
        if variant == "no_pk":
            m2 = [m2[0], m2[2]]
        if variant == "no_enc":
            m2 = m2[:2]
        if variant == "error_auth":
            m2 = [[6, bytearray(b"\x02")], [7, bytearray(b"\x02")]]
        if variant == "error_no_state":
            m2 = [[7, bytearray(b"\x02")], [3, bytearray(pk)], [5, bytearray(enc)]]
        if variant == "wrong_state":
            m2[0][1] = bytearray(b"\x04")
        return m2

    def verify_m4(self, m3, ios_id, ios_ltpk, variant="honest"):
        """returns (reply, accepted: bool) - the accessory-side acceptance of the controller's proof"""
        d = dict((k, bytes(v)) for k, v in m3)
        try:
            pt = unseal(self.enc_key, b"PV-Msg03", d[5])
            sub = dict((k, bytes(v)) for k, v in untlv(pt))
            ok = sub[1] == ios_id
            ed25519.Ed25519PublicKey.from_public_bytes(ios_ltpk).verify(sub[10], self.ios_pk + sub[1] + self.acc_pk)
        except (InvalidTag, InvalidSignature, KeyError):
            ok = False
        self.accepted_m3 = ok and d.get(6) == b"\x03"
        if variant == "m4_error":
            return [[6, bytearray(b"\x04")], [7, bytearray(b"\x02")]]
        if variant == "m4_error_no_state":
            return [[7, bytearray(b"\x02")]]
        if variant == "m4_wrong_state":
            return [[6, bytearray(b"\x02")]]
        return [[6, bytearray(b"\x04")]]

    def session_keys(self):
        return (
            hkdf(self.shared, b"Control-Salt", b"Control-Write-Encryption-Key"),
            hkdf(self.shared, b"Control-Salt", b"Control-Read-Encryption-Key"),
            hkdf(self.shared, b"Event-Salt", b"Event-Read-Encryption-Key"),
        )

    # ---- pair resume -------------------------------------------------------------------
    def resume_m2(self, m1, prev_secret, prev_session_id, variant="honest"):
        d = dict((k, bytes(v)) for k, v in m1)
        ios_pk, sid, tag = d[3], d[14], d[5]
        self.resume_request_ok = d.get(0) == b"\x06" and sid == prev_session_id
        try:
            unseal(hkdf(prev_secret, ios_pk + sid, b"Pair-Resume-Request-Info"), b"PR-Msg01", tag)
        except InvalidTag:
            self.resume_request_ok = False
        new_sid = os.urandom(8)
        secret = prev_secret if variant != "resume_wrong_secret" else os.urandom(32)
        key = hkdf(secret, ios_pk + new_sid, b"Pair-Resume-Response-Info")
        rtag = seal(key, b"PR-Msg02", b"")
        if variant == "resume_tag_bitflip":
            rtag = bytes([rtag[0] ^ 1]) + rtag[1:]
        if variant == "resume_nonempty_plaintext":
            rtag = seal(key, b"PR-Msg02", b"x")
        self.shared = hkdf(prev_secret, ios_pk + new_sid, b"Pair-Resume-Shared-Secret-Info")
        self.new_sid = new_sid
        m2 = [[6, bytearray(b"\x02")], [0, bytearray(b"\x06")], [14, bytearray(new_sid)], [5, bytearray(rtag)]]
        if variant == "resume_wrong_method":
            m2[1][1] = bytearray(b"\x02")
        if variant == "resume_with_error":
            m2.append([7, bytearray(b"\x02")])
        if variant == "resume_error_no_state":
            m2 = m2[1:] + [[7, bytearray(b"\x05")]]
        if variant == "resume_wrong_state":
            m2[0][1] = bytearray(b"\x04")
        return m2

    # ---- pair setup (accessory side) ---------------------------------------------------
    def setup_m2(self, variant="honest", salt=None, b=None):
        pin = self.pin if variant != "wrong_code_accessory" else "999-99-999"
        self.srp = SrpAccessory(pin, salt=salt, b=b)
        m2 = [[6, bytearray(b"\x02")], [3, bytearray(PAD(self.srp.B))], [2, bytearray(self.srp.s)]]
        if variant == "m2_error_unavailable":
            m2 = [[6, bytearray(b"\x02")], [7, bytearray(b"\x06")]]
        if variant == "m2_error_no_state":
            m2 = [[7, bytearray(b"\x06")], [3, bytearray(PAD(self.srp.B))], [2, bytearray(self.srp.s)]]
        if variant == "m2_no_salt":
            m2 = m2[:2]
        if variant == "m2_no_pk":
            m2 = [m2[0], m2[2]]
        return m2

    def setup_m4(self, m3, variant="honest"):
        d = dict((k, bytes(v)) for k, v in m3)
        self.srp.finish(d[3])
        self.m3_proof_ok = d[4] == self.srp.M1 and len(d[3]) == L
        proof = self.srp.M2
        if variant == "m4_proof_bitflip":
            proof = bytes([proof[0] ^ 1]) + proof[1:]
        if variant == "m4_proof_low_bitflip":
            proof = proof[:-1] + bytes([proof[-1] ^ 1])
        if variant == "m4_proof_suffix16":
            proof = proof[-16:]
        if variant == "m4_proof_last_byte":
            proof = proof[-1:]
        if variant == "m4_proof_empty":
            proof = b""
        if variant == "m4_proof_prefix16":
            proof = proof[:16]
        m4 = [[6, bytearray(b"\x04")], [4, bytearray(proof)]]
        if variant == "m4_error_auth":
            m4 = [[6, bytearray(b"\x04")], [7, bytearray(b"\x02")]]
        if variant == "m4_no_proof":
            m4 = [[6, bytearray(b"\x04")]]
        return m4

    def setup_m6(self, m5, variant="honest"):
        d = dict((k, bytes(v)) for k, v in m5)
        K = self.srp.K
        enc_key = hkdf(K, b"Pair-Setup-Encrypt-Salt", b"Pair-Setup-Encrypt-Info")
        self.m5_accepted = False
        try:
            sub = dict((k, bytes(v)) for k, v in untlv(unseal(enc_key, b"PS-Msg05", d[5])))
            ios_x = hkdf(K, b"Pair-Setup-Controller-Sign-Salt", b"Pair-Setup-Controller-Sign-Info")
            ed25519.Ed25519PublicKey.from_public_bytes(sub[3]).verify(sub[10], ios_x + sub[1] + sub[3])
            self.m5_accepted = d.get(6) == b"\x05"
            self.ios_id, self.ios_ltpk = sub[1], sub[3]
        except (InvalidTag, InvalidSignature, KeyError, ValueError):
            pass
        acc_x = hkdf(K, b"Pair-Setup-Accessory-Sign-Salt", b"Pair-Setup-Accessory-Sign-Info")
        signer = self.ltsk
        ident, ltpk = self.acc_id, self.ltpk
        info = acc_x + ident + ltpk
        key, nonce = enc_key, b"PS-Msg06"
        if variant == "m6_wrong_signer":
            signer = ed25519.Ed25519PrivateKey.generate()
        if variant == "m6_sig_other_id":
            info = acc_x + b"11:22:33:44:55:66" + ltpk
        if variant == "m6_sig_other_key":
            info = acc_x + ident + os.urandom(32)
        if variant == "m6_wrong_enc_key":
            key = os.urandom(32)
        if variant == "m6_wrong_nonce":
            nonce = b"PS-Msg05"
        sig = signer.sign(info)
        if variant == "m6_sig_bitflip":
            sig = sig[:-1] + bytes([sig[-1] ^ 1])
        sub = [(1, ident), (3, ltpk), (10, sig)]
        if variant == "m6_no_sig":
            sub = sub[:2]
        if variant == "m6_no_id":
            sub = sub[1:]
        if variant == "m6_no_ltpk":
            sub = [sub[0], sub[2]]
        enc = seal(key, nonce, tlv(sub))
        if variant == "m6_ct_bitflip":
            enc = bytes([enc[0] ^ 1]) + enc[1:]
        if variant == "m6_truncated":
            enc = enc[:-3]
        m6 = [[6, bytearray(b"\x06")], [5, bytearray(enc)]]
        if variant == "m6_error":
            m6 = [[6, bytearray(b"\x06")], [7, bytearray(b"\x02")]]
        if variant == "m6_no_enc":
            m6 = [[6, bytearray(b"\x06")]]
        if variant == "m6_wrong_state":
            m6[0][1] = bytearray(b"\x04")
        return m6


VERIFY_BAD = [
    "wrong_ltsk", "permuted_transcript", "other_exchange", "wrong_id_signed", "case_variant_id_signed", "id_mismatch_unsigned", "wrong_enc_key",
    "wrong_nonce", "sig_bitflip", "no_signature", "no_identifier", "ct_bitflip", "tag_bitflip", "truncated", "pk_bitflip",
    "short_pk", "no_pk", "no_enc", "error_auth", "error_no_state", "wrong_state",
]
VERIFY_M4_BAD = ["m4_error", "m4_error_no_state", "m4_wrong_state"]
RESUME_BAD = [
    "resume_wrong_secret", "resume_tag_bitflip", "resume_nonempty_plaintext", "resume_wrong_method",
    "resume_with_error", "resume_error_no_state", "resume_wrong_state",
]
SETUP_BAD_M2 = ["m2_error_unavailable", "m2_error_no_state", "m2_no_salt", "m2_no_pk"]
SETUP_BAD_M4 = [
    "wrong_code_accessory", "m4_proof_bitflip", "m4_proof_low_bitflip", "m4_error_auth", "m4_no_proof",
    "m4_proof_suffix16", "m4_proof_last_byte", "m4_proof_empty", "m4_proof_prefix16",
]
SETUP_BAD_M6 = [
    "m6_wrong_signer", "m6_sig_other_id", "m6_sig_other_key", "m6_wrong_enc_key", "m6_wrong_nonce", "m6_sig_bitflip",
    "m6_no_sig", "m6_no_id", "m6_no_ltpk", "m6_ct_bitflip", "m6_truncated", "m6_error", "m6_no_enc", "m6_wrong_state",
]


def run_verify(get_session_keys, variant="honest", resume=None):
    """drive the REAL pair-verify generator against this accessory.  returns dict(outcome=...)"""
    acc = Accessory()
    ios_ltsk = ed25519.Ed25519PrivateKey.generate()
    ios_ltpk = ios_ltsk.public_key().public_bytes(*RAW)
    ios_id = "decc6fa3-de3e-41c9-adba-ef7409821bfc"
    pairing = {
        "AccessoryPairingID": acc.acc_id.decode(),
        "AccessoryLTPK": acc.ltpk.hex(),
        "iOSPairingId": ios_id,
        "iOSDeviceLTSK": ios_ltsk.private_bytes(serialization.Encoding.Raw, serialization.PrivateFormat.Raw, serialization.NoEncryption()).hex(),
        "iOSDeviceLTPK": ios_ltpk.hex(),
    }
    kwargs = {}
    prev_secret = prev_sid = None
    if resume:
        prev_secret, prev_sid = os.urandom(32), os.urandom(8)

        def derive(salt, info, length=32):
            return hkdf(prev_secret, salt, info, length)

        kwargs = {"session_id": prev_sid, "derive": derive}
    gen = get_session_keys(pairing, **kwargs)
    out = {"variant": variant, "resume": bool(resume)}
    try:
        req, exp = gen.send(None)
        out["m1_expectations"] = list(exp)
        if resume and variant in ["honest"] + RESUME_BAD:
            m2 = acc.resume_m2(req, prev_secret, prev_sid, variant)
            out["resume_request_ok"] = acc.resume_request_ok
        else:
            m2 = acc.verify_m2(req, variant if variant in VERIFY_BAD else "honest")
        # the IP/CoAP drivers filter the reply with the expectations (decode stops at the first unexpected
        # type); the BLE driver (the only one that resumes sessions) hands over the whole reply
        m2f = []
        for k, v in m2:
            if k not in exp and not resume:
                break
            m2f.append([k, v])
        req, exp = gen.send(m2f)
        m4 = acc.verify_m4(req, ios_id.encode(), ios_ltpk, variant if variant in VERIFY_M4_BAD else "honest")
        out["m3_accepted"] = acc.accepted_m3
        m4f = []
        for k, v in m4:
            if k not in exp:
                break
            m4f.append([k, v])
        gen.send(m4f)
        out["outcome"] = "hang"
    except StopIteration as st:
        sid, derive = st.value
        out["outcome"] = "keys"
        c2a = derive(b"Control-Salt", b"Control-Write-Encryption-Key")
        a2c = derive(b"Control-Salt", b"Control-Read-Encryption-Key")
        ev = derive(b"Event-Salt", b"Event-Read-Encryption-Key")
        out["keys_match"] = (c2a, a2c, ev) == acc.session_keys()
        if resume and "resume_request_ok" in out and len(m2) == 4:
            out["resumed"] = True
            out["sid_ok"] = sid == acc.new_sid
    except Exception as e:  # noqa: BLE001
        out["outcome"] = "raised"
        out["exception"] = type(e).__name__
    return out


def run_verify_replay_across_exchanges(get_session_keys):
    """record the genuine M2/M4 of one exchange and replay them into a second exchange of the same process:
    the second exchange must fail (its fresh ephemeral key differs)"""
    acc = Accessory()
    ios_ltsk = ed25519.Ed25519PrivateKey.generate()
    ios_ltpk = ios_ltsk.public_key().public_bytes(*RAW)
    ios_id = "decc6fa3-de3e-41c9-adba-ef7409821bfc"
    pairing = {
        "AccessoryPairingID": acc.acc_id.decode(), "AccessoryLTPK": acc.ltpk.hex(), "iOSPairingId": ios_id,
        "iOSDeviceLTSK": ios_ltsk.private_bytes(serialization.Encoding.Raw, serialization.PrivateFormat.Raw, serialization.NoEncryption()).hex(),
        "iOSDeviceLTPK": ios_ltpk.hex(),
    }
    g1 = get_session_keys(pairing)
    req, exp = g1.send(None)
    m2 = acc.verify_m2(req)
    req, exp = g1.send([list(x) for x in m2])
    m4 = acc.verify_m4(req, ios_id.encode(), ios_ltpk)
    try:
        g1.send(m4)
    except StopIteration:
        pass
    out = {"variant": "replay_recorded_m2_into_second_exchange"}
    g2 = get_session_keys(pairing)
    try:
        g2.send(None)
        g2.send([[k, bytearray(v)] for k, v in m2])
        g2.send([[k, bytearray(v)] for k, v in m4])
        out["outcome"] = "hang"
    except StopIteration:
        out["outcome"] = "keys"
    except Exception as e:  # noqa: BLE001
        out["outcome"] = "raised"
        out["exception"] = type(e).__name__
    return out


def run_setup(part1, part2, variant="honest", pin="111-22-333", salt=None, b=None, a=None):
    acc = Accessory(pin=pin)
    out = {"variant": variant}
    ios_id = "decc6fa3-de3e-41c9-adba-ef7409821bfc"
    try:
        g1 = part1(True)
        req, exp = g1.send(None)
        m2 = acc.setup_m2(variant if variant in SETUP_BAD_M2 + ["wrong_code_accessory"] else "honest", salt=salt, b=b)
        try:
            g1.send([x for x in m2 if x[0] in exp])
            out["outcome"] = "hang"
            return out
        except StopIteration as st:
            s, pk = st.value
        g2 = part2(pin, ios_id, s, pk)
        req, exp = g2.send(None)
        m4 = acc.setup_m4(req, variant if variant in SETUP_BAD_M4 else "honest")
        out["m3_proof_ok"] = acc.m3_proof_ok
        req, exp = g2.send([x for x in m4 if x[0] in exp])
        m6 = acc.setup_m6(req, variant if variant in SETUP_BAD_M6 else "honest")
        out["m5_accepted"] = acc.m5_accepted
        try:
            g2.send([x for x in m6 if x[0] in exp])
            out["outcome"] = "hang"
        except StopIteration as st:
            rec = st.value
            out["outcome"] = "paired"
            sk = ed25519.Ed25519PrivateKey.from_private_bytes(bytes.fromhex(rec["iOSDeviceLTSK"]))
            out["record_ok"] = (
                sk.public_key().public_bytes(*RAW).hex() == rec["iOSDeviceLTPK"]
                and rec["AccessoryPairingID"] == acc.acc_id.decode()
                and rec["AccessoryLTPK"] == acc.ltpk.hex()
                and rec["iOSPairingId"] == ios_id
                and acc.m5_accepted
                and acc.ios_ltpk.hex() == rec["iOSDeviceLTPK"]
                and acc.ios_id == ios_id.encode()
            )
    except Exception as e:  # noqa: BLE001
        out["outcome"] = "raised"
        out["exception"] = type(e).__name__
    return out


def run_setup_leading_zero_search(part1, part2, max_runs=1500):
    """honest pair-setup runs with fresh random secrets until one whose SRP session key K, shared secret S,
    A or B starts with 0x00 has been seen for each position (or max_runs); every run must succeed"""
    seen = set()
    for i in range(max_runs):
        acc = Accessory()
        r = run_setup(part1, part2)
        # (run_setup builds its own accessory; the leading-zero classes are sampled at the 1/256 rate)
        if not (r["outcome"] == "paired" and r.get("record_ok") and r.get("m3_proof_ok") and r.get("m5_accepted")):
            return {"runs": i + 1, "failure": r}
    return {"runs": max_runs, "failure": None}
