"""Native bounded stand-in / replay for C14: the REAL check_convert_value against exact rational arithmetic."""
import math
import random
from fractions import Fraction


def half_up(x):
    x = Fraction(x)
    return math.floor(x + Fraction(1, 2)) if x >= 0 else -math.floor(-x + Fraction(1, 2))


def run(tier="quick", seed=0, tag="C14#native"):
    from aiohomekit.exceptions import FormatError
    from aiohomekit.model.characteristics.characteristic import check_convert_value
    from aiohomekit.model.characteristics.characteristic_formats import CharacteristicFormats as F

    class Ch:
        pass

    rnd = random.Random(seed)
    cases = 0
    failures = []

    def fail(kind, **kw):
        if len(failures) < 3:
            failures.append({"clause": f"{tag}.{kind}", "scenario": {k: repr(v) for k, v in kw.items()}})

    def one(fmt, lo, hi, step, val):
        nonlocal cases
        cases += 1
        c = Ch()
        c.format, c.minValue, c.maxValue, c.minStep = fmt, lo, hi, step
        try:
            r = check_convert_value(val, c)
        except FormatError:
            try:
                Fraction(str(val))
            except (ValueError, ZeroDivisionError):
                return
            return fail("format-error-for-a-number", fmt=fmt, val=val)
        except Exception as e:  # noqa: BLE001
            return fail("other-exception", fmt=fmt, val=val, raised=e)
        try:
            v = Fraction(str(val))
        except (ValueError, ZeroDivisionError):
            return fail("garbage-accepted", fmt=fmt, val=val, result=r)
        cl = v
        if lo is not None:
            cl = max(Fraction(str(lo)), cl)
        if hi is not None:
            cl = min(Fraction(str(hi)), cl)
        o = Fraction(str(lo)) if lo is not None else Fraction(0)
        if step:
            s = Fraction(str(step))
            g = o + s * half_up((cl - o) / s)
        else:
            g = cl
        if fmt != F.float:
            if not isinstance(r, int) or isinstance(r, bool):
                return fail("not-an-int", fmt=fmt, val=val, result=r)
            if v.denominator == 1 and all(x is None or Fraction(str(x)).denominator == 1 for x in (lo, hi, step)) and r != g:
                return fail("integer-not-exact", fmt=fmt, min=lo, max=hi, step=step, val=val, result=r, expected=int(g))
        else:
            tol = Fraction(1, 10 ** 5) * max(1, abs(cl - o), abs(g), abs(o)) + (Fraction(str(step)) / 2 * Fraction(2, 10 ** 5) if step else 0)
            if abs(Fraction(r) - g) > tol and step:
                # a value within six significant digits of a tie may go either way; anything else is wrong
                q = (cl - o) / Fraction(str(step))
                near_tie = abs((q - math.floor(q)) - Fraction(1, 2)) < Fraction(1, 10 ** 4)
                if not near_tie:
                    return fail("float-off-grid", min=lo, max=hi, step=step, val=val, result=r, expected=float(g))

    INTS = [F.uint8, F.uint16, F.uint32, F.uint64, F.int]
    big = [0, 1, 5, 255, 65535, 1234567, 2 ** 31 - 1, 2 ** 32 - 1, 2 ** 53 + 1, 2 ** 64 - 1, 10 ** 15 + 7]
    for fmt in INTS:
        for lo, hi, step in [(None, None, None), (0, 2 ** 64 - 1, 1), (-2 ** 31, 2 ** 31 - 1, 1), (0, 100, 5), (1, 41, 5), (0, 10, 4), (None, 1000, 3), (-50, None, 7), (0, 2 ** 32 - 1, 1000)]:
            for v in big + [-3, -2 ** 31, 17, 98, 99, 100, 101] + [rnd.randint(-2 ** 31, 2 ** 64) for _ in range(6)]:
                one(fmt, lo, hi, step, v)
                one(fmt, lo, hi, step, str(v))
    for lo, hi, step in [(None, None, None), (10, 38, 0.1), (4.5, 37, 0.5), (0, 100, 1), (0, 1, 0.01), (-30, 30, 0.5), (0, 360, 1), (7.2, 35, 0.1), (None, None, 0.5), (0, 100000, 0.01)]:
        for v in [0, 1, 21.33, 27.23, 28.5, 28.45, 3.14159, -12.25, 99.999, 36.96, "22.5", 1e5, 17, 37.49] + [round(rnd.uniform(-50, 400), rnd.randint(0, 4)) for _ in range(20 if tier == "quick" else 300)]:
            one(F.float, lo, hi, step, v)
    for g in ["abc", "", "1e", "--3", "12,5", " ", "0x10", "NaN?", None, [], {}]:
        for fmt in INTS + [F.float]:
            cases += 1
            c = Ch()
            c.format, c.minValue, c.maxValue, c.minStep = fmt, 0, 100, 1
            try:
                check_convert_value(g, c)
                if isinstance(g, str):
                    fail("garbage-accepted", fmt=fmt, val=g)
            except FormatError:
                pass
            except Exception as e:  # noqa: BLE001
                if isinstance(g, str):
                    fail("other-exception", fmt=fmt, val=g, raised=e)
    return {"cases": cases, "distinct": cases, "failures": failures, "bound": "integer formats x 9 range/step combinations x magnitudes up to 2^64-1 (int and numeric-string inputs); float: thermostat-like and extreme grids x decimal inputs against exact rationals within six significant digits; garbage strings"}
