"""Native replay for C19: the REAL BleController / BlePairing handlers with fake bleak objects."""
import asyncio
import struct


class Dev:
    def __init__(self, address="AA:BB:CC:DD:EE:FF", name="Acc"):
        self.address, self.name = address, name


class Adv:
    def __init__(self, data):
        self.manufacturer_data = {76: data}
        self.rssi = -50
        self.local_name = "Acc"
        self.service_data = {}
        self.service_uuids = []


def adv_bytes(dev_id=bytes([0xaa, 0xbb, 0xcc, 0xdd, 0xee, 0xff]), gsn=7, cn=2, category=5):
    return bytes([0x06, 0x31, 0x00]) + dev_id + struct.pack("<HHBB", category, gsn, cn, 2) + b"\x01\x02\x03\x04"


class Cache:
    def get_map(self, hkid):
        return None

    def async_create_or_update_map(self, *a, **k):
        pass

    def async_delete_map(self, *a):
        pass


def ble_find_is_woken(timeout=0.3):
    """waiter registered first, then the advertisement for its id is processed: it must complete"""
    from aiohomekit.controller.ble.controller import BleController

    async def main():
        c = BleController(Cache())
        task = asyncio.ensure_future(c.async_find("aa:bb:cc:dd:ee:ff", timeout=timeout))
        await asyncio.sleep(0)
        c._device_detected(Dev(), Adv(adv_bytes()))
        try:
            d = await task
            return {"woken": True, "discovery": type(d).__name__}
        except Exception as e:  # noqa: BLE001
            return {"woken": False, "raised": repr(e)}

    return asyncio.run(main())


def ble_pairing_without_cache():
    """a BLE pairing loaded with no cached accessory state; a valid advertisement for it arrives in the scanner
    callback: nothing may raise"""
    from aiohomekit.controller.ble.controller import BleController

    async def main():
        c = BleController(Cache())
        c.load_pairing("alias", {"Connection": "BLE", "AccessoryPairingID": "AA:BB:CC:DD:EE:FF", "AccessoryLTPK": "00" * 32,
                                 "iOSPairingId": "x", "iOSDeviceLTSK": "00" * 32, "iOSDeviceLTPK": "00" * 32, "AccessoryAddress": "AA:BB:CC:DD:EE:FF"})
        try:
            c._device_detected(Dev(), Adv(adv_bytes()))
            return {"raised": None}
        except Exception as e:  # noqa: BLE001
            return {"raised": repr(e)}

    return asyncio.run(main())


def run(tier="quick", seed=0, tag="C19/discovery#native"):
    """bounded stand-in: waiter wake-up orders and robustness of the BLE detection callback for every truncation of
    valid advertisements (regular and encrypted-notification type) and random bytes, with no pairing, a pairing
    without cached state and a pairing with cached state loaded for the advertised id"""
    import random

    from aiohomekit.controller.ble.controller import BleController
    from aiohomekit.model import Accessories, AccessoriesState

    rnd = random.Random(seed)
    cases = 0
    failures = []
    r = ble_find_is_woken()
    cases += 1
    if not r["woken"]:
        failures.append({"clause": f"{tag}.ble-waiter-woken", "scenario": r})
    PD = {"Connection": "BLE", "AccessoryPairingID": "AA:BB:CC:DD:EE:FF", "AccessoryLTPK": "00" * 32, "iOSPairingId": "x",
          "iOSDeviceLTSK": "00" * 32, "iOSDeviceLTPK": "00" * 32, "AccessoryAddress": "AA:BB:CC:DD:EE:FF"}

    async def robustness():
        nonlocal cases
        valid = adv_bytes()
        enc = bytes([0x11, 0x36]) + bytes([0xaa, 0xbb, 0xcc, 0xdd, 0xee, 0xff]) + bytes(range(16))
        samples = [valid[:i] for i in range(len(valid) + 1)] + [enc[:i] for i in range(len(enc) + 1)]
        samples += [bytes(rnd.getrandbits(8) for _ in range(rnd.randint(0, 30))) for _ in range(60 if tier == "quick" else 600)]
        samples += [bytes([0x06]) + bytes(rnd.getrandbits(8) for _ in range(rnd.randint(14, 20))) for _ in range(60)]
        for situation in ("no-pairing", "pairing-without-cache", "pairing-with-cache"):
            c = BleController(Cache())
            if situation != "no-pairing":
                p = c.load_pairing("alias", dict(PD))
                if situation == "pairing-with-cache":
                    p._accessories_state = AccessoriesState(Accessories(), 1, None, 3)
            for data in samples:
                cases += 1
                try:
                    c._device_detected(Dev(), Adv(data))
                except Exception as e:  # noqa: BLE001
                    if len(failures) < 3:
                        failures.append({"clause": f"{tag}.ble-callback-raised", "scenario": {"situation": situation, "manufacturer_data": data.hex(), "raised": repr(e)}})

    asyncio.run(robustness())
    n, f2 = mdns_records(tier, rnd, tag)
    cases += n
    failures += f2
    n, f3 = mdns_waiter_schedules(tier, tag)
    cases += n
    failures += f3
    return {"cases": cases, "distinct": cases, "failures": failures, "bound": "every prefix of a valid regular / encrypted advertisement, random bytes; three pairing situations; mDNS records with fuzzed TXT properties and address sets; mDNS waiter schedules: 1..3 waiters on one id, each waiting / timing out / cancelled before the record is processed"}


def mdns_records(tier, rnd, tag):
    """HomeKitService.from_service_info on real zeroconf records: only ValueError may escape (the caller ignores invalid
    records by catching it); a record that is accepted has its id lower-cased, a usable (not link-local, not unspecified)
    address, and the numbers of its TXT record"""
    import socket

    from zeroconf.asyncio import AsyncServiceInfo

    from aiohomekit.zeroconf import HomeKitService

    cases, failures, seen = 0, [], set()

    def fail(what, **kw):
        if what not in seen:
            seen.add(what)
            failures.append({"clause": f"{tag}.{what}", "scenario": {k: repr(v)[:300] for k, v in kw.items()}})

    TYPE = "_hap._tcp.local."
    addr_pool = [socket.inet_aton("192.168.1.7"), socket.inet_aton("169.254.3.4"), socket.inet_aton("0.0.0.0"), socket.inet_aton("10.0.0.9"),
                 socket.inet_pton(socket.AF_INET6, "fe80::1"), socket.inet_pton(socket.AF_INET6, "2001:db8::5"), socket.inet_pton(socket.AF_INET6, "::")]
    usable = {"192.168.1.7", "10.0.0.9", "2001:db8::5"}
    vals = ["1", "0", "12", "-3", "", "x", "1.5", " 7", "99999999999999999999", None, "AA:bb:CC:dd:EE:ff"]
    for _ in range(3000 if tier == "thorough" else 400):
        props = {}
        for k in rnd.sample(["id", "ID", "Id", "c#", "s#", "ff", "sf", "ci", "md", "pv", "C#", "junk"], rnd.randrange(0, 9)):
            v = rnd.choice(vals)
            props[k] = v
        addrs = rnd.sample(addr_pool, rnd.randrange(0, 4))
        info = AsyncServiceInfo(TYPE, "Acc name." + TYPE, addresses=addrs, port=rnd.choice([0, 80, 51826]), properties=props)
        cases += 1
        try:
            svc = HomeKitService.from_service_info(info)
        except ValueError:
            continue
        except Exception as e:  # noqa: BLE001
            fail("mdns-record-raises-another-exception", props=props, raised=e)
            continue
        low = {k.lower(): v for k, v in props.items() if v is not None}
        if "id" not in low or svc.id != low["id"].lower():
            fail("mdns-id-not-lower-cased-or-invented", props=props, got=svc.id)
        if svc.address not in usable or any(a not in usable for a in svc.addresses):
            fail("mdns-unusable-address-accepted", addresses=svc.addresses)
        for key, attr in (("c#", "config_num"), ("s#", "state_num")):
            if key in low and int(low[key]) != getattr(svc, attr):
                fail("mdns-number-not-taken-from-the-record", props=props, attr=attr)
    return cases, failures


def mdns_waiter_schedules(tier, tag):
    """1..3 callers of the real ZeroconfController.async_find on one id (upper or lower case); each either keeps waiting,
    times out early or is cancelled BEFORE the record is processed by the real _async_handle_loaded_service_info.  Every
    caller still waiting must be completed with the discovery; the others fail with not-found / cancellation."""
    import itertools
    import socket
    from unittest.mock import MagicMock

    from zeroconf.asyncio import AsyncServiceInfo

    from aiohomekit.characteristic_cache import CharacteristicCacheMemory
    from aiohomekit.controller.ip.controller import IpController
    from aiohomekit.exceptions import AccessoryNotFoundError

    DEV = "0a:1b:2c:3d:4e:5f"
    cases, failures, seen = 0, [], set()

    def fail(what, **kw):
        if what not in seen:
            seen.add(what)
            failures.append({"clause": f"{tag}.{what}", "scenario": {k: repr(v)[:300] for k, v in kw.items()}})

    async def one(fates, upper):
        c = IpController(char_cache=CharacteristicCacheMemory(), zeroconf_instance=MagicMock())
        tasks = []
        for i, fate in enumerate(fates):
            ident = DEV.upper() if (upper and i % 2 == 0) else DEV
            tasks.append(asyncio.ensure_future(c.async_find(ident, timeout=0.02 if fate == "timeout" else 5.0)))
            await asyncio.sleep(0)
        for t, fate in zip(tasks, fates):
            if fate == "cancel":
                t.cancel()
        await asyncio.sleep(0.06)
        info = AsyncServiceInfo("_hap._tcp.local.", "acc._hap._tcp.local.", addresses=[socket.inet_aton("192.168.1.20")], port=1234,
                                properties={b"c#": b"3", b"id": DEV.upper().encode(), b"md": b"m", b"s#": b"11", b"ci": b"5", b"sf": b"0", b"ff": b"1"})
        c._async_handle_loaded_service_info(info)
        await asyncio.sleep(0.02)
        for i, (t, fate) in enumerate(zip(tasks, fates)):
            if fate == "wait":
                if not t.done():
                    fail("mdns-waiter-not-woken", fates=fates, waiter=i)
                    t.cancel()
                elif t.cancelled() or t.exception() is not None or t.result() is not c.discoveries.get(DEV):
                    fail("mdns-waiter-not-completed-with-the-discovery", fates=fates, waiter=i)
            elif fate == "timeout":
                if not t.done() or t.cancelled() or not isinstance(t.exception(), AccessoryNotFoundError):
                    fail("mdns-timeout-is-not-not-found", fates=fates, waiter=i)
            elif not t.cancelled():
                fail("mdns-cancelled-waiter-not-cancelled", fates=fates, waiter=i)
        await asyncio.gather(*tasks, return_exceptions=True)

    for n in (1, 2, 3):
        for fates in itertools.product(("wait", "timeout", "cancel"), repeat=n):
            for upper in ((False, True) if tier == "thorough" else (True,)):
                cases += 1
                try:
                    asyncio.run(one(fates, upper))
                except Exception as e:  # noqa: BLE001
                    fail("mdns-schedule-raised", fates=fates, raised=e)
    return cases, failures
