"""Native replay / bounded stand-in for C20: crash points of Controller.save_data on a real temp directory, and
field-wise round trips of pairing data and the accessory cache through the real files."""
import builtins
import json
import os
import tempfile


class SimulatedCrash(BaseException):
    pass


def save_crash_points(n_prefixes=6):
    """crash (a) right after the file was opened, (b) after every one of a few prefixes of the text was written,
    (c) before close: the pairing file must still hold the OLD data or the complete NEW data"""
    from aiohomekit.controller.controller import Controller

    class P:
        def __init__(self, d):
            self.pairing_data = d

    problems = []
    with tempfile.TemporaryDirectory(dir=os.path.dirname(os.path.abspath(__file__))) as td:
        fn = os.path.join(td, "pairings.json")
        c = Controller.__new__(Controller)
        c.aliases = {"old": P({"AccessoryPairingID": "AA", "Connection": "IP", "k": "old" * 50})}
        c.save_data(fn)
        old = open(fn).read()
        c.aliases = {"new": P({"AccessoryPairingID": "BB", "Connection": "IP", "k": "new" * 80}), "old": c.aliases["old"]}
        real_open = builtins.open
        # "at-close": write() only fills the buffer of the text file; the flush that close() performs fails (ENOSPC, I/O
        # error, power cut) with nothing of the text on disk yet
        points = ["after-open"] + [f"after-{k}/{n_prefixes}-of-the-text" for k in range(1, n_prefixes)] + ["before-close", "at-close"]
        new_full = None
        for point in points:
            with real_open(fn, "w") as f:
                f.write(old)

            def crashing_open(path, mode="r", *a, **k):
                f = real_open(path, mode, *a, **k)
                if "w" not in mode:
                    return f
                if point == "after-open":
                    f.close()
                    raise SimulatedCrash()
                orig_write = f.write

                def write(text):
                    if point == "at-close":
                        return len(text)
                    if point == "before-close":
                        orig_write(text)
                        f.flush()
                        raise SimulatedCrash()
                    k_ = int(point.split("-")[1].split("/")[0])
                    orig_write(text[: len(text) * k_ // n_prefixes])
                    f.flush()
                    raise SimulatedCrash()

                f.write = write
                return _Wrap(f, write, crash_at_exit=(point == "at-close"))

            builtins.open = crashing_open
            try:
                c.save_data(fn)
            except SimulatedCrash:
                pass
            finally:
                builtins.open = real_open
            got = real_open(fn).read()
            if new_full is None:
                c.save_data(fn)
                new_full = real_open(fn).read()
            if got not in (old, new_full):
                problems.append({"crash_point": point, "file_length_after_crash": len(got), "old_length": len(old), "new_length": len(new_full)})
    return problems


class _Wrap:
    def __init__(self, f, write, crash_at_exit=False):
        self._f, self.write, self._crash_at_exit = f, write, crash_at_exit

    def __enter__(self):
        return self

    def __exit__(self, *a):
        self._f.close()
        if self._crash_at_exit and a[0] is None:
            raise SimulatedCrash()
        return False

    def __getattr__(self, n):
        return getattr(self._f, n)


def _fixtures():
    d = "/repo/tests/fixtures"
    out = []
    for fn in sorted(os.listdir(d)):
        if fn.endswith(".json"):
            try:
                v = json.load(open(os.path.join(d, fn)))
            except Exception:
                continue
            if isinstance(v, list) and v and isinstance(v[0], dict) and "services" in v[0]:
                out.append((fn, v))
    return out


def entity_map_roundtrip(accessories_list):
    """entity map -> model -> serialised list -> model -> serialised list: a fixpoint, and every field the
    controller needs (ids, types, permissions, formats, values, ranges, links) equals the original entry"""
    from aiohomekit.model import Accessories
    from aiohomekit.uuid import normalize_uuid

    s1 = Accessories.from_list(accessories_list).serialize()
    s1 = json.loads(json.dumps(s1))
    s2 = json.loads(json.dumps(Accessories.from_list(s1).serialize()))
    diffs = []
    diffs += _needed_fields_equal(accessories_list, s1)
    diffs += _needed_fields_equal(s1, s2)
    return diffs


def _needed_fields_equal(accessories_list, s1):
    from aiohomekit.uuid import normalize_uuid

    diffs = []
    by = {(a["aid"], s["iid"]): s for a in s1 for s in a["services"]}
    for a in accessories_list:
        for s in a["services"]:
            t = by.get((a["aid"], s["iid"]))
            if t is None or normalize_uuid(t["type"]) != normalize_uuid(s["type"]) or sorted(t.get("linked", []) or []) != sorted(s.get("linked", []) or []):
                diffs.append(("service", a["aid"], s["iid"]))
                continue
            tc = {c["iid"]: c for c in t["characteristics"]}
            for c in s["characteristics"]:
                d = tc.get(c["iid"])
                if d is None:
                    diffs.append(("char-missing", a["aid"], c["iid"]))
                    continue
                for f in ("perms", "format", "value", "minValue", "maxValue", "minStep", "unit", "valid-values", "valid-values-range"):
                    if f in c and c[f] is not None and d.get(f) != c[f]:
                        if f == "value" and "pr" not in c.get("perms", []):
                            continue
                        diffs.append((f, a["aid"], c["iid"], repr(c[f])[:40], repr(d.get(f))[:40]))
                if normalize_uuid(d["type"]) != normalize_uuid(c["type"]):
                    diffs.append(("type", a["aid"], c["iid"]))
    return diffs


def run(tier="quick", seed=0, tag="C20#native"):
    import random

    cases = 0
    failures = []
    probs = save_crash_points(6 if tier == "quick" else 24)
    cases += 8 if tier == "quick" else 26
    for p in probs[:2]:
        failures.append({"clause": f"{tag}.save-crash-point", "scenario": p})
    # accessory database round trips on the repository's fixtures
    fx = _fixtures()
    if tier == "quick":
        fx = fx[:: max(1, len(fx) // 12)]
    for fn, v in fx:
        cases += 1
        try:
            d = entity_map_roundtrip(v)
        except Exception as e:  # noqa: BLE001
            d = [("raised", repr(e))]
        if d and len(failures) < 3:
            failures.append({"clause": f"{tag}.entity-map-roundtrip", "scenario": {"fixture": fn, "differences": d[:5]}})
    # cache file: save, reload; every prefix of a valid cache file is treated as empty, never raises
    from aiohomekit.characteristic_cache import CharacteristicCacheFile
    import pathlib
    import tempfile

    with tempfile.TemporaryDirectory(dir=os.path.dirname(os.path.abspath(__file__))) as td:
        loc = pathlib.Path(td) / "cache.json"
        c = CharacteristicCacheFile(loc)
        fn, v = _fixtures()[0]
        c.async_create_or_update_map("aa:bb", 3, v, b"\x01\x02".hex(), 9)
        c2 = CharacteristicCacheFile(loc)
        cases += 1
        m = c2.get_map("aa:bb")
        if not m or m["config_num"] != 3 or m["accessories"] != v or m.get("state_num") != 9:
            failures.append({"clause": f"{tag}.cache-roundtrip", "scenario": {"reloaded": repr(m)[:200]}})
        text = loc.read_text()
        rnd = random.Random(seed)
        cuts = list(range(0, len(text), max(1, len(text) // (40 if tier == "quick" else 400))))
        for k in cuts:
            cases += 1
            loc.write_text(text[:k])
            try:
                c3 = CharacteristicCacheFile(loc)
                if k < len(text) and c3.get_map("aa:bb") not in (None,) and text[:k] != text:
                    pass
            except Exception as e:  # noqa: BLE001
                if len(failures) < 3:
                    failures.append({"clause": f"{tag}.truncated-cache-raised", "scenario": {"prefix_length": k, "raised": repr(e)}})
    return {"cases": cases, "distinct": cases, "failures": failures, "bound": "save crash points; entity-map round trip on repository fixtures; every k-th prefix of a valid cache file"}
