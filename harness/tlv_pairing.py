"""Native bounded stand-in / replay for C15: the REAL TLV.encode_list / decode_bytearray / decode_bytes against the
independent reference codec of harness/hap_accessory.py (tlv / untlv, written from the HAP TLV8 appendix).
Bounds: seeded random item lists of 0..6 items, types 0..255, value sizes 0, 1, 254, 255, 256, 509, 510, 511, 700 and random;
malformed inputs: every truncation of three encodings."""
import random

SIZES = [0, 1, 254, 255, 256, 509, 510, 511, 700]


def run(tier="quick", seed=0, tag="C15#native"):
    from aiohomekit.protocol.tlv import TLV, TlvParseException

    from harness.hap_accessory import tlv as ref_enc, untlv as ref_dec

    rnd = random.Random(seed)
    cases, failures, seen = 0, [], set()

    def fail(what, **kw):
        if what not in seen:
            seen.add(what)
            failures.append({"clause": f"{tag}.{what}", "scenario": {k: repr(v)[:300] for k, v in kw.items()}})

    n = 1500 if tier == "thorough" else 300
    samples = []
    for _ in range(n):
        items, prev = [], None
        for _j in range(rnd.randrange(0, 7)):
            k = rnd.choice([x for x in (range(0, 16) if rnd.random() < 0.5 else range(0, 255)) if x != prev])  # (the defined pairing types are 0..15)
            prev = k
            size = rnd.choice(SIZES + [rnd.randrange(0, 1200)])
            items.append((k, bytes(rnd.randrange(256) for _ in range(size))))
        cases += 1
        try:
            enc = bytes(TLV.encode_list(items))
        except Exception as e:  # noqa: BLE001
            fail("encode-raises", items=[(k, len(v)) for k, v in items], raised=e)
            continue
        if enc != ref_enc(items):
            fail("not-canonical", items=[(k, len(v)) for k, v in items], got=enc[:40].hex(), want=ref_enc(items)[:40].hex())
            continue
        try:
            back = TLV.decode_bytearray(bytearray(enc))
            back2 = TLV.decode_bytes(enc)
        except Exception as e:  # noqa: BLE001
            fail("decode-raises", items=[(k, len(v)) for k, v in items], raised=e)
            continue
        want = [[k, bytearray(v)] for k, v in items]
        if [list(x) for x in back] != want or [list(x) for x in back2] != want:
            fail("round-trip", items=[(k, len(v)) for k, v in items], back=[(x[0], len(x[1])) for x in back])
        if len(samples) < 3 and len(enc) > 4:
            samples.append(enc)
    for enc in samples:
        for cut in range(1, min(len(enc), 600)):
            cases += 1
            piece = enc[:cut]
            try:
                got = TLV.decode_bytearray(bytearray(piece))
            except TlvParseException:
                continue
            except Exception as e:  # noqa: BLE001
                fail("malformed-input-raises-another-exception", cut=cut, raised=e)
                continue
            try:
                ok = [list(x) for x in got] == [[k, bytearray(v)] for k, v in ref_dec(piece)] and bytes(ref_enc([(k, bytes(v)) for k, v in ref_dec(piece)])) == piece
            except Exception:  # noqa: BLE001
                ok = False
            if not ok:
                fail("truncated-input-accepted", cut=cut, piece=piece[-12:].hex())
    return {"cases": cases, "failures": failures, "bound": f"{n} random item lists, all truncations (up to 600 bytes) of 3 encodings"}


if __name__ == "__main__":
    import json
    import sys

    print(json.dumps(run(sys.argv[1] if len(sys.argv) > 1 else "quick"), indent=1)[:2500])
