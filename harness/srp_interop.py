"""Native bounded stand-in / replay for C02: the REAL SrpClient against an independent RFC 5054 accessory
(harness/hap_accessory.py: SrpAccessory, written from the RFC with HomeKit parameters; shares no code with
aiohomekit.crypto.srp).

Bounds: seeded random exchanges plus a directed search (random secrets until the predicate holds, at most MAX tries each)
for exchanges in which A, B, S, K, M1 or M2 starts with a zero byte; all-zero and leading-zero salts; every single-bit
corruption of M2 on three exchanges; a wrong setup code on every exchange."""
import random

from harness.hap_accessory import SrpAccessory, PAD, minbytes


def exchange(pin, salt, a, b, client_pin=None):
    from aiohomekit.crypto.srp import SrpClient

    acc = SrpAccessory(pin, salt=salt, b=b)
    orig = SrpClient.generate_private_key
    SrpClient.generate_private_key = staticmethod(lambda: a)
    try:
        c = SrpClient("Pair-Setup", client_pin or pin)
    finally:
        SrpClient.generate_private_key = orig
    c.set_salt(bytearray(acc.s))
    c.set_server_public_key(PAD(acc.B))
    acc.finish(c.get_public_key_bytes())
    return acc, c


def run(tier="quick", seed=0, tag="C02#native"):
    from aiohomekit.crypto import srp as S

    rnd = random.Random(seed)
    cases = 0
    failures = []
    seen = set()

    def fail(what, **kw):
        if what not in seen:
            seen.add(what)
            failures.append({"clause": f"{tag}.{what}", "scenario": {k: (v.hex() if isinstance(v, (bytes, bytearray)) else repr(v))[:200] for k, v in kw.items()}})

    # the model of to_byte_array: minimal big-endian bytes
    for n in [0, 1, 255, 256, 2 ** 64 - 1, 2 ** 64, 2 ** 3071, 2 ** 3072 - 1] + [rnd.getrandbits(rnd.randrange(1, 3073)) for _ in range(200)]:
        cases += 1
        if bytes(S.to_byte_array(n)) != minbytes(n):
            fail("to_byte_array-is-not-minimal-big-endian", n=n)

    def check(acc, c, what):
        nonlocal cases
        cases += 1
        A_b = bytes(c.get_public_key_bytes())
        if A_b != PAD(pow(5, c.a, acc_N)):
            fail("public-value", case=what, got=A_b)
        if bytes(c.get_session_key_bytes()) != acc.K:
            fail("session-key", case=what, got=bytes(c.get_session_key_bytes()), want=acc.K)
        if bytes(c.get_proof_bytes()) != acc.M1:
            fail("client-proof", case=what, got=bytes(c.get_proof_bytes()), want=acc.M1)
        if not c.verify_servers_proof_bytes(acc.M2):
            fail("rejects-correct-server-proof", case=what, M2=acc.M2)

    from harness.hap_accessory import N as acc_N

    def rand_exchange(salt=None):
        pin = "%03d-%02d-%03d" % (rnd.randrange(1000), rnd.randrange(100), rnd.randrange(1000))
        s = salt if salt is not None else bytes(rnd.randrange(256) for _ in range(16))
        a = rnd.getrandbits(128)
        b = rnd.getrandbits(256)
        return (pin, s, a, b) + exchange(pin, s, a, b)

    n_rand = 40 if tier == "thorough" else 12
    for _ in range(n_rand):
        pin, s, a, b, acc, c = rand_exchange()
        check(acc, c, "random")
        # a wrong setup code never yields a proof the accessory accepts
        acc2, c2 = exchange(pin, s, a, b, client_pin="999-99-999" if pin != "999-99-999" else "000-00-000")
        cases += 1
        if bytes(c2.get_proof_bytes()) == acc2.M1:
            fail("wrong-code-accepted", pin=pin)
    for s in (bytes(16), bytes(15) + b"\x01", b"\x00" + bytes(range(1, 16)), bytes(8) + bytes(range(8))):
        pin, s_, a, b, acc, c = rand_exchange(salt=s)
        check(acc, c, f"salt {s.hex()}")
    # directed search for the 1-in-256 leading-zero cases
    MAX = 4000 if tier == "thorough" else 1500
    preds = {
        "A": lambda acc, c: bytes(c.get_public_key_bytes())[0] == 0,
        "B": lambda acc, c: PAD(acc.B)[0] == 0,
        "S": lambda acc, c: PAD(acc.S)[0] == 0,
        "K": lambda acc, c: acc.K[0] == 0,
        "M1": lambda acc, c: acc.M1[0] == 0,
        "M2": lambda acc, c: acc.M2[0] == 0,
    }
    found = {}
    tries = 0
    while len(found) < len(preds) and tries < MAX:
        tries += 1
        pin, s, a, b, acc, c = rand_exchange()
        for k, p in preds.items():
            if k not in found and p(acc, c):
                found[k] = True
                check(acc, c, f"leading zero in {k}")
    # single-bit corruptions of the accessory's proof
    for _ in range(3 if tier == "thorough" else 1):
        pin, s, a, b, acc, c = rand_exchange()
        for bit in range(512):
            cases += 1
            m = bytearray(acc.M2)
            m[bit // 8] ^= 1 << (bit % 8)
            if c.verify_servers_proof_bytes(bytes(m)):
                fail("accepts-corrupted-server-proof", bit=bit)
    return {"cases": cases, "failures": failures, "bound": f"{n_rand} random exchanges, 4 special salts, directed leading-zero search (found: {sorted(found)}, {tries} tries), 512 bit flips"}


if __name__ == "__main__":
    import json
    import sys

    print(json.dumps(run(sys.argv[1] if len(sys.argv) > 1 else "quick"), indent=1)[:2500])
