"""Native bounded stand-in / replay for C07: the REAL HttpResponse, driven by the REAL feed loop
(InsecureHomeKitProtocol.data_received with recording stand-ins for the request futures and the connection), on
hand-serialised message sequences cut at every single and every double position (streams up to LIMIT bytes) and at
random multi-cut positions otherwise.  The oracle is the list of messages that was serialised."""
import itertools
import random


def serialise(msg):
    kind, code, headers, body, chunks = msg
    out = f"{kind}/1.1 {code} {'OK' if code == 200 else 'No Content' if code == 204 else 'Multi-Status'}\r\n".encode() if kind == "HTTP" else f"EVENT/1.0 {code} OK\r\n".encode()
    for k, v in headers:
        out += f"{k}: {v}\r\n".encode()
    if chunks is not None:
        out += b"Transfer-Encoding: chunked\r\n\r\n"
        for c in chunks:
            out += b"%x\r\n" % len(c) + c + b"\r\n"
        out += b"0\r\n\r\n"
    elif body is not None:
        out += b"Content-Length: %d\r\n\r\n" % len(body) + body
    else:
        out += b"\r\n"
    return out


def corpus(rnd, tier):
    bodies = [b"", b"x", b'{"a":1}', b"line1\r\nline2\r\n", b"0\r\n\r\n", bytes(range(256))[:40]]
    msgs = []
    for b in bodies:
        msgs.append(("HTTP", 200, [("Content-Type", "application/hap+json")], b, None))
    msgs.append(("HTTP", 204, [], None, None))
    msgs.append(("HTTP", 207, [("content-type", "application/hap+json")], b'{"characteristics":[]}', None))
    msgs.append(("EVENT", 200, [("Content-Type", "application/hap+json")], b'{"characteristics":[{"aid":1,"iid":9,"value":true}]}', None))
    msgs.append(("HTTP", 200, [("Content-Type", "application/hap+json")], None, [b"hello", b" world"]))
    msgs.append(("HTTP", 200, [], None, [b"\r\n", b"0\r\n", b"A" * 17]))
    msgs.append(("EVENT", 200, [], None, [b"{}"]))
    msgs.append(("HTTP", 200, [("CONTENT-TYPE", "x"), ("X-Other", "a: b")], b"yz", None))
    return msgs


def expected(msg):
    kind, code, headers, body, chunks = msg
    hs = [(k.title(), v) for k, v in headers]
    if chunks is not None:
        hs.append(("Transfer-Encoding", "chunked"))
        body = b"".join(chunks)
    elif body is not None:
        hs.append(("Content-Length", str(len(body))))
    return (kind, code, hs, bytes(body or b""))


class _Fut:
    def __init__(self, log):
        self.log = log

    def done(self):
        return False

    def set_result(self, r):
        self.log.append(r)


class _Conn:
    def __init__(self, log):
        self.log = log

    def event_received(self, r):
        self.log.append(r)


def feed(stream, cuts):
    from aiohomekit.controller.ip.connection import InsecureHomeKitProtocol

    from aiohomekit.http.response import HttpResponse

    log = []
    p = InsecureHomeKitProtocol.__new__(InsecureHomeKitProtocol)  # (the constructor wants a running event loop)
    p.connection = _Conn(log)
    p.current_response = HttpResponse()
    p.result_cbs = [_Fut(log) for _ in range(16)]
    prev = 0
    for c in list(cuts) + [len(stream)]:
        if c > prev:
            p.data_received(stream[prev:c])
        prev = c
    got = [(r.get_http_name().upper(), r.code, list(r.headers), bytes(r.body)) for r in log]
    cur = p.current_response
    pristine = cur._state == 0 and len(cur._raw_response) == 0 and len(cur.body) == 0
    return got, pristine


def run(tier="quick", seed=0, tag="C07#native"):
    rnd = random.Random(seed)
    msgs = corpus(rnd, tier)
    cases = 0
    failures = []
    seen = set()
    LIMIT = 200 if tier == "thorough" else 120

    def fail(what, **kw):
        if what not in seen:
            seen.add(what)
            failures.append({"clause": f"{tag}.{what}", "scenario": {k: repr(v)[:300] for k, v in kw.items()}})

    seqs = [[m] for m in msgs] + [[a, b] for a in msgs[::3] for b in msgs[1::4]] + [[msgs[0], msgs[9], msgs[6], msgs[10]]]
    for seq in seqs:
        stream = b"".join(serialise(m) for m in seq)
        want = [expected(m) for m in seq]
        n = len(stream)
        plans = [()] + [(i,) for i in range(1, n)]
        if n <= LIMIT:
            plans += list(itertools.combinations(range(1, n), 2))
        else:
            plans += [tuple(sorted(rnd.sample(range(1, n), 2))) for _ in range(1500)]
        plans += [tuple(sorted(rnd.sample(range(1, n), min(n - 1, rnd.randrange(3, 12))))) for _ in range(60)]
        plans.append(tuple(range(1, n)))  # byte at a time
        for cuts in plans:
            cases += 1
            try:
                got, pristine = feed(stream, cuts)
            except Exception as e:  # noqa: BLE001
                fail("raises", cuts=cuts[:6], raised=e, stream=stream[:80])
                continue
            if got != want:
                fail("messages-differ", cuts=cuts[:6], got=got, want=want)
            elif not pristine:
                fail("bytes-left-or-lost", cuts=cuts[:6], stream=stream[:80])
    return {"cases": cases, "failures": failures, "bound": f"{len(seqs)} message sequences; all single cuts, all double cuts up to {LIMIT} bytes (random above), random 3..11 cuts, byte at a time"}


if __name__ == "__main__":
    import json
    import sys

    print(json.dumps(run(sys.argv[1] if len(sys.argv) > 1 else "quick"), indent=1)[:2500])
