"""Native bounded stand-in / replay for C16: every TLVStruct subclass found by reflection, against an independent
reference codec (written from the HAP TLV8 appendix, shares no code with aiohomekit.tlv8).

Bounds (stated in the evidence): value sizes 1, 254, 255, 256, 510, 511 for str/bytes; lists of 1..3 messages; packed id
lists of 0..6 ids covering every byte value; nesting as deep as the types allow; unset-field patterns none / each field
alone / every second field; accessory databases of 1..3 accessories x services x characteristics."""
import dataclasses
import enum
import importlib
import pkgutil
import random
import typing

SIZES = [1, 254, 255, 256, 510, 511]


def classes():
    import aiohomekit
    from aiohomekit.tlv8 import TLVStruct

    for m in pkgutil.walk_packages(aiohomekit.__path__, "aiohomekit."):
        if m.name.endswith("__main__") or ".testing" in m.name:
            continue
        try:
            importlib.import_module(m.name)
        except Exception:  # noqa: BLE001
            continue
    seen, todo = [], list(TLVStruct.__subclasses__())
    while todo:
        c = todo.pop()
        if c not in seen and dataclasses.is_dataclass(c):
            seen.append(c)
        todo.extend(c.__subclasses__())
    return sorted(seen, key=lambda c: (c.__module__, c.__qualname__))


def ref_chunks(t, e):
    out = bytearray()
    for i in range(0, len(e), 255):
        c = e[i:i + 255]
        out += bytes([t, len(c)]) + c
    return bytes(out)


WIDTH = {"u8": 1, "u16": 2, "u32": 4, "u64": 8, "u128": 16, "bu16": 2}


def kind(tp):
    from aiohomekit.tlv8 import TLVStruct

    if typing.get_origin(tp) is not None:
        return "list"
    if isinstance(tp, type) and issubclass(tp, TLVStruct):
        return "struct"
    if isinstance(tp, type) and issubclass(tp, enum.IntEnum):
        return "enum"
    if isinstance(tp, type):
        for c in tp.__mro__:
            if c.__name__ in WIDTH and c.__module__ == "aiohomekit.tlv8":
                return c.__name__
    if tp is str:
        return "str"
    if tp is bytes:
        return "bytes"
    return None


def ref_ser(tp, v):
    k = kind(tp)
    if k == "list":
        inner = tp.__args__[0]
        if kind(inner) == "struct":
            return b"\x00\x00".join(ref_encode(x) for x in v)
        return b"".join(ref_ser(inner, x) for x in v)
    if k == "struct":
        return ref_encode(v)
    if k == "enum":
        return bytes([int(v)])
    if k == "bu16":
        return int(v).to_bytes(2, "big")
    if k in WIDTH:
        return int(v).to_bytes(WIDTH[k], "little")
    if k == "str":
        return v.encode("utf-8")
    return bytes(v)


def fields_of(cls):
    hints = typing.get_type_hints(cls)
    return [(f, hints.get(f.name, f.type)) for f in dataclasses.fields(cls) if f.init]


def ref_encode(obj):
    out = b""
    for f, tp in fields_of(type(obj)):
        v = getattr(obj, f.name)
        if v is None:
            continue
        out += ref_chunks(int(f.metadata["tlv_type"]), ref_ser(tp, v))
    return out


def dup_types(cls):
    seen, dups = {}, set()
    for f, _ in fields_of(cls):
        t = int(f.metadata["tlv_type"])
        if t in seen:
            dups.add(seen[t])  # the EARLIER field of a duplicated type cannot be told apart on the wire
        seen[t] = f.name
    return dups


def gen_value(tp, rnd, size, depth=0):
    k = kind(tp)
    if k == "list":
        inner = tp.__args__[0]
        if kind(inner) != "struct":
            return None  # packed id lists: checked separately (linked_ids)
        return [gen_value(inner, rnd, size if j == 0 else 1, depth + 1) for j in range(rnd.choice([1, 2, 3]))]
    if k == "struct":
        return gen_obj(tp, rnd, size, depth + 1)
    if k == "enum":
        return rnd.choice(list(tp))
    if k in WIDTH:
        w = WIDTH[k]
        return tp(rnd.choice([x for x in (0, 1, 255, 256, 256 ** w - 1, rnd.randrange(256 ** w)) if x < 256 ** w]))
    if k == "str":
        return "".join(rnd.choice("abcXYZ019 ") for _ in range(size))
    if k == "bytes":
        return bytes(rnd.randrange(256) for _ in range(size))
    return None


def gen_obj(cls, rnd, size, depth=0, keep=None):
    kw = {}
    skip = dup_types(cls)
    for j, (f, tp) in enumerate(fields_of(cls)):
        if f.name in skip or (keep is not None and not keep(j)):
            continue
        v = gen_value(tp, rnd, size, depth)
        if v is not None and v != []:
            kw[f.name] = v
    return cls(**kw)


def run(tier="quick", seed=0, tag="C16#native"):
    rnd = random.Random(seed)
    cases = 0
    failures = []
    seen_kinds = set()

    def fail(kind_, **kw):
        if kind_ not in seen_kinds:
            seen_kinds.add(kind_)
            failures.append({"clause": f"{tag}.{kind_}", "scenario": {k: repr(v)[:300] for k, v in kw.items()}})

    reps = 6 if tier == "thorough" else 2
    for cls in classes():
        n = len(fields_of(cls))
        patterns = [lambda j: True, lambda j: j % 2 == 0, lambda j: j % 2 == 1] + [(lambda j, k=k: j == k) for k in range(n)]
        for size in SIZES:
            for keep in patterns:
                for _ in range(reps if size in (255, 256) else 1):
                    obj = gen_obj(cls, rnd, size, keep=keep)
                    cases += 1
                    try:
                        enc = obj.encode()
                    except Exception as e:  # noqa: BLE001
                        fail("encode-raises", cls=cls.__name__, obj=obj, raised=e)
                        continue
                    if enc != ref_encode(obj):
                        fail("not-canonical", cls=cls.__name__, obj=obj, got=enc.hex()[:200], want=ref_encode(obj).hex()[:200])
                        continue
                    try:
                        back = cls.decode(enc)
                    except Exception as e:  # noqa: BLE001
                        fail("decode-raises", cls=cls.__name__, obj=obj, raised=e)
                        continue
                    if back != obj:
                        fail("round-trip", cls=cls.__name__, obj=obj, back=back)
    r2 = linked_ids(tier, rnd, tag)
    cases += r2[0]
    failures += r2[1]
    r3 = meshcop_duplicates(tag)
    cases += r3[0]
    failures += r3[1]
    r4 = accessory_database(tier, rnd, tag)
    cases += r4[0]
    failures += r4[1]
    r5 = struct_valued_characteristics(tier, rnd, tag)
    cases += r5[0]
    failures += r5[1]
    return {"cases": cases, "failures": failures, "bound": "sizes 1,254,255,256,510,511; lists of 1..3 messages; id lists of 0..6 ids; databases of 1..3 x 1..3 x 1..3; seeded random values"}


def id_lists(tier, rnd):
    yield []
    for b in range(256):  # every byte value in the low and in the high byte, at every list length 1..6
        n = 1 + b % 6
        yield [(b + 256 * rnd.randrange(256)) for _ in range(n)]
        yield [(rnd.randrange(256) + 256 * b) for _ in range(n)]
    for _ in range(400 if tier == "thorough" else 60):
        yield [rnd.randrange(65536) for _ in range(rnd.randrange(7))]


def linked_ids(tier, rnd, tag):
    """a conformant accessory's service signature: properties + packed 16-bit ids of the linked services"""
    from aiohomekit.controller.ble.structs import Service
    from aiohomekit.controller.coap.structs import Pdu09Service

    cases, failures = 0, []
    for cls, ptype, ltype in ((Service, 0x0F, 0x10), (Pdu09Service, 0x0F, 0x10)):
        hints = {f.name: int(f.metadata["tlv_type"]) for f, _ in fields_of(cls)}
        ltype = hints["linked_services"]
        for ids in id_lists(tier, rnd):
            cases += 1
            raw = b"".join(i.to_bytes(2, "little") for i in ids)
            wire = ref_chunks(ltype, raw)
            try:
                got = cls.decode(wire).linked_services
            except Exception as e:  # noqa: BLE001
                got = e
            want = ids if ids else None
            if got != want and not any(f["clause"].endswith(".linked-ids") for f in failures):
                failures.append({"clause": f"{tag}.linked-ids", "scenario": {"cls": cls.__name__, "ids": repr(ids), "wire": wire.hex(), "decoded": repr(got)}})
            if ids and not any(f["clause"].endswith("linked-ids-encode") for f in failures):
                try:
                    enc = cls(linked_services=ids).encode()
                    if enc != wire:
                        failures.append({"clause": f"{tag}.linked-ids-encode", "scenario": {"cls": cls.__name__, "ids": repr(ids), "encoded": enc.hex(), "want": wire.hex()}})
                except Exception as e:  # noqa: BLE001
                    failures.append({"clause": f"{tag}.linked-ids-encode", "scenario": {"cls": cls.__name__, "ids": repr(ids), "raised": repr(e)}})
    return cases, failures


def meshcop_duplicates(tag):
    cases, failures = 0, []
    for cls in classes():
        for name in sorted(dup_types(cls)):
            cases += 1
            obj = cls(**{name: b"\x01\x02"})
            back = cls.decode(obj.encode())
            if back != obj:
                failures.append({"clause": f"{tag}.duplicate-tlv-type", "scenario": {"cls": cls.__name__, "field": name, "sent": repr(obj)[:200], "back": repr(back)[:200]}})
                return cases, failures
    return cases, failures


def accessory_database(tier, rnd, tag):
    """reference-encoded CoAP accessory databases (no linked services: those are linked_ids' subject)"""
    from aiohomekit.controller.coap.structs import (
        Pdu09Accessory, Pdu09AccessoryContainer, Pdu09Characteristic, Pdu09CharacteristicContainer, Pdu09Database,
        Pdu09Service, Pdu09ServiceContainer,
    )
    from aiohomekit.tlv8 import u16, u128

    cases, failures = 0, []
    for na in (1, 2, 3):
        for ns in (1, 2, 3):
            for nc in (1, 2, 3):
                accs = []
                iid = 1
                for a in range(na):
                    svcs = []
                    for s_ in range(ns):
                        chars = []
                        for c in range(nc):
                            iid += 1
                            chars.append(Pdu09CharacteristicContainer(characteristic=Pdu09Characteristic(
                                type=u128(rnd.randrange(1, 2 ** 128)), instance_id=u16(iid), properties=u16(rnd.randrange(65536)),
                                presentation_format=bytes([rnd.choice([1, 4, 8, 0x19]), 0, 0, 0x27, 1, 0, 0]),
                                user_descriptor=bytes(rnd.randrange(32, 127) for _ in range(rnd.choice(SIZES))),
                            )))
                        iid += 1
                        svcs.append(Pdu09ServiceContainer(service=Pdu09Service(
                            type=u128(rnd.randrange(1, 2 ** 128)), instance_id=u16(iid), _characteristics=chars, properties=u16(rnd.randrange(4)),
                        )))
                    accs.append(Pdu09AccessoryContainer(accessory=Pdu09Accessory(instance_id=u16(a + 1), _services=svcs)))
                db = Pdu09Database(_accessories=accs)
                wire = ref_encode(db)
                cases += 1
                try:
                    back = Pdu09Database.decode(wire)
                except Exception as e:  # noqa: BLE001
                    failures.append({"clause": f"{tag}.database-decode-raises", "scenario": {"shape": (na, ns, nc), "raised": repr(e)}})
                    return cases, failures
                if back != db:
                    failures.append({"clause": f"{tag}.database-decode", "scenario": {"shape": (na, ns, nc)}})
                    return cases, failures
    return cases, failures


def struct_valued_characteristics(tier, rnd, tag):
    """Characteristic.value of every characteristic type declared with a TLV struct (model/characteristics/data.py): the
    base64 TLV8 value written by a reference encoder is returned as the message (or list of messages) that was encoded"""
    import base64

    from aiohomekit.model.characteristics.characteristic import Characteristic
    from aiohomekit.model.characteristics.data import characteristics as table

    class Svc:
        class accessory:  # noqa: N801
            @staticmethod
            def get_next_id():
                return 7

    cases, failures = 0, []
    for ctype, extra in table.items():
        st = extra.get("struct")
        if not st:
            continue
        for size in (1, 255, 256):
            for _ in range(3 if tier == "thorough" else 1):
                cases += 1
                if extra.get("array"):
                    objs = [gen_obj(st, rnd, size) for _ in range(rnd.choice([1, 2, 3]))]
                    wire = b"\x00\x00".join(ref_encode(o) for o in objs)
                    want = objs
                else:
                    want = gen_obj(st, rnd, size)
                    wire = ref_encode(want)
                if not wire:
                    continue
                try:
                    ch = Characteristic(Svc, ctype)
                    ch._value = base64.b64encode(wire).decode()
                    got = ch.value
                except Exception as e:  # noqa: BLE001
                    failures.append({"clause": f"{tag}.struct-characteristic-raises", "scenario": {"type": ctype, "struct": st.__name__, "raised": repr(e)}})
                    return cases, failures
                if got != want:
                    failures.append({"clause": f"{tag}.struct-characteristic-value", "scenario": {"type": ctype, "struct": st.__name__, "got": repr(got)[:200], "want": repr(want)[:200]}})
                    return cases, failures
    return cases, failures


if __name__ == "__main__":
    import json
    import sys

    r = run(sys.argv[1] if len(sys.argv) > 1 else "quick")
    print(json.dumps(r, indent=1)[:3000])
