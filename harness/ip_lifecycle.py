"""Native replay harness for the IP connection life cycle (C10/C11/C12): the REAL SecureHomeKitConnection /
IpPairing-level code on a real asyncio loop with a fake network.  The fake network counts, per moment, how many
transports the controller has opened and not closed; accessories are scripted per connection attempt."""
import asyncio
import struct

from harness import hap_accessory as H


class Net:
    def __init__(self):
        self.transports = []
        self.max_open = 0
        self.attempts = []  # (virtual time, host)
        self.sleeps = []  # durations the reconnect loop asked to sleep (the sleep itself is skipped)

    def open_now(self):
        return [t for t in self.transports if not t.closed_by_controller and not t.closed_by_peer]

    def note(self):
        self.max_open = max(self.max_open, len(self.open_now()))


class FakeTransport:
    def __init__(self, net, loop, accessory_script, host):
        self.net, self.loop, self.script, self.host = net, loop, accessory_script, host
        self.closed_by_controller = False
        self.closed_by_peer = False
        self.protocol = None
        self.buf = b""
        self.delivered_lost = False

    def is_closing(self):
        return self.closed_by_controller or self.closed_by_peer

    def set_protocol(self, p):
        self.protocol = p

    def get_extra_info(self, *a, **k):
        return None

    def writelines(self, lines):
        self.write(b"".join(bytes(x) for x in lines))

    def write(self, data):
        if self.is_closing():
            return
        self.buf += bytes(data)
        self.loop.call_soon(self.script.on_data, self)

    def write_eof(self):
        pass

    def close(self):
        if not self.closed_by_controller:
            self.closed_by_controller = True
            if not self.delivered_lost:
                self.delivered_lost = True
                self.loop.call_soon(self.protocol.connection_lost, None)

    def peer_close(self):
        """the accessory (or the network) closes this connection"""
        if not self.closed_by_peer and not self.closed_by_controller:
            self.closed_by_peer = True
        if not self.delivered_lost:
            self.delivered_lost = True
            self.loop.call_soon(self.protocol.connection_lost, None)

    def deliver(self, data):
        if not self.is_closing():
            self.protocol.data_received(data)


def http_tlv(items, code=200):
    body = H.tlv(items)
    reason = {200: b"OK", 429: b"Too Many Requests", 470: b"Connection Authorization Required"}.get(code, b"X")
    return b"HTTP/1.1 %d %s\r\nContent-Type: application/pairing+tlv8\r\nContent-Length: %d\r\n\r\n%s" % (code, reason, len(body), body)


class VerifyScript:
    """one connection's accessory: answers /pair-verify with the given hap_accessory variant"""

    def __init__(self, acc, variant="honest", m4_variant="honest", ios=None):
        self.acc, self.variant, self.m4_variant, self.ios = acc, variant, m4_variant, ios
        self.step = 0

    def on_data(self, t):
        if b"\r\n\r\n" not in t.buf:
            return
        head, _, rest = t.buf.partition(b"\r\n\r\n")
        n = 0
        for line in head.split(b"\r\n"):
            if line.lower().startswith(b"content-length:"):
                n = int(line.split(b":")[1])
        if len(rest) < n:
            return
        body, t.buf = rest[:n], rest[n:]
        req = H.untlv(body)
        self.step += 1
        if self.variant == "peer_close_at_m1":
            t.peer_close()
            return
        if self.variant == "http_429":
            t.deliver(http_tlv([(6, b"\x02"), (7, b"\x07")], 429))
            return
        if self.step == 1:
            m2 = self.acc.verify_m2(req, self.variant if self.variant in H.VERIFY_BAD else "honest")
            t.deliver(http_tlv(m2))
        else:
            ios_id, ios_ltpk = self.ios
            m4 = self.acc.verify_m4(req, ios_id, ios_ltpk, self.m4_variant)
            t.deliver(http_tlv(m4))


async def run_history(outcomes, then=("close",), hosts=("192.0.2.1",)):
    """outcomes: per connection attempt, the accessory variant ('honest' succeeds).  Returns observations."""
    from aiohomekit.controller.ip import connection as C
    from cryptography.hazmat.primitives.asymmetric import ed25519
    from cryptography.hazmat.primitives import serialization

    loop = asyncio.get_running_loop()
    net = Net()
    acc = H.Accessory()
    ios_ltsk = ed25519.Ed25519PrivateKey.generate()
    ios_ltpk = ios_ltsk.public_key().public_bytes(*H.RAW)
    ios_id = "decc6fa3-de3e-41c9-adba-ef7409821bfc"
    pairing = {
        "AccessoryPairingID": acc.acc_id.decode(), "AccessoryLTPK": acc.ltpk.hex(), "iOSPairingId": ios_id,
        "iOSDeviceLTSK": ios_ltsk.private_bytes(serialization.Encoding.Raw, serialization.PrivateFormat.Raw, serialization.NoEncryption()).hex(),
        "iOSDeviceLTPK": ios_ltpk.hex(), "AccessoryIP": hosts[0], "AccessoryIPs": list(hosts), "AccessoryPort": 80,
    }
    scripts = [VerifyScript(acc, v, ios=(ios_id.encode(), ios_ltpk)) for v in outcomes]
    attempt = {"n": 0}

    class Sock:
        def __init__(self, host):
            self.host = host

        def getpeername(self):
            return (self.host, 80)

        def setsockopt(self, *a):
            pass

    async def start_connection(addr_infos, **kw):
        host = addr_infos[0][3]
        net.attempts.append(host)
        return Sock(host)

    async def create_connection(factory, sock=None, **kw):
        i = min(attempt["n"], len(scripts) - 1)
        attempt["n"] += 1
        t = FakeTransport(net, loop, scripts[i], sock.host)
        p = factory()
        t.protocol = p
        net.transports.append(t)
        net.note()
        p.connection_made(t)
        return t, p

    real_sleep = asyncio.sleep

    async def fast_sleep(d, *a):
        net.sleeps.append(d)
        await real_sleep(0)

    saved = (C.aiohappyeyeballs.start_connection, loop.create_connection, C.asyncio.sleep)
    C.aiohappyeyeballs.start_connection = start_connection
    loop.create_connection = create_connection
    C.asyncio.sleep = fast_sleep
    obs = {"close_raised": None}
    try:
        conn = C.SecureHomeKitConnection(None, pairing)
        conn._start_connector()
        for _ in range(400):
            await real_sleep(0)
            net.note()
            if conn._connector.done() or conn.is_connected:
                break
        obs["connected"] = bool(conn.is_connected)
        obs["connector_exception"] = repr(conn._connector.exception()) if conn._connector.done() and not conn._connector.cancelled() and conn._connector.exception() else None
        for step in then:
            if step == "close":
                try:
                    await conn.close()
                except BaseException as e:  # noqa: BLE001
                    obs["close_raised"] = repr(e)
            elif step == "old_peer_closes":
                # the first (abandoned) connection is finally closed by its peer
                net.transports[0].peer_close()
            for _ in range(10):
                await real_sleep(0)
            net.note()
            if step == "old_peer_closes":
                obs["current_dropped_by_stale_loss"] = bool(
                    len(net.transports) >= 2 and not conn.is_connected and (net.transports[-1].closed_by_controller or conn.transport is None)
                )
        obs["max_open"] = net.max_open
        obs["open_at_end"] = len(net.open_now())
        obs["attempts"] = len(net.attempts)
        obs["sleeps"] = list(net.sleeps)
        if not conn.closing:
            try:
                await conn.close()
            except BaseException:  # noqa: BLE001
                pass
    finally:
        C.aiohappyeyeballs.start_connection, loop.create_connection, C.asyncio.sleep = saved
    return obs


def run(tier="quick", seed=0, tag="C11/ip#native"):
    cases = 0
    failures = []
    histories = [
        (["honest"], ("close",)),
        (["wrong_ltsk", "honest"], ("close",)),
        (["sig_bitflip", "tag_bitflip", "honest"], ("close",)),
        (["peer_close_at_m1", "honest"], ("close",)),
        (["http_429", "honest"], ("close",)),
        (["wrong_id_signed", "honest"], ("close",)),
        (["no_enc", "honest"], ("close",)),
        (["error_auth"], ("close",)),
        (["wrong_ltsk", "honest"], ("old_peer_closes", "close")),
        (["wrong_id_signed", "honest"], ("old_peer_closes", "close")),
    ]

    async def main():
        nonlocal cases
        for outcomes, then in histories:
            cases += 1
            o = await run_history(outcomes, then, hosts=("192.0.2.1", "192.0.2.2"))
            probs = []
            if o["max_open"] > 1:
                probs.append(f"{o['max_open']} connections open at the same time")
            if o["open_at_end"] != 0:
                probs.append(f"{o['open_at_end']} connection(s) still open after close()")
            if o["close_raised"]:
                probs.append(f"close() raised {o['close_raised']}")
            if o.get("current_dropped_by_stale_loss"):
                probs.append("loss of an abandoned connection dropped the connection in use")
            if probs:
                failures.append({"clause": f"{tag}.history", "scenario": {"attempt_outcomes": outcomes, "then": list(then), "problems": probs, "observed": o}})

    asyncio.run(main())
    return {"cases": cases, "distinct": cases, "failures": failures, "bound": "scripted histories: each pair-verify failure class then success, peer close of the abandoned connection, close()"}



def run_backoff(tier="quick", seed=0, tag="C10/ip#native"):
    """bounded stand-in for C10: the REAL connector (SecureHomeKitConnection._reconnect / _connect_once) against the scripted
    accessory failing pair-verify k times (k = 0..7, and 14 in the thorough tier) before an honest exchange: the connection
    is eventually established, exactly k + 1 attempts are made (a single connector), every pause is 1.5 x the previous
    one starting at 0.75 s and never more than 60 s."""
    cases, failures, seen = 0, [], set()

    def fail(what, **kw):
        if what not in seen:
            seen.add(what)
            failures.append({"clause": f"{tag}.{what}", "scenario": {k: repr(v)[:300] for k, v in kw.items()}})

    for k in list(range(0, 8)) + ([14] if tier == "thorough" else []):
        for bad in ("tag_bitflip", "no_signature"):
            cases += 1
            obs = asyncio.run(run_history([bad] * k + ["honest"], then=()))
            if not obs["connected"]:
                fail("gave-up-reconnecting", k=k, variant=bad, obs=obs)
                continue
            if obs["attempts"] != k + 1:
                fail("attempt-count", k=k, variant=bad, attempts=obs["attempts"])
            want = []
            iv = 0.5
            for _ in range(k):
                iv = min(60, 1.5 * iv)
                want.append(iv)
            got = [d for d in obs["sleeps"] if d > 0]
            if len(got) != k or any(abs(a - b) > 1e-9 for a, b in zip(got, want)) or any(d > 60 for d in got):
                fail("back-off-sequence", k=k, variant=bad, sleeps=got, want=want)
            if obs["max_open"] > 1 or obs["open_at_end"] > 1:
                fail("more-than-one-open-connection", k=k, obs=obs)
    return {"cases": cases, "failures": failures, "bound": "k = 0..7 (14) failed pair-verify attempts before success, two failure kinds"}
