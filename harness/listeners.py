"""Native bounded stand-in for C12: the REAL listener dispatch (AbstractPairing._callback_listeners via IpPairing), the REAL
HomeKitConnection.event_received and IpPairing.event_received with real bytes.
Bounds: 0..4 listeners, each raising or not (all 2^n patterns), 40 event bodies (valid JSON objects, empty, non-UTF-8,
non-JSON, random bytes)."""
import itertools
import logging
import random


def run(tier="quick", seed=0, tag="C12#native"):
    from aiohomekit.controller.ip.connection import HomeKitConnection
    from aiohomekit.controller.ip.pairing import IpPairing

    logging.disable(logging.CRITICAL)
    rnd = random.Random(seed)
    cases, failures, seen = 0, [], set()

    def fail(what, **kw):
        if what not in seen:
            seen.add(what)
            failures.append({"clause": f"{tag}.{what}", "scenario": {k: repr(v)[:300] for k, v in kw.items()}})

    for n in range(0, 5):
        for pattern in itertools.product([False, True], repeat=n):
            cases += 1
            calls = []
            p = IpPairing.__new__(IpPairing)

            def mk(j, bad):
                def listener(ev):
                    calls.append((j, ev))
                    if bad:
                        raise RuntimeError("listener failed")

                return listener

            p.listeners = {mk(j, bad) for j, bad in enumerate(pattern)}
            ev = {(1, 9): {"value": rnd.randrange(10)}}
            try:
                p._callback_listeners(ev)
            except Exception as e:  # noqa: BLE001
                fail("dispatch-raises", pattern=pattern, raised=e)
                continue
            if sorted(j for j, _ in calls) != list(range(n)) or any(e is not ev and e != ev for _, e in calls):
                fail("not-every-listener-exactly-once", pattern=pattern, calls=[j for j, _ in calls])

    class Owner:
        def __init__(self):
            self.got = []

        def event_received(self, parsed):
            self.got.append(parsed)

    class Ev:
        def __init__(self, body):
            self.body = body

    bodies = [b"", b"{}", b'{"characteristics":[{"aid":1,"iid":9,"value":true}]}', b"\xff\xfe{}", b"not json", b"[1,2", b"{\"a\":", b"\x00"]
    bodies += [bytes(rnd.randrange(256) for _ in range(rnd.randrange(0, 30))) for _ in range(32)]
    import json

    for body in bodies:
        cases += 1
        c = HomeKitConnection.__new__(HomeKitConnection)
        c.owner = Owner()
        try:
            c.event_received(Ev(bytearray(body)))
        except Exception as e:  # noqa: BLE001
            fail("event-body-raises", body=body, raised=e)
            continue
        try:
            want = [json.loads(body.decode("utf-8"))] if body.decode("utf-8") else []
        except Exception:  # noqa: BLE001
            want = []
        if c.owner.got != want:
            fail("event-not-handed-over-exactly-once-or-junk-delivered", body=body, got=c.owner.got, want=want)
    return {"cases": cases, "failures": failures, "bound": "all raise/no-raise patterns of 0..4 listeners; 40 event bodies"}


if __name__ == "__main__":
    import json as _j

    print(_j.dumps(run(), indent=1)[:2500])
