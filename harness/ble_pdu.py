"""Native bounded stand-in for the BLE PDU layer (C17): the REAL _read_pdu/_write_pdu driven with a fake GATT
client against an independent reference of the HAP-BLE fragmentation scheme."""
import asyncio
import itertools
import os
import random
import struct

from cryptography.hazmat.primitives.ciphers.aead import ChaCha20Poly1305


def compositions(n, first_min=0):
    """all ways to cut a body of n bytes into a first part (possibly empty) and non-empty continuation parts"""
    if n == 0:
        yield [0]
        return
    for first in range(0, n + 1):
        rest = n - first
        if rest == 0:
            yield [first]
            continue
        for k in range(1, rest + 1):
            for cuts in itertools.combinations(range(1, rest), k - 1):
                parts = [b - a for a, b in zip((0,) + cuts, cuts + (rest,))]
                yield [first] + parts


class FakeClient:
    address = "AA:BB:CC:DD:EE:FF"

    def __init__(self, reads=(), fragment_size=64):
        self.reads = list(reads)
        self.writes = []
        self.fs = fragment_size
        self.overheads = []

    async def read_gatt_char(self, handle):
        return bytearray(self.reads.pop(0))

    async def write_gatt_char(self, handle, data, response):
        self.writes.append(bytes(data))

    def determine_fragment_size(self, overhead, handle):
        self.overheads.append(overhead)
        return self.fs


class Handle:
    properties = ["write"]


def run(tier="quick", seed=0, tag="C17/ble#native"):
    from aiohomekit.controller.ble.client import _read_pdu, _write_pdu
    from aiohomekit.controller.ble.key import DecryptionKey, EncryptionKey
    from aiohomekit.pdu import OpCode, PDUStatus

    rnd = random.Random(seed)
    cases = 0
    failures = []

    async def read_case(body, parts, keyed, status=0, tid=9):
        nonlocal cases
        cases += 1
        frags = []
        pos = parts[0]
        frags.append(bytes([2, tid, status]) + struct.pack("<H", len(body)) + body[:pos])
        for p in parts[1:]:
            frags.append(bytes([0x82, tid]) + body[pos:pos + p])
            pos += p
        key = os.urandom(32)
        wire = frags
        dk = None
        if keyed:
            wire = [ChaCha20Poly1305(key).encrypt(bytes(4) + struct.pack("<Q", i), f, b"") for i, f in enumerate(frags)]
            dk = DecryptionKey(key)
        c = FakeClient(wire + [b"\x00" * 40] * 2)
        try:
            st, got = await _read_pdu(c, dk, Handle(), tid)
            ok = bytes(got) == body and st == PDUStatus(status) and len(c.reads) == 2 and (dk is None or dk.counter == len(frags))
            info = {"got_len": len(got), "unread_fragments": len(c.reads) - 2}
        except Exception as e:  # noqa: BLE001
            ok, info = False, {"raised": repr(e)}
        if not ok and len(failures) < 3:
            failures.append({"clause": f"{tag}.read", "scenario": {"body_len": len(body), "parts": parts, "encrypted": keyed, **info}})

    async def write_case(n, fs, keyed, tid=7, iid=0x1234):
        nonlocal cases
        cases += 1
        body = bytes(rnd.getrandbits(8) for _ in range(n)) if n else None
        key = os.urandom(32)
        ek = EncryptionKey(key) if keyed else None
        c = FakeClient(fragment_size=fs)
        await _write_pdu(c, ek, OpCode.CHAR_WRITE, Handle(), iid, body, tid)
        plain = c.writes
        try:
            if keyed:
                plain = [ChaCha20Poly1305(key).decrypt(bytes(4) + struct.pack("<Q", i), w, b"") for i, w in enumerate(c.writes)]
            # a conformant accessory reassembles
            first = plain[0]
            ok = first[:5] == bytes([0, OpCode.CHAR_WRITE.value, tid]) + struct.pack("<H", iid)
            if n:
                total = struct.unpack("<H", first[5:7])[0]
                got = first[7:]
                for f in plain[1:]:
                    ok = ok and f[0] == 0x80 and f[1] == tid and len(f) > 2
                    got += f[2:]
                ok = ok and total == n and got == body
            else:
                ok = ok and len(plain) == 1 and len(first) == 5
            ok = ok and all(len(f) <= fs for f in plain) and c.overheads == [16 if keyed else 0]
        except Exception as e:  # noqa: BLE001
            ok = False
        if not ok and len(failures) < 3:
            failures.append({"clause": f"{tag}.write", "scenario": {"body_len": n, "fragment_size": fs, "encrypted": keyed, "writes": len(c.writes)}})

    async def main():
        maxn = 9 if tier == "quick" else 12
        for n in range(0, maxn + 1):
            body = bytes(range(1, n + 1))
            for parts in compositions(n):
                await read_case(body, parts, False)
                if n <= 6 or tier == "thorough":
                    await read_case(body, parts, True)
        for _ in range(20 if tier == "quick" else 200):
            n = rnd.randint(1, 3000)
            body = bytes(rnd.getrandbits(8) for _ in range(n))
            k = rnd.randint(1, 12)
            cuts = sorted(rnd.sample(range(1, n), min(k - 1, n - 1))) if n > 1 else []
            parts = [b - a for a, b in zip([0] + cuts, cuts + [n])]
            if rnd.random() < 0.3:
                parts = [0] + parts
            await read_case(body, parts, rnd.random() < 0.5, status=rnd.choice([0, 0, 6]))
        for fs in (list(range(8, 65, 1 if tier == "thorough" else 7)) + [20, 155, 244, 496, 512]):
            for n in sorted({0, 1, fs - 8, fs - 7, fs - 6, 2 * fs - 9, 2 * fs - 8, 200} | ({rnd.randint(0, 5000)})):
                if n >= 0:
                    await write_case(n, fs, False)
                    await write_case(n, fs, True)

    asyncio.run(main())
    return {"cases": cases, "distinct": cases, "failures": failures, "bound": "reads: every fragmentation of bodies of 0..9 (thorough 0..12) bytes, plain and encrypted, random larger ones; writes: fragment sizes 8..64 (+20,155,244,496,512) x boundary body lengths"}
