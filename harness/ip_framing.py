"""Native replay / bounded stand-in for C05: drives the REAL SecureHomeKitProtocol with real keys on a fake
transport against an independent implementation of the HAP frame format (cryptography's ChaCha20Poly1305)."""
from __future__ import annotations

import asyncio
import os
import random
import struct

from cryptography.hazmat.primitives.ciphers.aead import ChaCha20Poly1305
from cryptography.exceptions import InvalidTag


def ref_frames(key, ctr, payload, sizes=None):
    out = b""
    i = 0
    k = 0
    while i < len(payload):
        n = 1024 if sizes is None else sizes[k % len(sizes)]
        chunk = payload[i:i + n]
        ln = struct.pack("<H", len(chunk))
        out += ln + ChaCha20Poly1305(key).encrypt(bytes(4) + struct.pack("<Q", ctr), chunk, ln)
        ctr += 1
        i += len(chunk)
        k += 1
    return out, ctr


def ref_unframe(key, ctr, stream):
    """(chunks, ok) as a conformant accessory decodes the controller's bytes"""
    chunks = []
    i = 0
    while i < len(stream):
        if i + 2 > len(stream):
            return chunks, False
        n = struct.unpack("<H", stream[i:i + 2])[0]
        if n > 1024 or n == 0 or i + 2 + n + 16 > len(stream):
            return chunks, False
        try:
            chunks.append(ChaCha20Poly1305(key).decrypt(bytes(4) + struct.pack("<Q", ctr), stream[i + 2:i + 2 + n + 16], stream[i:i + 2]))
        except InvalidTag:
            return chunks, False
        ctr += 1
        i += 2 + n + 16
    return chunks, True


class FakeTransport:
    def __init__(self):
        self.writes = []
        self.closed = False

    def is_closing(self):
        return self.closed

    def writelines(self, lines):
        self.writes.append(b"".join(bytes(x) for x in lines))

    def write(self, data):
        self.writes.append(bytes(data))

    def write_eof(self):
        pass

    def close(self):
        self.closed = True


class FakeConnection:
    def __init__(self):
        self.events = []

    def event_received(self, ev):
        self.events.append(ev)

    def _connection_lost(self, exc):
        pass


async def _outbound(payload, ctr0):
    from aiohomekit.controller.ip.connection import SecureHomeKitProtocol

    a2c, c2a = os.urandom(32), os.urandom(32)
    p = SecureHomeKitProtocol(FakeConnection(), a2c, c2a)
    t = FakeTransport()
    p.connection_made(t)
    p.c2a_counter = ctr0
    task = asyncio.ensure_future(p.send_bytes(payload))
    await asyncio.sleep(0)
    await asyncio.sleep(0)
    writes = list(t.writes)
    for f in list(p.result_cbs):
        if not f.done():
            f.set_result(None)
    try:
        await task
    except Exception:
        pass
    chunks, ok = ref_unframe(c2a, ctr0, b"".join(writes))
    good = (
        ok
        and b"".join(chunks) == payload
        and (len(writes) == 1 or (len(payload) == 0 and len(writes) <= 1))
        and all(0 < len(c) <= 1024 for c in chunks)
        and p.c2a_counter == ctr0 + len(chunks)
    )
    return good, {"payload_len": len(payload), "counter": ctr0, "writes": len(writes), "decoded_len": sum(map(len, chunks)), "accessory_decode_ok": ok, "counter_after": p.c2a_counter}


async def _inbound(plain, sizes, cuts, corrupt=None):
    from aiohomekit.controller.ip import connection as C

    a2c, c2a = os.urandom(32), os.urandom(32)
    p = C.SecureHomeKitProtocol(FakeConnection(), a2c, c2a)
    p.connection_made(FakeTransport())
    got = []
    orig = C.InsecureHomeKitProtocol.data_received
    C.InsecureHomeKitProtocol.data_received = lambda self, data: got.append(bytes(data))
    raised = None
    try:
        stream, _ = ref_frames(a2c, 0, plain, sizes)
        if corrupt is not None:
            b = bytearray(stream)
            b[corrupt % len(b)] ^= 0x01
            stream = bytes(b)
        pos = 0
        for c in sorted(set(cuts)) + [len(stream)]:
            if c > pos:
                try:
                    p.data_received(stream[pos:c])
                except RuntimeError as e:
                    raised = e
                    break
                pos = c
    finally:
        C.InsecureHomeKitProtocol.data_received = orig
    if corrupt is None:
        good = raised is None and b"".join(got) == plain and len(p._incoming_buffer) == 0
    else:
        # a corrupted frame must never be delivered: what was delivered is a prefix of the plaintext made of
        # whole frames, and the session ended with an error (or the corrupted length left a frame incomplete)
        good = plain.startswith(b"".join(got)) and b"".join(got) != plain
    return good, {"plain_len": len(plain), "sizes": sizes, "cuts": sorted(set(cuts))[:8], "corrupt": corrupt, "delivered": sum(map(len, got)), "raised": repr(raised)}


def scenarios(tier, seed):
    rnd = random.Random(seed)
    for n in [0, 1, 1023, 1024, 1025, 2047, 2048, 2049, 3072, 5000] + [rnd.randint(0, 6000) for _ in range(4 if tier == "quick" else 30)]:
        yield ("out", bytes(rnd.getrandbits(8) for _ in range(n)), rnd.choice([0, 1, 255, 256, 2 ** 32 - 1, 2 ** 32, 7]))
    plain_small = bytes(range(40))
    stream_len = len(ref_frames(bytes(32), 0, plain_small, [7, 13])[0])
    for a in range(0, stream_len + 1, 1 if tier == "thorough" else 3):
        yield ("in", plain_small, [7, 13], [a], None)
        if tier == "thorough":
            for b in range(a, stream_len + 1, 5):
                yield ("in", plain_small, [7, 13], [a, b], None)
    # frames of >= 256 plaintext bytes: every cut (and every pair of cuts) within a few bytes of a frame boundary
    big = bytes(rnd.getrandbits(8) for _ in range(300 + 1024 + 256))
    sizes_big = [300, 1024, 256]
    bounds = [0, 2 + 300 + 16, 2 + 300 + 16 + 2 + 1024 + 16, 2 + 300 + 16 + 2 + 1024 + 16 + 2 + 256 + 16]
    near = sorted({b + d for b in bounds for d in range(-3, 5) if 0 <= b + d <= bounds[-1]})
    for a in near:
        yield ("in", big, sizes_big, [a], None)
    step = 1 if tier == "thorough" else 2
    for ia in range(0, len(near), step):
        for ib in range(ia + 1, len(near), step):
            yield ("in", big, sizes_big, [near[ia], near[ib]], None)
    for _ in range(10 if tier == "quick" else 80):
        n = rnd.randint(1, 4000)
        plain = bytes(rnd.getrandbits(8) for _ in range(n))
        sizes = [rnd.randint(1, 1024) for _ in range(rnd.randint(1, 4))]
        total = len(ref_frames(bytes(32), 0, plain, sizes)[0])
        cuts = [rnd.randint(0, total) for _ in range(rnd.randint(0, 8))]
        yield ("in", plain, sizes, cuts, None)
        yield ("in", plain, sizes, cuts, rnd.randint(0, total - 1))


def run(tier="quick", seed=0, tag="C05/scenario"):
    cases = 0
    failures = []

    async def main():
        nonlocal cases
        for sc in scenarios(tier, seed):
            cases += 1
            if sc[0] == "out":
                good, info = await _outbound(sc[1], sc[2])
                clause = f"{tag}.outbound"
            else:
                good, info = await _inbound(sc[1], sc[2], sc[3], sc[4])
                clause = f"{tag}.inbound" + ("-corrupt" if sc[4] is not None else "")
            if not good:
                failures.append({"clause": clause, "scenario": info})
                if len(failures) >= 3:
                    return

    asyncio.run(main())
    return {"cases": cases, "distinct": cases, "failures": failures}
