"""Spec functions for the encrypted IP session framing (HAP specification, IP session security):
a message is cut into chunks of at most 1024 bytes; each frame is  le16(n) | AEAD(key, nonce=0000|le64(ctr),
aad=le16(n), chunk)  with the counter incremented per frame."""
from pyvc.api import spec, Int, Bool, Bytes, ByteArray, ListOf
from specs.crypto import seal, open_ok, open_pt

BList = ListOf(Bytes)


def le16(n):
    return bytes([n % 256, (n // 256) % 256])


def nonce(ctr):
    return bytes(4) + bytes([(ctr // 256 ** j) % 256 if j else ctr % 256 for j in range(8)])


@spec(args=[Bytes, Int, Bytes], ret=Bytes)
def frames(key, ctr, p):
    """wire bytes of the payload p sent with first counter ctr"""
    if len(p) == 0:
        return b""
    c = p[:1024]
    return le16(len(c)) + seal(key, nonce(ctr), le16(len(c)), c) + frames(key, ctr + 1, p[1024:])


@spec(args=[Bytes], ret=Int)
def nchunks(p):
    if len(p) == 0:
        return 0
    return 1 + nchunks(p[1024:])


@spec(args=[BList], ret=Bytes, fuel=2)
def join(parts):
    if len(parts) == 0:
        return b""
    return join(parts[:-1]) + parts[-1]


# inbound: the plaintexts of the maximal prefix of complete, authentic frames of a buffer


def frame_len(buf):
    return 2 + buf[0] + 256 * buf[1] + 16


@spec(args=[Bytes, Int, Bytes], ret=BList)
def unf_pts(key, ctr, buf):
    if len(buf) < 2:
        return []
    if len(buf) < frame_len(buf):
        return []
    if not open_ok(key, nonce(ctr), buf[:2], buf[2:frame_len(buf)]):
        return []
    return [open_pt(key, nonce(ctr), buf[:2], buf[2:frame_len(buf)])] + unf_pts(key, ctr + 1, buf[frame_len(buf):])


@spec(args=[Bytes, Int, Bytes], ret=Bytes)
def unf_rem(key, ctr, buf):
    """what stays in the buffer (an incomplete frame), or the buffer behind a frame that failed to open"""
    if len(buf) < 2:
        return buf
    if len(buf) < frame_len(buf):
        return buf
    if not open_ok(key, nonce(ctr), buf[:2], buf[2:frame_len(buf)]):
        return buf[frame_len(buf):]
    return unf_rem(key, ctr + 1, buf[frame_len(buf):])


@spec(args=[Bytes, Int, Bytes], ret=Int)
def unf_ctr(key, ctr, buf):
    if len(buf) < 2:
        return ctr
    if len(buf) < frame_len(buf):
        return ctr
    if not open_ok(key, nonce(ctr), buf[:2], buf[2:frame_len(buf)]):
        return ctr
    return unf_ctr(key, ctr + 1, buf[frame_len(buf):])


@spec(args=[Bytes, Int, Bytes], ret=Bool)
def unf_fail(key, ctr, buf):
    """some complete frame in the buffer fails authentication (after the authentic ones before it)"""
    if len(buf) < 2:
        return False
    if len(buf) < frame_len(buf):
        return False
    if not open_ok(key, nonce(ctr), buf[:2], buf[2:frame_len(buf)]):
        return True
    return unf_fail(key, ctr + 1, buf[frame_len(buf):])


@spec(args=[Bytes], ret=BList)
def chunks1024(p):
    """the payload cut into chunks of at most 1024 bytes"""
    if len(p) == 0:
        return []
    return [p[:1024]] + chunks1024(p[1024:])
