"""Reading specification of the incremental HTTP/EVENT parser (aiohomekit/http/response.py), one unit at a time.

A *unit* is what the parser consumes in one step: a CRLF-terminated line (status line, header line, blank line) or a
chunk (hex size line CRLF, that many bytes, CRLF).  The specification functions consume complete units from the front
of a buffer until the next unit is incomplete; the accumulated result travels in the arguments."""
import z3

from pyvc.api import spec, sub, Int, Bool, Bytes, TupleOf
from pyvc.values import ISEQ

I = z3.IntSort()
F_hex = z3.Function("atoi_base16", ISEQ, I)  # the symbol the model of int(x, 16) uses


def _u(decl):
    def deco(s):
        s.decl = decl
        s.uninterpreted = True
        return s

    return deco


@_u(F_hex)
@spec(args=[Bytes], ret=Int, uninterpreted=True)
def hexval(line):
    return int(bytes(line), 16)


ChunkState = TupleOf(Bytes, Bytes, Bool)  # (body so far, unconsumed buffer, terminating chunk seen)


@spec(args=[Bytes, Bytes], ret=ChunkState, fuel=1)
def dechunk(body, raw):
    """consume complete chunks from the front of raw"""
    pos = raw.find(b"\r\n")
    if pos < 0:
        return (body, raw, False)
    return dechunk_step(body, raw, sub(raw, 0, pos), sub(raw, pos + 2, len(raw) - pos - 2))


@spec(args=[Bytes, Bytes, Bytes, Bytes], ret=ChunkState, fuel=1)
def dechunk_step(body, raw, line, rest):
    """one chunk whose size line and the bytes after it have been cut out of raw"""
    n = hexval(line)
    if n + 2 > len(rest):
        return (body, raw, False)
    if n == 0:
        return (body, sub(rest, 2, len(rest) - 2), True)
    return dechunk(body + sub(rest, 0, n), sub(rest, n + 2, len(rest) - n - 2))
