"""Crypto function symbols usable in contracts: executable natively (real primitives, used by
replay) and mapped onto the uninterpreted symbols of pyvc.stubs_crypto in VCs."""
from pyvc.api import spec, Int, Bool, Bytes
from pyvc import stubs_crypto as sc


def _u(decl):
    def deco(s):
        s.decl = decl
        s.uninterpreted = True
        return s

    return deco


@_u(sc.F_hkdf)
@spec(args=[Bytes, Bytes, Bytes, Int], ret=Bytes, uninterpreted=True)
def hkdf(ikm, salt, info, n):
    from cryptography.hazmat.primitives import hashes
    from cryptography.hazmat.primitives.kdf.hkdf import HKDF

    return HKDF(algorithm=hashes.SHA512(), length=n, salt=bytes(salt), info=bytes(info)).derive(bytes(ikm))


@_u(sc.F_x_pub)
@spec(args=[Bytes], ret=Bytes, uninterpreted=True)
def x25519_pub(sk):
    from cryptography.hazmat.primitives.asymmetric import x25519
    from cryptography.hazmat.primitives import serialization as s

    return x25519.X25519PrivateKey.from_private_bytes(bytes(sk)).public_key().public_bytes(s.Encoding.Raw, s.PublicFormat.Raw)


@_u(sc.F_x_dh)
@spec(args=[Bytes, Bytes], ret=Bytes, uninterpreted=True)
def x25519_dh(sk, pk):
    from cryptography.hazmat.primitives.asymmetric import x25519

    return x25519.X25519PrivateKey.from_private_bytes(bytes(sk)).exchange(x25519.X25519PublicKey.from_public_bytes(bytes(pk)))


@_u(sc.F_ed_pub)
@spec(args=[Bytes], ret=Bytes, uninterpreted=True)
def ed_pub(sk):
    from cryptography.hazmat.primitives.asymmetric import ed25519
    from cryptography.hazmat.primitives import serialization as s

    return ed25519.Ed25519PrivateKey.from_private_bytes(bytes(sk)).public_key().public_bytes(s.Encoding.Raw, s.PublicFormat.Raw)


@_u(sc.F_ed_sign)
@spec(args=[Bytes, Bytes], ret=Bytes, uninterpreted=True)
def ed_sign(sk, m):
    from cryptography.hazmat.primitives.asymmetric import ed25519

    return ed25519.Ed25519PrivateKey.from_private_bytes(bytes(sk)).sign(bytes(m))


@_u(sc.P_ed_ok)
@spec(args=[Bytes, Bytes, Bytes], ret=Bool, uninterpreted=True)
def ed_ok(pk, sig, m):
    from cryptography.hazmat.primitives.asymmetric import ed25519
    from cryptography.exceptions import InvalidSignature

    try:
        ed25519.Ed25519PublicKey.from_public_bytes(bytes(pk)).verify(bytes(sig), bytes(m))
        return True
    except (InvalidSignature, ValueError):
        return False


@_u(sc.F_seal)
@spec(args=[Bytes, Bytes, Bytes, Bytes], ret=Bytes, uninterpreted=True)
def seal(key, nonce, aad, pt):
    from cryptography.hazmat.primitives.ciphers.aead import ChaCha20Poly1305

    return ChaCha20Poly1305(bytes(key)).encrypt(bytes(nonce), bytes(pt), bytes(aad))


@_u(sc.P_open_ok)
@spec(args=[Bytes, Bytes, Bytes, Bytes], ret=Bool, uninterpreted=True)
def open_ok(key, nonce, aad, ct):
    from cryptography.hazmat.primitives.ciphers.aead import ChaCha20Poly1305
    from cryptography.exceptions import InvalidTag

    try:
        ChaCha20Poly1305(bytes(key)).decrypt(bytes(nonce), bytes(ct), bytes(aad))
        return True
    except (InvalidTag, ValueError):
        return False


@_u(sc.F_open_pt)
@spec(args=[Bytes, Bytes, Bytes, Bytes], ret=Bytes, uninterpreted=True)
def open_pt(key, nonce, aad, ct):
    from cryptography.hazmat.primitives.ciphers.aead import ChaCha20Poly1305

    return ChaCha20Poly1305(bytes(key)).decrypt(bytes(nonce), bytes(ct), bytes(aad))


from pyvc import stubs_builtin as sb
from pyvc.api import Str


@_u(sb.F_hexdec)
@spec(args=[Str], ret=Bytes, uninterpreted=True)
def unhex(s):
    return bytes.fromhex(s)


@_u(sb.F_hexenc)
@spec(args=[Bytes], ret=Str, uninterpreted=True)
def hexstr(b):
    return bytes(b).hex()


@_u(sb.F_utf8enc)
@spec(args=[Str], ret=Bytes, uninterpreted=True)
def utf8(s):
    return s.encode()


@_u(sb.F_utf8dec)
@spec(args=[Bytes], ret=Str, uninterpreted=True)
def utf8dec(b):
    return bytes(b).decode()
