"""Spec functions for the pairing TLV8 wire format (HAP specification, TLV8 appendix):
an item (type k, value v) is written as  k, len, v  with values longer than 255 bytes split
into maximal 255-byte fragments that repeat the type; a zero-length value is `k 0`."""
from pyvc.api import spec, Int, Bytes, ListOf, TupleOf

Item = TupleOf(Int, Bytes)
Items = ListOf(Item)


@spec(args=[Int, Bytes], ret=Bytes)
def rest_frags(k, v):
    """fragments still to be written for a (possibly empty) remainder v of a non-empty value"""
    if len(v) == 0:
        return b""
    if len(v) > 255:
        return bytes([k, 255]) + v[:255] + rest_frags(k, v[255:])
    return bytes([k, len(v)]) + v


@spec(args=[Int, Bytes], ret=Bytes)
def frags(k, v):
    if len(v) == 0:
        return bytes([k, 0])
    return rest_frags(k, v)


@spec(args=[Items, Int], ret=Bytes)
def enc_upto(d, n):
    """canonical encoding of the first n items of d"""
    if n <= 0:
        return b""
    return enc_upto(d, n - 1) + frags(d[n - 1][0], d[n - 1][1])


def enc(d):
    return enc_upto(d, len(d))
