"""Spec functions for the pairing TLV8 wire format (HAP specification, TLV8 appendix):
an item (type k, value v) is written as  k, len, v  with values longer than 255 bytes split
into maximal 255-byte fragments that repeat the type; a zero-length value is `k 0`."""
from pyvc.api import spec, Int, Bool, Bytes, ByteArray, ListOf, TupleOf

Item = TupleOf(Int, Bytes)
Items = ListOf(Item)


@spec(args=[Int, Bytes], ret=Bytes)
def rest_frags(k, v):
    """fragments still to be written for a (possibly empty) remainder v of a non-empty value"""
    if len(v) == 0:
        return b""
    if len(v) > 255:
        return bytes([k, 255]) + v[:255] + rest_frags(k, v[255:])
    return bytes([k, len(v)]) + v


@spec(args=[Int, Bytes], ret=Bytes)
def frags(k, v):
    if len(v) == 0:
        return bytes([k, 0])
    return rest_frags(k, v)


@spec(args=[Items, Int], ret=Bytes)
def enc_upto(d, n):
    """canonical encoding of the first n items of d"""
    if n <= 0:
        return b""
    return enc_upto(d, n - 1) + frags(d[n - 1][0], d[n - 1][1])


def enc(d):
    return enc_upto(d, len(d))


# ---------------------------------------------------------------------------------------
# decoding: the accumulated result `acc` (a list of [type, value] two-lists) and the bytes still
# to be read; equal-typed neighbours merge; a non-empty `expected` filter stops at the first
# unexpected type.  dec_ok says the remaining bytes are well-formed (every declared length fits).

DItem = TupleOf(Int, ByteArray, aslist=True)
DItems = ListOf(DItem)
Ints = ListOf(Int)


@spec(args=[ByteArray, Ints], ret=Bool)
def dec_ok(tail, expected):
    if len(tail) == 0:
        return True
    if len(expected) > 0 and tail[0] not in expected:
        return True
    if len(tail) < 2:
        return False
    if len(tail) < 2 + tail[1]:
        return False
    return dec_ok(tail[2 + tail[1]:], expected)


@spec(args=[DItems, ByteArray, Ints], ret=DItems)
def dec_from(acc, tail, expected):
    if len(tail) == 0:
        return acc
    if len(expected) > 0 and tail[0] not in expected:
        return acc
    if len(tail) < 2 or len(tail) < 2 + tail[1]:
        return acc
    k = tail[0]
    v = tail[2: 2 + tail[1]]
    rest = tail[2 + tail[1]:]
    if len(acc) > 0 and acc[-1][0] == k:
        return dec_from(acc[:-1] + [[k, acc[-1][1] + v]], rest, expected)
    return dec_from(acc + [[k, v]], rest, expected)


# ---------------------------------------------------------------------------------------
# round trip (lemmas/tlv.py): the encoding read front to back, the item list as the reader returns it, and the two
# conditions under which a list of items is representable (types are bytes; equal-typed neighbours are ONE item on
# the wire, so a representable list has none)


@spec(args=[Items, Int], ret=Bytes, fuel=1)
def enc_from(d, i):
    """canonical encoding of the items from index i on"""
    if i < 0 or i >= len(d):
        return b""
    return frags(d[i][0], d[i][1]) + enc_from(d, i + 1)


@spec(args=[Items, Int], ret=DItems, fuel=1)
def as_read(d, n):
    """the first n items as decode returns them: [type, value] two-element lists"""
    if n <= 0:
        return []
    return as_read(d, n - 1) + [[d[n - 1][0], d[n - 1][1]]]


@spec(args=[Items, Int], ret=Bool, fuel=1)
def representable(d, i):
    """from index i on: every type is a byte and no two neighbours have the same type"""
    if i < 0 or i >= len(d):
        return True
    return 0 <= d[i][0] <= 255 and (i + 1 >= len(d) or d[i][0] != d[i + 1][0]) and representable(d, i + 1)
