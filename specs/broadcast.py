"""BLE encrypted broadcast notifications (HAP-BLE 7.4.7): ChaCha20-Poly1305 (RFC 8439) with the 16-byte tag truncated
to its first 4 bytes; nonce = 0000 | le64(global state number); AAD = the 6-byte advertising identifier; plaintext =
le16(GSN) | le16(characteristic instance id) | 8 value bytes.

The primitives of the third-party pure-Python package (ChaCha block function, Poly1305) are function symbols."""
import z3

from pyvc.api import spec, sub, Int, Bool, Bytes
from pyvc.values import ISEQ

from pyvc.stubs_crypto import F_otk, F_poly, F_chacha, F_zeros


def _u(decl):
    def deco(s):
        s.decl = decl
        s.uninterpreted = True
        return s

    return deco


@_u(F_otk)
@spec(args=[Bytes, Bytes], ret=Bytes, uninterpreted=True)
def otk(key, nonce):
    from chacha20poly1305 import ChaCha20Poly1305

    return bytes(ChaCha20Poly1305.poly1305_key_gen(bytes(key), bytes(nonce)))


@_u(F_poly)
@spec(args=[Bytes, Bytes], ret=Bytes, uninterpreted=True)
def poly1305(k, m):
    from chacha20poly1305 import Poly1305

    return bytes(Poly1305(bytes(k)).create_tag(bytes(m)))


@_u(F_chacha)
@spec(args=[Bytes, Bytes, Int, Bytes], ret=Bytes, uninterpreted=True)
def chacha20(key, nonce, counter, data):
    from chacha20poly1305 import ChaCha

    return bytes(ChaCha(bytes(key), bytes(nonce), counter=counter).decrypt(bytes(data)))


@_u(F_zeros)
@spec(args=[Int], ret=Bytes, uninterpreted=True)
def zeros(n):
    return bytes(n)


def le(v, w):
    return bytes([(v // 256 ** j) % 256 if j else v % 256 for j in range(w)])


def pad16(x):
    return zeros((16 - len(x) % 16) % 16)


def mac_data(aad, ct):
    """RFC 8439 section 2.8: AAD | pad16 | ciphertext | pad16 | le64(len AAD) | le64(len ciphertext)"""
    return aad + pad16(aad) + ct + pad16(ct) + le(len(aad), 8) + le(len(ct), 8)


def tag16(key, nonce, aad, ct):
    return poly1305(otk(key, nonce), mac_data(aad, ct))


def nonce_of(gsn):
    return bytes([0, 0, 0, 0]) + le(gsn, 8)


def cut(combined):
    """(ciphertext, received partial tag) exactly as Python's [:-4] / [-4:] cut them (inputs shorter than 4 bytes
    give an empty ciphertext and a shorter tag)"""
    return combined[:-4], combined[-4:]


def opens(key, nonce, aad, combined):
    """the received partial tag is a prefix of the RFC 8439 tag of (AAD, ciphertext)"""
    ct, tag = cut(combined)
    return sub(tag16(key, nonce, aad, ct), 0, len(tag)) == tag


def authentic(key, gsn, adv_id, payload):
    """a payload of at least one ciphertext byte whose FULL 4-byte partial tag is right under (key, nonce(gsn), adv id)"""
    return len(payload) >= 5 and opens(key, nonce_of(gsn), adv_id, payload)


def plaintext(key, gsn, payload):
    return chacha20(key, nonce_of(gsn), 1, cut(payload)[0])
