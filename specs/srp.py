"""SRP-6a as HomeKit uses it (RFC 5054 3072-bit group, SHA-512, user name "Pair-Setup"):

    A = g^a mod N                       k = H(PAD(N) | PAD(g))         u = H(PAD(A) | PAD(B))
    x = H(s | H(I ":" P))               S = (B - k g^x)^(a + u x) mod N
    K = H(PAD(S))                       M1 = H(H(N) xor H(g) | H(I) | s | PAD(A) | PAD(B) | K)     M2 = H(PAD(A) | M1 | K)

PAD(n) is the big-endian encoding of n left-padded with zero bytes to the length of N (384).  Modular exponentiation,
SHA-512 and the integer/byte conversions are function symbols shared with the models of the builtins the code uses."""
import z3

from pyvc.api import spec, Int, Bool, Bytes
from pyvc import stubs_crypto as sc
from pyvc import stubs_builtin as sb
from pyvc import stubs_srp as ss


def _u(decl):
    def deco(s):
        s.decl = decl
        s.uninterpreted = True
        return s

    return deco


@_u(sc.F_modexp)
@spec(args=[Int, Int, Int], ret=Int, uninterpreted=True)
def modexp(b, e, m):
    return pow(b, e, m)


@_u(sc.F_sha512)
@spec(args=[Bytes], ret=Bytes, uninterpreted=True)
def sha512(data):
    import hashlib

    return hashlib.sha512(bytes(data)).digest()


@_u(sb.F_os2ip_be)
@spec(args=[Bytes], ret=Int, uninterpreted=True)
def os2ip(b):
    return int.from_bytes(bytes(b), "big")


@_u(ss.F_minbytes)
@spec(args=[Int], ret=Bytes, uninterpreted=True)
def minbytes(n):
    return n.to_bytes((n.bit_length() + 7) // 8, "big")


@_u(sc.F_zeros)
@spec(args=[Int], ret=Bytes, uninterpreted=True)
def zeros(n):
    return bytes(n)


L = 384


def PAD(n, length=L):
    """big-endian, left-padded with zero bytes to `length`"""
    m = minbytes(n)
    return zeros(length - len(m)) + m
