"""Spec functions for HAP-BLE PDU fragmentation (HAP specification, HAP-BLE PDU format and
fragmentation scheme): how a conformant accessory reassembles the fragments of one request."""
from pyvc.api import spec, Int, Bool, Bytes, ListOf

Frags = ListOf(Bytes)


@spec(args=[Frags], ret=Bytes, fuel=2)
def reasm(frs):
    """body a conformant accessory has collected from the fragments: the first fragment carries
    a 7-byte header (control, opcode, tid, iid16, bodylen16), every continuation a 2-byte one"""
    if len(frs) == 0:
        return b""
    if len(frs) == 1:
        return frs[0][7:]
    return reasm(frs[:-1]) + frs[-1][2:]


@spec(args=[Frags, Int], ret=Bool, fuel=2)
def conts_ok(frs, tid):
    """every fragment after the first is a non-empty continuation: control 0x80, same tid"""
    if len(frs) <= 1:
        return True
    return conts_ok(frs[:-1], tid) and frs[-1][:2] == bytes([0x80, tid]) and len(frs[-1]) > 2


@spec(args=[Frags, Int], ret=Bool, fuel=2)
def sizes_ok(frs, size):
    if len(frs) == 0:
        return True
    return sizes_ok(frs[:-1], size) and len(frs[-1]) <= size


def le16(n):
    return bytes([n % 256, n // 256])
