"""Spec functions for HAP-BLE PDU fragmentation (HAP specification, HAP-BLE PDU format and
fragmentation scheme): how a conformant accessory reassembles the fragments of one request."""
from pyvc.api import spec, Int, Bool, Bytes, ListOf

Frags = ListOf(Bytes)


@spec(args=[Frags], ret=Bytes, fuel=2)
def reasm(frs):
    """body a conformant accessory has collected from the fragments: the first fragment carries
    a 7-byte header (control, opcode, tid, iid16, bodylen16), every continuation a 2-byte one"""
    if len(frs) == 0:
        return b""
    if len(frs) == 1:
        return frs[0][7:]
    return reasm(frs[:-1]) + frs[-1][2:]


@spec(args=[Frags, Int], ret=Bool, fuel=2)
def conts_ok(frs, tid):
    """every fragment after the first is a non-empty continuation: control 0x80, same tid"""
    if len(frs) <= 1:
        return True
    return conts_ok(frs[:-1], tid) and frs[-1][:2] == bytes([0x80, tid]) and len(frs[-1]) > 2


@spec(args=[Frags, Int], ret=Bool, fuel=2)
def sizes_ok(frs, size):
    if len(frs) == 0:
        return True
    return sizes_ok(frs[:-1], size) and len(frs[-1]) <= size


def le16(n):
    return bytes([n % 256, n // 256])


@spec(args=[Frags], ret=Bytes, fuel=2)
def rbody(frs):
    """response body the controller must assemble from the accessory's fragments: the first carries a 5-byte
    header (control, tid, status, bodylen16), every continuation a 2-byte one (control|0x80, tid)"""
    if len(frs) == 0:
        return b""
    if len(frs) == 1:
        return frs[0][5:]
    return rbody(frs[:-1]) + frs[-1][2:]


from specs.crypto import seal
from specs.framing import nonce


@spec(args=[Bytes, Int, Frags, Int], ret=Frags)
def enc_seq(key, ctr, frs, n):
    """the first n fragments, each sealed on its own: fragment i under nonce(ctr + i) with empty AAD"""
    if n <= 0:
        return []
    return enc_seq(key, ctr, frs, n - 1) + [seal(key, nonce(ctr + n - 1), b"", frs[n - 1])]


# CoAP batches ---------------------------------------------------------------------------------------

from pyvc.api import TupleOf

# a per-item result: (kind, body) with kind -1 for a body (success) and the PDUStatus value otherwise
ResItem = TupleOf(Int, Bytes)
ResList = ListOf(ResItem)


def coap_item_len(d):
    return d[3] + 256 * d[4]


def coap_item_kind(tid, d):
    """-1 = ok (body follows); 256 tid mismatch; status value 1..6; 257 response bit missing"""
    return 256 if d[1] != tid else (d[2] if d[2] != 0 else (257 if (d[0] // 2) % 8 != 1 else -1))


@spec(args=[Int, Int, Bytes, Int], ret=ResList)
def dec_all_from(start, k, data, off):
    """results of the items of a batch response from byte offset off on; item j must carry tid start+j; the
    offset always advances by 5 + declared body length, whatever the item's outcome"""
    d = data[off:]
    n = coap_item_len(d)
    kind = coap_item_kind(start + k, d)
    item = (kind, d[5: 5 + n] if kind == -1 else b"")
    if off + 5 + n >= len(data):
        return [item]
    return [item] + dec_all_from(start, k + 1, data, off + 5 + n)
