"""Structured TLV8 (HAP specification, TLV8 appendix).

Canonical encoding: a field is written as type, length, value; values over 255 bytes are cut into maximal 255-byte
fragments that repeat the type (the last fragment may be short).  Reading: an item is a type byte, a length byte and
that many value bytes; a fragment of exactly 255 bytes followed by a fragment of the same type is continued."""
from pyvc.api import spec, sub, Int, Bool, Bytes, ListOf, TupleOf

# ---------------------------------------------------------------------------------------------- writing


@spec(args=[Int, Bytes, Int], ret=Bytes, fuel=2)
def chunks_at(t, e, pos):
    """the fragments covering the first pos bytes of e, pos a multiple of 255 (the last fragment may be short)"""
    if pos < 255:
        return b""
    c = sub(e, pos - 255, 255)
    return chunks_at(t, e, pos - 255) + bytes([t, len(c)]) + c


def chunks(t, e):
    return chunks_at(t, e, 255 * ((len(e) + 254) // 255))


@spec(args=[Int, Bytes, Int], ret=Bytes, fuel=2)
def chunks_from(t, e, pos):
    """the same fragments read front to back: those for e[pos:], pos a multiple of 255 (lemma_chunks_eq relates the
    two: chunks_at(t, e, p) + chunks_from(t, e, p) == chunks_from(t, e, 0))"""
    if pos < 0 or pos >= len(e):
        return b""
    c = sub(e, pos, 255)
    return bytes([t, len(c)]) + c + chunks_from(t, e, pos + 255)


# ---------------------------------------------------------------------------------------------- reading

Tlv = TupleOf(Int, Int, Int, Bytes)  # what tlv_iterator yields: (offset of the LAST fragment, type, its length, joined value)
Tlvs = ListOf(Tlv)
Blobs = ListOf(Bytes)


def frag(b, off):
    """value bytes of the fragment whose header is at off (clamped at the end of b, as slicing does)"""
    return sub(b, off + 2, b[off + 1])


def cont(b, off):
    """the fragment at off is continued by the next one: full length, a next header byte exists, same type"""
    return b[off + 1] == 255 and off + 257 < len(b) and b[off + 257] == b[off]


@spec(args=[Bytes, Int], ret=Int, fuel=1)
def merged_end(b, off):
    """offset of the last fragment of the item that starts at off"""
    if 0 <= off and off + 257 < len(b) and cont(b, off):
        return merged_end(b, off + 257)
    return off


@spec(args=[Bytes, Int], ret=Bytes, fuel=1)
def merged_tail(b, off):
    """value bytes contributed by the fragments AFTER the one at off"""
    if 0 <= off and off + 257 < len(b) and cont(b, off):
        return frag(b, off + 257) + merged_tail(b, off + 257)
    return b""


@spec(args=[Bytes, Int], ret=Bool, fuel=1)
def chain_ok(b, off):
    """every fragment that continues the item at off has a complete header (precondition: off + 1 < len(b))"""
    if 0 <= off and off + 257 < len(b) and cont(b, off):
        return off + 258 < len(b) and chain_ok(b, off + 257)
    return True


@spec(args=[Bytes, Int], ret=Bool, fuel=1)
def headers_ok(b, off):
    """from off on, every item header (type and length byte) is complete - what a conformant sender produces"""
    if off < 0 or off >= len(b):
        return True
    e = merged_end(b, off)
    return off + 1 < len(b) and chain_ok(b, off) and headers_ok(b, e + 2 + b[e + 1])


@spec(args=[Bytes, Int], ret=Tlvs, fuel=1)
def items_from(b, off):
    """the items tlv_iterator yields from offset off on (headers assumed complete)"""
    if off < 0 or off >= len(b):
        return []
    e = merged_end(b, off)
    return [(e, b[off], b[e + 1], frag(b, off) + merged_tail(b, off))] + items_from(b, e + 2 + b[e + 1])


@spec(args=[Bytes, Tlvs, Int, Int, Int], ret=Blobs, fuel=1)
def split_from(b, its, i, start, sep):
    """list items: b cut at every top-level item of type sep; a non-empty remainder is the last list item
    (slices as Python takes them, so that the function is specified for arbitrary item lists too)"""
    if i < 0 or i >= len(its):
        return [b[start:]] if len(b[start:]) > 0 else []
    if its[i][1] == sep:
        return [b[start:its[i][0]]] + split_from(b, its, i + 1, its[i][0] + 2, sep)
    return split_from(b, its, i + 1, start, sep)
