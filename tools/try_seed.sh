#!/bin/sh
# tools/try_seed.sh <prop> <seed-dir> [checks...] : confirm the seeded change in a scratch worktree (tests pass, demo fails with /
# passes without), then run the given checks (default: <prop>) on /repo with the patch applied, and undo it.
P=$1; D=$2; shift 2; CHECKS=${*:-$P}
WT=/tmp/wt_confirm_$$
git -C /repo worktree add --detach $WT HEAD >/dev/null 2>&1
( cd $WT && /venv/bin/python $D/demo.py >/dev/null 2>&1; echo "demo on unchanged tree: exit $?" )
git -C $WT apply $D/patch.diff || { echo "patch does not apply"; git -C /repo worktree remove --force $WT; exit 2; }
( cd $WT && /venv/bin/python $D/demo.py >/dev/null 2>&1; echo "demo with change: exit $?" )
( cd $WT && /venv/bin/python -m pytest -q -p no:cacheprovider --timeout=900 2>&1 | tail -1 )
git -C /repo worktree remove --force $WT
git -C /repo apply $D/patch.diff
for c in $CHECKS; do ( cd /verif && timeout 1200 ./check $c 2>&1 | grep -E "VIOLATION|failed obligation|discharged|UNDECIDED|CHECKER" | head -8 ); done
git -C /repo checkout -- .
git -C /repo status --short | grep -v tests-pairing
