#!/usr/bin/env python3
"""Regenerates MANIFEST.json from the table below (claimed checks) + properties.jsonl (ids)."""
import json, os
ROOT = os.path.dirname(os.path.dirname(os.path.abspath(__file__)))

TECH = "contract-based deductive verification: VCs generated from the real function ASTs (pyvc) against sidecar contracts, discharged by cvc5 + z3"

CLAIMED = {
 "C01": dict(
  text="get_session_keys is executed symbolically with BOTH replies (M2, M4) unconstrained: at every return point the path condition is proved to imply that M2's encrypted data opened under HKDF(DH(this session)) with nonce PV-Msg02, that the identifier inside equals the stored one and that the signature inside verified under the STORED long-term key over accPK|accID|iosPK of this session (or, on the resume shortcut, that the tag opened under the key derived from the previous session's secret); M1/M3 and the derive closure are proved equal to the Pair Verify / Pair Resume formulas. Every other path is proved to end in a listed exception. 320 obligations, all paths.",
  note="Proof is in the symbolic (Dolev-Yao) crypto model: Ed25519/X25519/HKDF/ChaCha20-Poly1305 are ideal function symbols (DESIGN 3.3); utf-8/hex codecs uninterpreted partial inverses. Accessory-side acceptance of M3 follows at spec level from the proved M3 formula; it is additionally exercised by the labelled bounded scenario table (independent spec accessory in harness/hap_accessory.py). Key-install sites in the IP/BLE/CoAP drivers are not yet under contract.",
  ref="4/C01"),
 "C03": dict(
  text="perform_pair_setup_part1/part2 executed symbolically with all accessory replies unconstrained: proved that part1 returns exactly the reply's salt and key and only if both are present; that part2 continues past M4 only after the SRP proof verified, builds M3/M5 by the Pair Setup formulas (labels, iOSDeviceInfo order, PS-Msg05), returns only if M6 opened under the exchange key with PS-Msg06, carries id/key/signature and the signature verified over accX|id|key, and that the returned record is self-consistent (LTPK = ed_pub(LTSK), accessory id/key = the authenticated ones). Every other path raises.",
  note="Symbolic crypto model as C01; SrpClient enters by its assumed contract (RFC 5054 values; the class itself is the subject of C02). Bounded scenario table (labelled) replays refutations on the real generators.",
  ref="4/C03"),
 "C04": dict(
  text="error_handler is proved to raise exactly the class of the specification's table for every byte string and never return; handle_state_step to return only when the reply has no Error item and a right-or-absent State, raising the mapped class otherwise; all three state machines, run with unconstrained replies, to complete normally only if no reply carried an Error or a wrong State, to raise the mapped class when one did, and to let State and Error through every expectations filter they yield.",
  note="Trusted: pyvc semantics, dict(<arbitrary TLV list>) modelled as an arbitrary finite map. IP/BLE add/remove-pairing reply checks not yet under contract.",
  ref="4/C04"),
 "C05": dict(
  text="SecureHomeKitProtocol.send_bytes is proved (loop invariant, every payload length) to hand the transport layer, in ONE call, exactly frames(key, counter, payload): chunks of <= 1024 bytes, each le16(len) | AEAD(key, 0000|le64(counter+i), aad=le16(len), chunk), and to advance the counter by the number of chunks; data_received is proved, for every buffer state and every received segment (hence every cut of the stream), to deliver exactly the plaintexts of the complete authentic frames of buffer|data in order, keep exactly the incomplete remainder, advance the counter per accepted frame, and to raise RuntimeError without delivering the failing frame iff a complete frame fails authentication.",
  note="Ideal AEAD (DESIGN 3.3); _send_lines and the plain HTTP layer enter by assumed contracts (C08/C07). The two spec-level lemmas (unframe over stream concatenation; unframe after frames) are exercised by the labelled bounded native harness (harness/ip_framing.py: real protocol object, real keys, independent reference framing, all single cuts), not yet discharged deductively. 'Ends the session' relies on asyncio closing the transport when data_received raises.",
  ref="4/C05"),
 "C06": dict(
  text="Per key object the counters are proved to be the number of seals / acceptances and every seal / open to use nonce(counter): BLE EncryptionKey/DecryptionKey (__init__, encrypt, decrypt), CoAP EncryptionContext (encrypt, decrypt, decrypt_event), IP SecureHomeKitProtocol (__init__, send_bytes, data_received via the frame specs). A failed open leaves the counter unchanged. CoAP _decrypt_response is under contract and FAILS two clauses (recorded open findings: counter rewind accepts replays; zeroing reuses nonce 0).",
  note="Ideal AEAD with seal injective in the nonce. Not yet under contract: the BLE/IP 'close the connection on any failed or cancelled request' sites and the BLE key-install site (so cross-call freshness on BLE relies on them). Open findings are listed in KNOWN_FINDINGS.json and matched by failing exit, so other violations of the same clauses are still reported.",
  ref="4/C06"),
 "C15": dict(
  text="TLV.encode_list is proved equal to the canonical TLV8 spec function for every item list (loop invariants, all lengths) and to raise ValueError only for an invalid type/non-empty separator; TLV.decode_bytearray/decode_bytes are proved total (only TlvParseException escapes, exactly on malformed input), equal to the recursive decoding spec incl. merge and 'expected' filter, and to leave the argument unchanged.",
  note="Trusted: pyvc's encoding of Python semantics (DESIGN 2.3), cvc5/z3, models of bytearray/list/struct builtins (DESIGN 3.1). The round-trip lemma dec(enc(L)) = L over the two spec functions and BLE fragment reassembly are not yet discharged.",
  ref="4/C15"),
 "C17": dict(
  text="pdu.encode_pdu (generator, symbolic loop) is proved to emit a first fragment with the 7-byte header and size-7 body bytes, continuations with control 0x80 + tid, every fragment <= fragment size, and payloads that a conformant accessory reassembles to exactly the body, for every body and fragment size >= 8; decode_pdu / decode_pdu_continuation are proved to reject exactly wrong tid / missing continuation flag / undefined status and to return the header-layout slices otherwise.",
  note="Trusted: struct pack/unpack model, pyvc semantics. BLE _write_pdu/_read_pdu and the CoAP batch codecs are not yet under contract.",
  ref="4/C17"),
}

def main():
    props = [json.loads(l)["id"] for l in open(os.path.join(ROOT, "properties.jsonl"))]
    na_reasons = json.load(open(os.path.join(ROOT, "tools", "not_applicable.json")))
    checks = []
    for pid in props:
        if pid not in CLAIMED:
            continue
        c = CLAIMED[pid]
        checks.append({
            "property_id": pid,
            "quick_cmd": f"./check {pid} --tier quick",
            "thorough_cmd": f"./check {pid} --tier thorough",
            "evidence_file": f"evidence/{pid}.json",
            "replay_cmd_template": f"./check {pid} --replay {{path}}",
            "engine": "pyvc",
            "level_claimed": {"category": "proof", "text": c["text"], "design_ref": c["ref"]},
            "level_note": c["note"],
            "technique": TECH,
        })
    man = {
        "version": 1,
        "setup_cmd": "./setup.sh",
        "hooks": {
            "guard": "AIOHOMEKIT_VERIF",
            "enable": "no hooks: contracts are sidecar files under /verif/contracts keyed by module:qualname; /repo is read, never instrumented",
            "baseline_off_cmd": "cd /repo && /venv/bin/python -m pytest -ra -q -p no:cacheprovider --timeout=900 --continue-on-collection-errors",
            "source_commits": [],
            "add_only": True,
        },
        "engines": [{"name": "pyvc", "path": "pyvc/", "serves_properties": sorted(CLAIMED), "kind_free_text": "self-built VC generator: symbolic execution of the real function ASTs from /repo against sidecar contracts (pre/post, exceptional post, loop invariants, spec functions with fuel); obligations discharged by a cvc5 + z3 portfolio; refutations replayed on the real code"}],
        "checks": checks,
        "not_applicable": [{"property_id": p, "reason": na_reasons.get(p, "check under construction; not yet claimed")} for p in props if p not in CLAIMED],
        "notes": "See DESIGN.md. Properties move from not_applicable to checks as their contracts are discharged; KNOWN_FINDINGS.json lists fixed/open findings.",
    }
    json.dump(man, open(os.path.join(ROOT, "MANIFEST.json"), "w"), indent=1)
    import jsonschema
    jsonschema.validate(man, json.load(open("/root/.vp/MANIFEST.schema.json")))
    print("MANIFEST ok:", len(checks), "checks")

main()
