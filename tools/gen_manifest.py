#!/usr/bin/env python3
"""Regenerates MANIFEST.json from the table below (claimed checks) + properties.jsonl (ids)."""
import json, os
ROOT = os.path.dirname(os.path.dirname(os.path.abspath(__file__)))

TECH = "contract-based deductive verification: VCs generated from the real function ASTs (pyvc) against sidecar contracts, discharged by cvc5 + z3"

CLAIMED = {
 "C15": dict(
  text="TLV.encode_list is proved equal to the canonical TLV8 spec function for every item list (loop invariants, all lengths) and to raise ValueError only for an invalid type/non-empty separator; TLV.decode_bytearray is proved total (only TlvParseException escapes, exactly on malformed input), equal to the recursive decoding spec incl. merge and 'expected' filter, and to leave its argument unchanged. Each obligation is an SMT validity query over the AST of the function as it is in /repo now.",
  note="Trusted: pyvc's encoding of Python semantics (DESIGN 2.3), cvc5/z3, models of bytearray/list/struct builtins (DESIGN 3.1). The round-trip lemma dec(enc(L)) = L over the two spec functions is checked bounded (labelled) until the inductive lemma layer lands; BLE fragment reassembly not yet under contract.",
  ref="4/C15"),
}

def main():
    props = [json.loads(l)["id"] for l in open(os.path.join(ROOT, "properties.jsonl"))]
    na_reasons = json.load(open(os.path.join(ROOT, "tools", "not_applicable.json")))
    checks = []
    for pid in props:
        if pid not in CLAIMED:
            continue
        c = CLAIMED[pid]
        checks.append({
            "property_id": pid,
            "quick_cmd": f"./check {pid} --tier quick",
            "thorough_cmd": f"./check {pid} --tier thorough",
            "evidence_file": f"evidence/{pid}.json",
            "replay_cmd_template": f"./check {pid} --replay {{path}}",
            "engine": "pyvc",
            "level_claimed": {"category": "proof", "text": c["text"], "design_ref": c["ref"]},
            "level_note": c["note"],
            "technique": TECH,
        })
    man = {
        "version": 1,
        "setup_cmd": "./setup.sh",
        "hooks": {
            "guard": "AIOHOMEKIT_VERIF",
            "enable": "no hooks: contracts are sidecar files under /verif/contracts keyed by module:qualname; /repo is read, never instrumented",
            "baseline_off_cmd": "cd /repo && /venv/bin/python -m pytest -ra -q -p no:cacheprovider --timeout=900 --continue-on-collection-errors",
            "source_commits": [],
            "add_only": True,
        },
        "engines": [{"name": "pyvc", "path": "pyvc/", "serves_properties": sorted(CLAIMED), "kind_free_text": "self-built VC generator: symbolic execution of the real function ASTs from /repo against sidecar contracts (pre/post, exceptional post, loop invariants, spec functions with fuel); obligations discharged by a cvc5 + z3 portfolio; refutations replayed on the real code"}],
        "checks": checks,
        "not_applicable": [{"property_id": p, "reason": na_reasons.get(p, "check under construction; not yet claimed")} for p in props if p not in CLAIMED],
        "notes": "See DESIGN.md. Properties move from not_applicable to checks as their contracts are discharged; KNOWN_FINDINGS.json lists fixed/open findings.",
    }
    json.dump(man, open(os.path.join(ROOT, "MANIFEST.json"), "w"), indent=1)
    import jsonschema
    jsonschema.validate(man, json.load(open("/root/.vp/MANIFEST.schema.json")))
    print("MANIFEST ok:", len(checks), "checks")

main()
