#!/usr/bin/env python3
"""Regenerates MANIFEST.json from the table below (claimed checks) + properties.jsonl (ids)."""
import json, os
ROOT = os.path.dirname(os.path.dirname(os.path.abspath(__file__)))

TECH = "contract-based deductive verification: VCs generated from the real function ASTs (pyvc) against sidecar contracts, discharged by cvc5 + z3"

CLAIMED = {
 "C01": dict(
  text="get_session_keys is executed symbolically with BOTH replies (M2, M4) unconstrained: at every return point the path condition is proved to imply that M2's encrypted data opened under HKDF(DH(this session)) with nonce PV-Msg02, that the identifier inside equals the stored one and that the signature inside verified under the STORED long-term key over accPK|accID|iosPK of this session (or, on the resume shortcut, that the tag opened under the key derived from the previous session's secret); M1/M3 and the derive closure are proved equal to the Pair Verify / Pair Resume formulas. Every other path is proved to end in a listed exception. 320 obligations, all paths.",
  note="Proof is in the symbolic (Dolev-Yao) crypto model: Ed25519/X25519/HKDF/ChaCha20-Poly1305 are ideal function symbols (DESIGN 3.3); utf-8/hex codecs uninterpreted partial inverses. Accessory-side acceptance of M3 follows at spec level from the proved M3 formula; it is additionally exercised by the labelled bounded scenario table (independent spec accessory in harness/hap_accessory.py). Key-install sites in the IP/BLE/CoAP drivers are not yet under contract.",
  ref="4/C01"),
 "C03": dict(
  text="perform_pair_setup_part1/part2 executed symbolically with all accessory replies unconstrained: proved that part1 returns exactly the reply's salt and key and only if both are present; that part2 continues past M4 only after the SRP proof verified, builds M3/M5 by the Pair Setup formulas (labels, iOSDeviceInfo order, PS-Msg05), returns only if M6 opened under the exchange key with PS-Msg06, carries id/key/signature and the signature verified over accX|id|key, and that the returned record is self-consistent (LTPK = ed_pub(LTSK), accessory id/key = the authenticated ones). Every other path raises.",
  note="Symbolic crypto model as C01; SrpClient enters by its assumed contract (RFC 5054 values; the class itself is the subject of C02). Bounded scenario table (labelled) replays refutations on the real generators.",
  ref="4/C03"),
 "C04": dict(
  text="error_handler is proved to raise exactly the class of the specification's table for every byte string and never return; handle_state_step to return only when the reply has no Error item and a right-or-absent State, raising the mapped class otherwise; all three state machines, run with unconstrained replies, to complete normally only if no reply carried an Error or a wrong State, to raise the mapped class when one did, and to let State and Error through every expectations filter they yield.",
  note="Trusted: pyvc semantics, dict(<arbitrary TLV list>) modelled as an arbitrary finite map. IP/BLE add/remove-pairing reply checks not yet under contract.",
  ref="4/C04"),
 "C05": dict(
  text="SecureHomeKitProtocol.send_bytes is proved (loop invariant, every payload length) to hand the transport layer, in ONE call, exactly frames(key, counter, payload): chunks of <= 1024 bytes, each le16(len) | AEAD(key, 0000|le64(counter+i), aad=le16(len), chunk), and to advance the counter by the number of chunks; data_received is proved, for every buffer state and every received segment (hence every cut of the stream), to deliver exactly the plaintexts of the complete authentic frames of buffer|data in order, keep exactly the incomplete remainder, advance the counter per accepted frame, and to raise RuntimeError without delivering the failing frame iff a complete frame fails authentication.",
  note="Ideal AEAD (DESIGN 3.3); _send_lines and the plain HTTP layer enter by assumed contracts (C08/C07). The two spec-level lemmas (unframe over stream concatenation; unframe after frames) are exercised by the labelled bounded native harness (harness/ip_framing.py: real protocol object, real keys, independent reference framing, all single cuts), not yet discharged deductively. 'Ends the session' relies on asyncio closing the transport when data_received raises.",
  ref="4/C05"),
 "C06": dict(
  text="Per key object the counters are proved to be the number of seals / acceptances and every seal / open to use nonce(counter): BLE EncryptionKey/DecryptionKey (__init__, encrypt, decrypt), CoAP EncryptionContext (encrypt, decrypt, decrypt_event), IP SecureHomeKitProtocol (__init__, send_bytes, data_received via the frame specs). A failed open leaves the counter unchanged. CoAP _decrypt_response is under contract and FAILS two clauses (recorded open findings: counter rewind accepts replays; zeroing reuses nonce 0).",
  note="Ideal AEAD with seal injective in the nonce. Not yet under contract: the BLE/IP 'close the connection on any failed or cancelled request' sites and the BLE key-install site (so cross-call freshness on BLE relies on them). Open findings are listed in KNOWN_FINDINGS.json and matched by failing exit, so other violations of the same clauses are still reported.",
  ref="4/C06"),
 "C08": dict(
  text="Futures live in a ghost heap (state/value arrays, references of any number): _cancel_pending_requests, connection_lost and eof_received are proved (loop invariant over result_cbs of ANY length) to leave no request outstanding - every pending future done with a disconnection error, done ones untouched; data_received to complete exactly a FIFO prefix of the queue and never let an EVENT consume a request; _handle_timeout to fail only its own pending request; _send_lines, with the await modelled as an interference point (result / timer / disconnect / cancellation, queue and heap havocked), to enqueue + arm the 30 s timer + write in one atomic segment, return only its own future's value, close the transport on EVERY failure after the write, turn a timeout into a disconnection error and cancel the timer unless it fired; request() to send only under the semaphore and to refuse with a disconnection error when the protocol is gone at entry or was lost while waiting.",
  note="asyncio objects are assumed contracts (DESIGN 3.2): callbacks atomic, a timer fires its callback, close() leads to connection_lost. HttpResponse.parse enters as 'returns the unconsumed rest' (C07). Wall-clock promptness of the 30 s timer is not decided. Bounded stand-in (labelled): all action sequences of length <= 4 over issue/answer/event/cancel/timeout/peer-close/step with two concurrent callers on the real protocol object.",
  ref="4/C08"),
 "C09": dict(
  text="HomeKitConnection.request is proved to hand the protocol, in ONE call, exactly utf8(METHOD SP target SP HTTP/1.1 CRLF Host-header CRLF [Name: value CRLF]* CRLF) + body for symbolic targets, header values and bodies; get/put/post to call it with no headers / exactly Content-Length (= len(body)) then Content-Type in that order; hkjson.dump_bytes to return exactly the result of one orjson.dumps call on the unchanged value without the indent option and never another encoder's output.",
  note="str/bytes as sequences, str.encode an uninterpreted homomorphism-free symbol (terms compared structurally), str(int) = itoa symbol. orjson's compactness is an assumed contract with a labelled ground check on random nested values. Not yet under contract: the Host header construction in _connect_once and the pairing-level URL/payload builders (so the seeded 'stale Host header after reconnect' change is NOT detected yet).",
  ref="4/C09"),
 "C10": dict(
  text="_reconnect is proved with a loop contract: invariant 0.5 <= interval <= 60, lock held, no stale wait future; a per-iteration step clause proved for ONE ARBITRARY iteration: exactly one attempt, then either one interruptible sleep of min(60, 1.5 x previous) >= 0.75 s or - only after a wrong pairing id that newly excluded an address while another is still eligible - an immediate next attempt; the loop is left only by success, AuthenticationError, closing, or cancellation (every other exception class of an attempt is caught). Guards proved over all states: _start_connector creates a task exactly when none is running and the connection is down; reconnect_soon ends a running wait or starts the connector; ensure_connection awaits shield(connector) and never cancels it; _get_connect_hosts is never empty, never drops an eligible address and forgets exclusions when all are excluded; the host-change block keeps exclusions for a reordered but equal address set and clears them for a changed set; IpPairing._ensure_connected waits under a 10 s timeout and translates errors; a zeroconf update never reconnects after shutdown.",
  note="Address lists are representative concrete lists of 1..3 hosts (the code is parametric in the strings); _connect_once enters by its outcome classes. Time itself is not modelled: 'always followed by further attempts' is reduced to control flow (every failed attempt leads back to the loop head through a sleep <= 60 s); floats are treated as reals.",
  ref="4/C10"),
 "C11": dict(
  text="Ghost set `open` (transports created and not closed). Proved: _drop_transport closes and forgets the held transport in every object state incl. the secure subclass during pair-verify; post_tlv closes the transport on an HTTP error; SecureHomeKitConnection._connect_once leaves NO open transport on ANY exceptional exit (every exception class of pair-verify, peer close, HTTP error, cancellation at each step) and holds exactly the new one on success; protocol.connection_lost tells the owner only when the lost transport is the one it holds (loss of an abandoned connection is harmless); _connection_lost drops and restarts unless closing; close() returns normally and leaves nothing open for EVERY state of the connector task (none, running, finished normally, finished with any exception). Three defects found by these obligations were repaired (fix commits b979fbf, f6a4836, bb8c75d).",
  note="The base _connect_once (socket + create_connection) enters by an assumed contract; asyncio transports are stubs. Bounded native harness (labelled): scripted histories per pair-verify failure class with an independent accessory, counting connections open at the same time and after close().",
  ref="4/C11"),
 "C12": dict(
  text="_callback_listeners: every listener called exactly once with the event, also after others raised, nothing escapes (0..3 listeners, each raising or not); connection_made(secure): every listener hears the empty event, then ALL recorded subscriptions are requested again, nothing on the plain connection; subscribe: the intent is recorded before the first suspension point and a cut-off subscription request switches to the documented polling fallback; _update_subscriptions: for 1..4 characteristics with ARBITRARY ids in any order (and representative interleaved concrete sets) the PUT payloads concatenate to exactly one aid/iid/ev entry per characteristic, one accessory id per PUT; event_received hands a JSON body to the pairing exactly once and ignores empty / non-UTF-8 / non-JSON bodies without raising (defect repaired: non-UTF-8 body).",
  note="Listener and subscription SETS are small representative sets (code parametric in the elements); listeners must not mutate the listener set during dispatch (precondition). Exactly-once and order per EVENT message rest on the C08 dispatch contract. A JSON event body that is not an object is outside the contract.",
  ref="4/C12"),
 "C13": dict(
  text="to_status_code is proved to normalise every integer (negative, positive-signed, unknown) to the defined HAP status or the unknown sentinel without raising; format_characteristic_list to return, for every requested characteristic and every reply list (statuses arbitrary integers, entries missing, duplicated, non-dict, id-less), the accessory's status for that characteristic, the request-wide status for unmentioned ones, and to skip malformed entries; IpPairing.put_characteristics to build one aid/iid/value entry per request, to report exactly the accessory's non-zero statuses and to notify listeners for exactly the accepted readable characteristics (defect repaired: comparison with the description string); IpPairing.get_characteristics to return value-or-status for every requested id; the CoAP write result mapping to attach the i-th status to the i-th characteristic and CoAPPairing.put_characteristics / BlePairing.put_characteristics to notify exactly the accepted readable ones and never present a rejected write as written.",
  note="Request sets are representative concrete sets of 1..4 characteristics over 1..2 accessory ids with symbolic statuses and permissions; the JSON/HTTP layer, the BLE request function and the CoAP connection enter by assumed contracts returning arbitrary replies. BLE reads and the CoAP read mapping are covered by the labelled bounded native harness (harness/outcomes.py) only.",
  ref="4/C13"),
 "C14": dict(
  text="check_convert_value is proved against exact rational arithmetic for every integer format (uint8..uint64, int): for every integer input of magnitude up to 2^64 and every combination of minValue/maxValue/minStep present or absent (symbolic integers, step >= 1, min <= max) the result is a Python int equal to the grid point min + step*k nearest to the clamped input (ties upward) - exactly, whatever the magnitude (defect repaired: the six-digit decimal context was applied to integer formats); for ANY string input and any numeric format the call returns a number or raises FormatError and nothing else (defect repaired: decimal.InvalidOperation escaping); bool yields the int 0/1 exactly for the accepted truth words and FormatError otherwise.",
  note="decimal.Decimal is modelled as exact rationals plus an uninterpreted context-rounding symbol with two assumed facts (DESIGN 3.5); str->number parsing (int()/float()/Decimal()) enters by assumed contracts. The float format (six significant digits, fractional steps) and 'in range whenever the bounds are on the grid' for floats are decided ONLY by the labelled bounded native stand-in (harness/values.py: fractions.Fraction oracle over the property's format/step/magnitude table) - bounded, not counted as proved.",
  ref="4/C14"),
 "C15": dict(
  text="TLV.encode_list is proved equal to the canonical TLV8 spec function for every item list (loop invariants, all lengths) and to raise ValueError only for an invalid type/non-empty separator; TLV.decode_bytearray/decode_bytes are proved total (only TlvParseException escapes, exactly on malformed input), equal to the recursive decoding spec incl. merge and 'expected' filter, and to leave the argument unchanged.",
  note="Trusted: pyvc's encoding of Python semantics (DESIGN 2.3), cvc5/z3, models of bytearray/list/struct builtins (DESIGN 3.1). The round-trip lemma dec(enc(L)) = L over the two spec functions and BLE fragment reassembly are not yet discharged.",
  ref="4/C15"),
 "C16": dict(
  text="Every TLVStruct subclass is found by reflection (26 classes) and gets its own contracts. Encode_<class>: TLVStruct.encode, executed on a message whose fields are decided lazily (unset / any value of the declared type; nested messages opaque with an arbitrary canonical encoding, their encode() used by contract under a nesting-rank measure), is proved by loop invariants over the field loop and the fragment loop to return exactly the canonical encoding: fields in declaration order, unset fields skipped, maximal 255-byte fragments for values of EVERY length, lists of messages joined by zero-length separators. tlv_iterator and tlv_array are proved, for EVERY byte string with complete item headers, to read exactly the items / list cuts of the reading specification (fragment re-joining with look-ahead, stop at end of input) and to raise nothing. Lemmas proved by induction (lemma bodies are proof scripts, recursion checked against a measure): back-to-front and front-to-back fragment specifications agree; the fragments of a value, followed by end of input / another type / a short last fragment, are read back as ONE item with exactly that value; positional notation for 1..16-byte integers. Decode_<class>: TLVStruct.decode, executed on the canonical encoding of a message (shapes: none, each field alone, every second field, all fields - or every window of three consecutive fields for classes of more than 5 fields), returns exactly the field values that were encoded (u8..u128, bu16, str, bytes, IntEnum, nested message) and leaves the rest unset. Scalar serialisers/deserialisers are proved against the byte-layout formulas. Four findings are recorded (packed Sequence[u16] linked-service lists are mis-decoded / cannot be encoded; Meshcop declares two TLV types twice).",
  note="Shapes of the decode contracts and list lengths (0..3 messages, 0..6 ids) are enumerated, each shape proved completely. Decoding LISTS of messages end to end (split on separators + per-item decode) and whole accessory databases is NOT proved: tlv_array is proved against its specification for all inputs, but the lemma split(join(items)) = items for opaque nested encodings is not discharged; that part is decided only by the labelled bounded native stand-in (harness/tlv8_structs.py: every class by reflection against an independent reference codec, sizes 1,254,255,256,510,511, lists of 1..3, databases 1..3 x 1..3 x 1..3, id lists 0..6 covering every byte value). Zero-length values (empty str/bytes/list, nested message with no field set) are outside the property's stated range and are skipped by encode. float fields have no serialiser and stay unset. Characteristic.value struct access (characteristic.py:184-206) is not under contract.",
  ref="4/C16"),
 "C17": dict(
  text="pdu.encode_pdu (generator, symbolic loop) is proved to emit a first fragment with the 7-byte header and size-7 body bytes, continuations with control 0x80 + tid, every fragment <= fragment size, and payloads that a conformant accessory reassembles to exactly the body, for every body and fragment size >= 8; decode_pdu / decode_pdu_continuation are proved to reject exactly wrong tid / missing continuation flag / undefined status and to return the header-layout slices otherwise.",
  note="Trusted: struct pack/unpack model, pyvc semantics. BLE _write_pdu/_read_pdu and the CoAP batch codecs are not yet under contract.",
  ref="4/C17"),
 "C19": dict(
  text="mDNS async_find: proved that for a not-yet-known id a waiter is registered under the lower-cased id and the timer armed with the caller's timeout with NO suspension point in between, that the awaited object is that future, that the discovery it is woken with is returned, that a timeout becomes AccessoryNotFoundError and the timer is cancelled on every exit; _async_handle_loaded_service_info completes EVERY pending waiter under the id with the stored discovery, leaves done/other-id waiters alone, ignores invalid records and never raises (0..3 waiters in each state, with/without known discovery and pairing); _async_on_timeout fails only a pending waiter; BLE async_find registers the future it awaits and unregisters it on every exit (defect repaired); HomeKitAdvertisement.from_manufacturer_data raises only ValueError for EVERY byte string and returns the HAP-BLE field slices; BlePairing._update_cached_state_num never raises with or without cached state (defect repaired).",
  note="asyncio futures/timers are stubs; waiter lists are small representative lists. Not yet under contract: HomeKitService.from_service_info, the full BLE _device_detected body (covered by the labelled bounded native stand-in: every prefix of valid advertisements + random bytes x three pairing situations, and a real waiter wake-up) and the aggregate Controller.async_find.",
  ref="4/C19"),
 "C20": dict(
  text="Controller.save_data over a ghost file system (open('w') truncates at once, a write may be cut at any prefix, os.replace atomic, crash between any two events): proved that at EVERY crash point the pairing file holds its old content or the complete new text, and that the text written is the JSON of {alias: pairing_data} for every alias (defect repaired: in-place write); load_data parses exactly this file, hands every saved pairing to load_pairing unchanged (also after a skipped one) and lets only ConfigLoadingError escape; CharacteristicCacheFile.__init__ never raises and starts cold for any of the JSON decode exception classes.",
  note="open/os.replace/pathlib and the JSON codec are assumed contracts; durability (fsync) is not decided. The field-wise round trip of the entity map through the model classes is a labelled bounded native stand-in (repository fixtures, fields of the property statement) - not a proof.",
  ref="4/C20"),
}

def main():
    props = [json.loads(l)["id"] for l in open(os.path.join(ROOT, "properties.jsonl"))]
    na_reasons = json.load(open(os.path.join(ROOT, "tools", "not_applicable.json")))
    checks = []
    for pid in props:
        if pid not in CLAIMED:
            continue
        c = CLAIMED[pid]
        checks.append({
            "property_id": pid,
            "quick_cmd": f"./check {pid} --tier quick",
            "thorough_cmd": f"./check {pid} --tier thorough",
            "evidence_file": f"evidence/{pid}.json",
            "replay_cmd_template": f"./check {pid} --replay {{path}}",
            "engine": "pyvc",
            "level_claimed": {"category": "proof", "text": c["text"], "design_ref": c["ref"]},
            "level_note": c["note"],
            "technique": TECH,
        })
    man = {
        "version": 1,
        "setup_cmd": "./setup.sh",
        "hooks": {
            "guard": "AIOHOMEKIT_VERIF",
            "enable": "no hooks: contracts are sidecar files under /verif/contracts keyed by module:qualname; /repo is read, never instrumented",
            "baseline_off_cmd": "cd /repo && /venv/bin/python -m pytest -ra -q -p no:cacheprovider --timeout=900 --continue-on-collection-errors",
            "source_commits": [],
            "add_only": True,
        },
        "engines": [{"name": "pyvc", "path": "pyvc/", "serves_properties": sorted(CLAIMED), "kind_free_text": "self-built VC generator: symbolic execution of the real function ASTs from /repo against sidecar contracts (pre/post, exceptional post, loop invariants, spec functions with fuel); obligations discharged by a cvc5 + z3 portfolio; refutations replayed on the real code"}],
        "checks": checks,
        "not_applicable": [{"property_id": p, "reason": na_reasons.get(p, "check under construction; not yet claimed")} for p in props if p not in CLAIMED],
        "notes": "See DESIGN.md. Properties move from not_applicable to checks as their contracts are discharged; KNOWN_FINDINGS.json lists fixed/open findings.",
    }
    json.dump(man, open(os.path.join(ROOT, "MANIFEST.json"), "w"), indent=1)
    import jsonschema
    jsonschema.validate(man, json.load(open("/root/.vp/MANIFEST.schema.json")))
    print("MANIFEST ok:", len(checks), "checks")

main()
