#!/usr/bin/env python3
"""Regenerates the seeded-change table of DESIGN.md 8.7 from seeded/*/meta.json + result.json (between the markers)."""
import glob, json, os, re
ROOT = os.path.dirname(os.path.dirname(os.path.abspath(__file__)))
rows = ["| seed | what the change does | check result | fired |", "|---|---|---|---|"]
det = tot = 0
for d in sorted(glob.glob(os.path.join(ROOT, "seeded", "*"))):
    m = json.load(open(os.path.join(d, "meta.json")))
    r = json.load(open(os.path.join(d, "result.json"))) if os.path.exists(os.path.join(d, "result.json")) else {}
    what = re.sub(r"^C\d\d\s*(change|seed)?\s*\d*\s*[-:]*\s*", "", m["what"]).replace("|", "/")[:150]
    if m.get("status", "").startswith("invalidated"):
        res, fired = "not applicable any more", "(invalidated by repair b979fbf)"
    elif not r.get("applies", False):
        res, fired = "patch does not apply", ""
    else:
        tot += 1
        if r["detected"]:
            det += 1
            kinds = [k for k, v in (("deductive obligation", r["by_deductive_obligation"]), ("bounded stand-in", r["by_bounded_standin"])) if v]
            res = "VIOLATION (exit 1)" + (", input replayed" if r.get("confirmed_by_replay") else ", no-failing-input-found")
            names = sorted({f.split("/", 1)[1].split("#")[-1] if "#" in f else f for f in r["failed_obligations"]})[:3]
            fired = "; ".join(kinds) + ": " + ", ".join(n.replace("|", "/")[:70] for n in names)
        else:
            res = f"NOT detected (exit {r['exit']})" + (" - undecided" if r.get("undecided") else "")
            fired = (r.get("undecided") or [""])[0][:120].replace("|", "/")
    rows.append(f"| {m['seed']} | {what} | {res} | {fired} |")
rows.append("")
rows.append(f"Detected: {det} of {tot} applicable seeded changes (quick tier, one run each, on the tree of this commit).")
p = os.path.join(ROOT, "DESIGN.md")
s = open(p).read()
block = "<!-- seed-table -->\n" + "\n".join(rows) + "\n<!-- /seed-table -->"
if "SEED_TABLE" in s:
    s = s.replace("SEED_TABLE", block)
else:
    s = re.sub(r"<!-- seed-table -->.*?<!-- /seed-table -->", lambda _: block, s, flags=re.S)
open(p, "w").write(s)
print(f"detected {det}/{tot}")
