#!/bin/sh
# run every claimed check (quick tier, or $1) on the clean tree; evidence files are rewritten
cd "$(dirname "$0")/.."
git -C /repo status --short | grep -v tests-pairing && { echo "/repo is not clean"; exit 2; }
TIER=${1:-quick}
for p in $(python3 -c "import json; print(' '.join(c['property_id'] for c in json.load(open('MANIFEST.json'))['checks']))"); do
  s=$(date +%s); out=$(timeout 3000 ./check $p --tier $TIER 2>&1); rc=$?; e=$(date +%s)
  echo "$p rc=$rc $((e-s))s $(echo "$out" | grep -E "^$p \[" | tail -1 | cut -c1-150)"
  echo "$out" | grep -E "VIOLATION|UNDECIDED|CHECKER" | head -3
done
