#!/bin/sh
# tools/sweep_seeds.sh [seed-dir-names...] : apply each kept seeded change to /repo, run the property's quick check, record
# exit code + which obligations / stand-in clauses fired in seeded/<id>/result.json, undo the change.  Never commits in /repo.
cd "$(dirname "$0")/.."
git -C /repo status --short | grep -v tests-pairing && { echo "/repo is not clean"; exit 2; }
SEEDS=${*:-$(ls seeded)}
for s in $SEEDS; do
  p=${s%%_*}
  [ -f seeded/$s/patch.diff ] || continue
  if ! git -C /repo apply --check "$PWD/seeded/$s/patch.diff" 2>/dev/null; then
    echo "$s does-not-apply"; python3 -c "import json; json.dump({'seed':'$s','applies':False}, open('seeded/$s/result.json','w'), indent=1)"; continue
  fi
  git -C /repo apply "$PWD/seeded/$s/patch.diff"
  out=$(timeout 2400 ./check $p 2>&1); rc=$?
  git -C /repo checkout -- . ; rm -f /repo/tests-pairing.json
  echo "$out" > /tmp/sweep_$s.log
  python3 - "$s" "$rc" <<'PY'
import json, re, sys
s, rc = sys.argv[1], int(sys.argv[2])
out = open(f"/tmp/sweep_{s}.log").read()
failed = sorted({l.split("failed obligation:",1)[1].strip() for l in out.splitlines() if "failed obligation:" in l})
viol = [l for l in out.splitlines() if l.startswith("VIOLATION")]
und = [l[:200] for l in out.splitlines() if l.startswith("UNDECIDED")]
summ = [l for l in out.splitlines() if re.match(r"^C\d\d \[", l)]
res = {"seed": s, "applies": True, "exit": rc, "detected": rc == 1, "violations": len(viol),
       "confirmed_by_replay": sum(1 for l in viol if not l.rstrip().endswith("no-failing-input-found")),
       "failed_obligations": failed[:12], "by_deductive_obligation": any("#native" not in f for f in failed),
       "by_bounded_standin": any("#native" in f for f in failed), "undecided": und[:4], "summary": summ[-1:] }
json.dump(res, open(f"seeded/{s}/result.json", "w"), indent=1)
print(s, "exit", rc, "deductive" if res["by_deductive_obligation"] else "", "bounded" if res["by_bounded_standin"] else "", len(failed), "obligations")
PY
  rm -f /tmp/sweep_$s.log
done
git -C /repo status --short | grep -v tests-pairing
