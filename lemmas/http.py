"""Relational statements about the REAL HttpResponse.parse: a driver calls the real method on two parsers that start in
the same state; `assert` is a proof obligation.  Nothing here is executed by the library."""


def merge_content_length(r1, r2, a, b):
    """reading a then b is the same as reading a + b (Content-Length body): same body, same completion, and the bytes
    after the message are carried over exactly once"""
    x = r1.parse(a)
    if r1.is_read_completely():
        # the message ended inside a: the feed loop starts a new message with x, b follows it
        z = r2.parse(a + b)
        assert r2.is_read_completely()
        assert r2.body == r1.body
        assert z == x + b
    else:
        assert len(x) == 0
        y = r1.parse(b)
        z = r2.parse(a + b)
        assert r1.body == r2.body
        assert r1._raw_response == r2._raw_response
        assert y == z
        assert r1.is_read_completely() == r2.is_read_completely()
