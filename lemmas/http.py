"""Relational statements about the REAL HttpResponse.parse: a driver calls the real method on two parsers that start in
the same state; `assert` is a proof obligation.  Nothing here is executed by the library."""


def merge_content_length(r1, r2, a, b):
    """reading a then b is the same as reading a + b (Content-Length body): same body, same completion, and the bytes
    after the message are carried over exactly once"""
    x = r1.parse(a)
    if r1.is_read_completely():
        # the message ended inside a: the feed loop starts a new message with x, b follows it
        z = r2.parse(a + b)
        assert r2.is_read_completely()
        assert r2.body == r1.body
        assert z == x + b
    else:
        assert len(x) == 0
        y = r1.parse(b)
        z = r2.parse(a + b)
        assert r1.body == r2.body
        assert r1._raw_response == r2._raw_response
        assert y == z
        assert r1.is_read_completely() == r2.is_read_completely()


from pyvc.api import sub
from specs.http import dechunk, dechunk_step, hexval


def tail(s, k):
    return sub(s, k, len(s) - k)


def lemma_dechunk_merge(body, x, b):
    """consuming complete chunks from x and then, with what is left, from the newly read b is the same as consuming
    them from x + b (the reading specification of the chunked mechanism does not depend on where the read boundary is)"""
    pos = x.find(b"\r\n")
    if pos < 0:
        assert dechunk(body, x) == (body, x, False)
    else:
        xb = x + b
        line = sub(x, 0, pos)
        rest = tail(x, pos + 2)
        n = hexval(line)
        assert xb.find(b"\r\n") == pos
        assert sub(xb, 0, pos) == line
        assert tail(xb, pos + 2) == rest + b
        assert dechunk(body, x) == dechunk_step(body, x, line, rest)
        assert dechunk(body, xb) == dechunk_step(body, xb, sub(xb, 0, pos), tail(xb, pos + 2))
        assert dechunk(body, xb) == dechunk_step(body, xb, line, rest + b)
        if n + 2 > len(rest):
            assert dechunk(body, x) == (body, x, False)
        elif n == 0:
            assert dechunk(body, x) == (body, tail(rest, 2), True)
            assert tail(rest + b, 2) == tail(rest, 2) + b
            assert dechunk_step(body, xb, line, rest + b) == (body, tail(rest + b, 2), True)
            assert dechunk(body, xb) == (body, tail(rest, 2) + b, True)
        else:
            assert sub(rest + b, 0, n) == sub(rest, 0, n)
            assert tail(rest + b, n + 2) == tail(rest, n + 2) + b
            assert dechunk(body, x) == dechunk(body + sub(rest, 0, n), tail(rest, n + 2))
            assert dechunk_step(body, xb, line, rest + b) == dechunk(body + sub(rest + b, 0, n), tail(rest + b, n + 2))
            assert dechunk(body, xb) == dechunk(body + sub(rest, 0, n), tail(rest, n + 2) + b)
            lemma_dechunk_merge(body + sub(rest, 0, n), tail(rest, n + 2), b)
