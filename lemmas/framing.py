"""Lemmas about the inbound framing specification (specs/framing.py): what is delivered does not depend on how the
stream is cut into reads.  Proof scripts (conventions: lemmas/tlv8.py)."""
from pyvc.api import sub
from specs.crypto import open_ok, open_pt
from specs.framing import unf_pts, unf_rem, unf_ctr, unf_fail, nonce, frame_len


def lemma_unframe_more(key, ctr, b, x):
    """reading b and later, with what was left of b, the newly received x gives what reading b + x gives (as long as no
    frame of b failed authentication - then the session is over)"""
    if len(b) >= 2:
        n = frame_len(b)
        bx = b + x
        assert bx[0] == b[0] and bx[1] == b[1]
        assert frame_len(bx) == n
        if len(b) >= n:
            assert sub(bx, 0, 2) == sub(b, 0, 2)
            assert sub(bx, 2, n - 2) == sub(b, 2, n - 2)
            assert sub(bx, n, len(bx) - n) == sub(b, n, len(b) - n) + x
            if open_ok(key, nonce(ctr), sub(b, 0, 2), sub(b, 2, n - 2)):
                lemma_unframe_more(key, ctr + 1, sub(b, n, len(b) - n), x)


from specs.crypto import seal
from specs.framing import frames, nchunks, chunks1024, le16


def lemma_unframe_frames(key, ctr, p):
    """what the sender writes for a payload is read back as exactly the chunks of the payload, nothing is left over,
    the counter advances by the number of frames, nothing fails authentication (ideal AEAD)"""
    if len(p) > 0:
        c = p[:1024]
        more = p[1024:]
        f = le16(len(c)) + seal(key, nonce(ctr), le16(len(c)), c)
        buf = frames(key, ctr, p)
        assert buf == f + frames(key, ctr + 1, more)
        assert 1 <= len(c) <= 1024
        assert buf[0] + 256 * buf[1] == len(c)
        assert frame_len(buf) == len(f)
        assert buf[:2] == le16(len(c))
        assert buf[2:frame_len(buf)] == seal(key, nonce(ctr), le16(len(c)), c)
        assert buf[frame_len(buf):] == frames(key, ctr + 1, more)
        assert open_ok(key, nonce(ctr), buf[:2], buf[2:frame_len(buf)])
        assert open_pt(key, nonce(ctr), buf[:2], buf[2:frame_len(buf)]) == c
        lemma_unframe_frames(key, ctr + 1, more)
        assert chunks1024(p) == [c] + chunks1024(more)
        assert nchunks(p) == 1 + nchunks(more)
