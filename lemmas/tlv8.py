"""Lemmas about the structured-TLV8 specification functions (specs/tlv8.py).  A lemma is a function whose contract is the
statement and whose body is the proof: recursive calls are uses of the induction hypothesis (checked to be on
strictly smaller arguments by the `decreases` measure of the contract).  Nothing here is executed by the library."""
from pyvc.api import sub
from specs.tlv8 import chunks_at, chunks_from, merged_end, merged_tail, frag, cont, items_from, chain_ok, headers_ok


def lemma_chunks_eq(t, e, p):
    """chunks_at(t, e, p) + chunks_from(t, e, p) == chunks_from(t, e, 0): writing back to front or front to back
    gives the same fragments"""
    if p > 0:
        lemma_chunks_eq(t, e, p - 255)


def lemma_read_chunks(b, pre, t, e, pos, rest):
    """b = pre + fragments of e[pos:] + rest: reading at len(pre) yields e[pos:] as ONE item, provided what follows
    cannot be taken for a continuation (end of input, another type, or a last fragment shorter than 255)"""
    off = len(pre)
    c = sub(e, pos, 255)
    assert chunks_from(t, e, pos) == bytes([t, len(c)]) + c + chunks_from(t, e, pos + 255)
    assert b[off] == t and b[off + 1] == len(c)
    assert frag(b, off) == c
    if pos + 255 < len(e):
        assert b == (pre + bytes([t, 255]) + c) + chunks_from(t, e, pos + 255) + rest
        lemma_read_chunks(b, pre + bytes([t, 255]) + c, t, e, pos + 255, rest)
        assert b[off + 257] == t
        assert cont(b, off)
        assert merged_tail(b, off) == frag(b, off + 257) + merged_tail(b, off + 257)
        assert merged_tail(b, off) == sub(e, pos + 255, len(e) - pos - 255)
        assert sub(e, pos, len(e) - pos) == c + sub(e, pos + 255, len(e) - pos - 255)
        assert chunks_from(t, e, pos + 255) == bytes([t, len(sub(e, pos + 255, 255))]) + sub(e, pos + 255, 255) + chunks_from(t, e, pos + 510)
        assert off + 258 < len(b)
        assert chain_ok(b, off)
    else:
        assert chunks_from(t, e, pos + 255) == b""
        assert not cont(b, off)


def lemma_read_item(b, pre, t, e, rest):
    """b = pre + all fragments of e + rest: tlv_iterator's specification yields, at len(pre), the ONE item (type t, value
    e) and goes on behind the fragments; the headers of the item are complete"""
    off = len(pre)
    lemma_read_chunks(b, pre, t, e, 0, rest)
    end = merged_end(b, off)
    nxt = len(b) - len(rest)
    assert end + 2 + b[end + 1] == nxt
    assert sub(e, 0, len(e)) == e
    assert frag(b, off) + merged_tail(b, off) == e
    assert items_from(b, off) == [(end, b[off], b[end + 1], frag(b, off) + merged_tail(b, off))] + items_from(b, end + 2 + b[end + 1])
    assert headers_ok(b, off) == (off + 1 < len(b) and chain_ok(b, off) and headers_ok(b, end + 2 + b[end + 1]))


def lemma_chunks_len(t, e, pos):
    """the fragments of e[pos:] take two header bytes per started 255 bytes"""
    if pos < len(e):
        c = sub(e, pos, 255)
        assert chunks_from(t, e, pos) == bytes([t, len(c)]) + c + chunks_from(t, e, pos + 255)
        if pos + 255 < len(e):
            lemma_chunks_len(t, e, pos + 255)
        else:
            assert chunks_from(t, e, pos + 255) == b""


def lemma_chunks_canon(t, e):
    """the canonical fragments (written back to front by TLVStruct.encode's specification) are the fragments read front
    to back"""
    p = 255 * ((len(e) + 254) // 255)
    lemma_chunks_eq(t, e, p)
    assert chunks_from(t, e, p) == b""


def lemma_le_digits(v, w):
    """positional notation: the w little-endian base-256 digits of v (0 <= v < 256**w) add up to v"""
    assert v % 256 ** 1 == v % 256
    if w >= 2:
        assert v % 256 ** 2 == v % 256 ** 1 + 256 ** 1 * ((v // 256 ** 1) % 256)
    if w >= 3:
        assert v % 256 ** 3 == v % 256 ** 2 + 256 ** 2 * ((v // 256 ** 2) % 256)
    if w >= 4:
        assert v % 256 ** 4 == v % 256 ** 3 + 256 ** 3 * ((v // 256 ** 3) % 256)
    if w >= 5:
        assert v % 256 ** 5 == v % 256 ** 4 + 256 ** 4 * ((v // 256 ** 4) % 256)
    if w >= 6:
        assert v % 256 ** 6 == v % 256 ** 5 + 256 ** 5 * ((v // 256 ** 5) % 256)
    if w >= 7:
        assert v % 256 ** 7 == v % 256 ** 6 + 256 ** 6 * ((v // 256 ** 6) % 256)
    if w >= 8:
        assert v % 256 ** 8 == v % 256 ** 7 + 256 ** 7 * ((v // 256 ** 7) % 256)
    if w >= 9:
        assert v % 256 ** 9 == v % 256 ** 8 + 256 ** 8 * ((v // 256 ** 8) % 256)
    if w >= 10:
        assert v % 256 ** 10 == v % 256 ** 9 + 256 ** 9 * ((v // 256 ** 9) % 256)
    if w >= 11:
        assert v % 256 ** 11 == v % 256 ** 10 + 256 ** 10 * ((v // 256 ** 10) % 256)
    if w >= 12:
        assert v % 256 ** 12 == v % 256 ** 11 + 256 ** 11 * ((v // 256 ** 11) % 256)
    if w >= 13:
        assert v % 256 ** 13 == v % 256 ** 12 + 256 ** 12 * ((v // 256 ** 12) % 256)
    if w >= 14:
        assert v % 256 ** 14 == v % 256 ** 13 + 256 ** 13 * ((v // 256 ** 13) % 256)
    if w >= 15:
        assert v % 256 ** 15 == v % 256 ** 14 + 256 ** 14 * ((v // 256 ** 14) % 256)
    if w >= 16:
        assert v % 256 ** 16 == v % 256 ** 15 + 256 ** 15 * ((v // 256 ** 15) % 256)
