"""History drivers for the IP connection object: sidecar code that calls the REAL methods in sequence on one object (a
history of two connections); the contract of the driver is a statement about every such history."""


async def connect_twice(conn):
    """connect, lose the connection, connect again (possibly to another of the accessory's addresses); what a request
    would send as Host header after each connection"""
    await conn._connect_once()
    first = conn.host_header
    conn._drop_transport()
    await conn._connect_once()
    second = conn.host_header
    return (first, second)
