"""Lemmas about the pairing-TLV specification functions (specs/tlv.py): decoding what the canonical encoder wrote gives the
items back.  Proof scripts (see lemmas/tlv8.py for the conventions)."""
from pyvc.api import sub
from specs.tlv import rest_frags, frags, dec_from, dec_ok


def lemma_dec_rest_frags(acc, k, v1, v2, rest):
    """the remaining fragments of a value are appended to the item that is being read"""
    if len(v2) > 255:
        head = sub(v2, 0, 255)
        more = sub(v2, 255, len(v2) - 255)
        assert rest_frags(k, v2) == bytes([k, 255]) + head + rest_frags(k, more)
        tail = rest_frags(k, v2) + rest
        assert tail == bytes([k, 255]) + head + (rest_frags(k, more) + rest)
        assert dec_from(acc + [[k, v1]], tail, []) == dec_from(acc + [[k, v1 + head]], rest_frags(k, more) + rest, [])
        lemma_dec_rest_frags(acc, k, v1 + head, more, rest)
        assert v1 + head + more == v1 + v2
    elif len(v2) > 0:
        assert rest_frags(k, v2) == bytes([k, len(v2)]) + v2
        tail = rest_frags(k, v2) + rest
        assert tail == bytes([k, len(v2)]) + v2 + rest
        assert dec_from(acc + [[k, v1]], tail, []) == dec_from(acc + [[k, v1 + v2]], rest, [])
    else:
        assert rest_frags(k, v2) == b""


def lemma_dec_item(acc, k, v, rest):
    """reading the canonical encoding of ONE item (type k, value v of any length) appends exactly that item - provided the
    item read before it has another type (equal-typed neighbours are one item on the wire)"""
    if len(v) == 0:
        assert frags(k, v) == bytes([k, 0])
        assert frags(k, v) + rest == bytes([k, 0]) + rest
        assert dec_from(acc, bytes([k, 0]) + rest, []) == dec_from(acc + [[k, b""]], rest, [])
    elif len(v) > 255:
        head = sub(v, 0, 255)
        more = sub(v, 255, len(v) - 255)
        assert frags(k, v) == bytes([k, 255]) + head + rest_frags(k, more)
        assert frags(k, v) + rest == bytes([k, 255]) + head + (rest_frags(k, more) + rest)
        assert dec_from(acc, frags(k, v) + rest, []) == dec_from(acc + [[k, head]], rest_frags(k, more) + rest, [])
        lemma_dec_rest_frags(acc, k, head, more, rest)
        assert head + more == v
    else:
        assert frags(k, v) == bytes([k, len(v)]) + v
        assert frags(k, v) + rest == bytes([k, len(v)]) + v + rest
        assert dec_from(acc, frags(k, v) + rest, []) == dec_from(acc + [[k, v]], rest, [])


from specs.tlv import enc_upto, enc_from, as_read, representable


def lemma_enc_eq(d, n):
    """writing item by item (the encoder's loop) and reading the item list front to back describe the same bytes"""
    if n > 0:
        lemma_enc_eq(d, n - 1)
        assert enc_upto(d, n) == enc_upto(d, n - 1) + frags(d[n - 1][0], d[n - 1][1])
        assert enc_from(d, n - 1) == frags(d[n - 1][0], d[n - 1][1]) + enc_from(d, n)


def lemma_round_trip(d, i):
    """decoding the canonical encoding of a representable item list returns the items, in order, values of any length"""
    if i < len(d):
        k = d[i][0]
        v = d[i][1]
        acc = as_read(d, i)
        assert enc_from(d, i) == frags(k, v) + enc_from(d, i + 1)
        lemma_dec_item(acc, k, v, enc_from(d, i + 1))
        assert as_read(d, i + 1) == acc + [[k, v]]
        lemma_round_trip(d, i + 1)
    else:
        assert enc_from(d, i) == b""
        assert as_read(d, i) == as_read(d, len(d))


def lemma_ok_rest_frags(k, v2, rest):
    """the remaining fragments of a value are well-formed input (every declared length fits)"""
    if len(v2) > 255:
        head = sub(v2, 0, 255)
        more = sub(v2, 255, len(v2) - 255)
        assert rest_frags(k, v2) == bytes([k, 255]) + head + rest_frags(k, more)
        assert rest_frags(k, v2) + rest == bytes([k, 255]) + head + (rest_frags(k, more) + rest)
        assert dec_ok(rest_frags(k, v2) + rest, []) == dec_ok(rest_frags(k, more) + rest, [])
        lemma_ok_rest_frags(k, more, rest)
    elif len(v2) > 0:
        assert rest_frags(k, v2) == bytes([k, len(v2)]) + v2
        assert rest_frags(k, v2) + rest == bytes([k, len(v2)]) + v2 + rest
        assert dec_ok(rest_frags(k, v2) + rest, []) == dec_ok(rest, [])
    else:
        assert rest_frags(k, v2) == b""


def lemma_ok_item(k, v, rest):
    if len(v) == 0:
        assert frags(k, v) == bytes([k, 0])
        assert frags(k, v) + rest == bytes([k, 0]) + rest
        assert dec_ok(bytes([k, 0]) + rest, []) == dec_ok(rest, [])
    else:
        assert frags(k, v) == rest_frags(k, v)
        lemma_ok_rest_frags(k, v, rest)


def lemma_ok_all(d, i):
    """the canonical encoding of an item list is well-formed input"""
    if i < len(d):
        assert enc_from(d, i) == frags(d[i][0], d[i][1]) + enc_from(d, i + 1)
        lemma_ok_item(d[i][0], d[i][1], enc_from(d, i + 1))
        lemma_ok_all(d, i + 1)
    else:
        assert enc_from(d, i) == b""


def lemma_round_trip_top(d):
    """dec(enc(d)) = d for every representable item list (the encoder's own specification enc_upto on the left)"""
    lemma_enc_eq(d, len(d))
    assert enc_from(d, len(d)) == b""
    assert enc_upto(d, len(d)) == enc_from(d, 0)
    assert as_read(d, 0) == []
    lemma_round_trip(d, 0)
    lemma_ok_all(d, 0)


def real_round_trip(d):
    """the REAL encoder followed by the REAL decoder (both used by their proved contracts)"""
    from aiohomekit.protocol.tlv import TLV

    lemma_round_trip_top(d)
    return TLV.decode_bytearray(TLV.encode_list(d))
