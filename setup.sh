#!/bin/sh
# setup_cmd: build the overlay venv offline (z3-solver, cvc5, crosshair-tool, deal, icontract) on top of /venv's site-packages
set -e
cd "$(dirname "$0")"
if [ ! -x .venv/bin/python ] || ! .venv/bin/python -c "import z3, aiohomekit" >/dev/null 2>&1; then
  rm -rf .venv
  /venv/bin/python -m venv .venv
  PIP_NO_INDEX=1 .venv/bin/pip install -q --no-index --find-links /opt/veriftools/wheels z3-solver cvc5 crosshair-tool deal icontract jsonschema >/dev/null
  SP=$(.venv/bin/python -c "import sysconfig; print(sysconfig.get_paths()['purelib'])")
  echo "import site; site.addsitedir('/venv/lib/python3.12/site-packages')" > "$SP/zz_repo_overlay.pth"
fi
.venv/bin/python -c "import z3, aiohomekit; print('overlay venv ok', z3.get_version_string(), aiohomekit.__file__)"
